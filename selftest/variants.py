"""Scratch-copy variants of rosjat/python-scsi used to test the checker both
ways.  ``expect: fire`` variants break a property while still compiling (and,
spot-checked, passing the 45 existing tests); ``expect: silent`` twins preserve
behaviour.  Edits are unique-substring replacements inside one file."""

P = "pyscsi/pyscsi/"
U = "pyscsi/utils/"


def V(id, props, file, old, new, expect="fire", rule=None, count=1, more=(), **kw):
    d = {"id": id, "props": props, "edits": [{"file": file, "old": old, "new": new, "count": count}],
         "expect": expect, "rule": rule}
    for f2, o2, n2 in more:
        d["edits"].append({"file": f2, "old": o2, "new": n2, "count": 1})
    d.update(kw)
    return d


VARIANTS = [
    # ---- C14 ----------------------------------------------------------
    V("c14-transposed-digit-ssc-locate", ["C14"], P + "scsi_enum_command.py",
      '"LOCATE_16": OpCode("LOCATE_16", 0x92', '"LOCATE_16": OpCode("LOCATE_16", 0x29', rule="opcode-value"),
    V("c14-mmc-readcd", ["C14", "C01"], P + "scsi_enum_command.py",
      '"READ_CD": OpCode("READ_CD", 0xBE', '"READ_CD": OpCode("READ_CD", 0xEB'),
    V("c14-init-cdb-5f-60", ["C14"], P + "scsi_command.py", "0x20 <= opcode.value <= 0x5F", "0x20 <= opcode.value <= 0x60",
      rule="cdb-length-group"),
    V("c14-init-cdb-c0-12byte", ["C14"], P + "scsi_command.py", "0xA0 <= opcode.value <= 0xBF", "0xA0 <= opcode.value <= 0xC0",
      rule="cdb-length-group"),
    V("c14-status-busy", ["C14"], P + "scsi_enum_command.py", '"BUSY": 0x08', '"BUSY": 0x80', rule="status-value"),
    V("c14-sa-getlbastatus", ["C14", "C01"], P + "scsi_enum_command.py", '"GET_LBA_STATUS": 0x12,\n    "READ_CAPACITY_16"',
      '"GET_LBA_STATUS": 0x11,\n    "READ_CAPACITY_16"'),
    V("c14-twin-reorder", ["C14"], P + "scsi_enum_command.py",
      '    "BUSY": 0x08,\n    "RESERVATION_CONFLICT": 0x18,', '    "RESERVATION_CONFLICT": 0x18,\n    "BUSY": 0x08,', expect="silent"),
    V("c14-twin-decimal", ["C14"], P + "scsi_enum_command.py", '"REWIND": OpCode("REWIND", 0x01', '"REWIND": OpCode("REWIND", 1',
      expect="silent"),
    # ---- C10 ----------------------------------------------------------
    V("c10-bm-ge", ["C10", "C02"], U + "converter.py", "while _bm > 0xFF:\n                _bm >>= 8\n                _num += 1\n            value = scsi_ba_to_int",
      "while _bm >= 0xFF:\n                _bm >>= 8\n                _num += 1\n            value = scsi_ba_to_int"),
    V("c10-shift-2", ["C10", "C01"], U + "converter.py", "value <<= 1", "value <<= 2"),
    V("c10-ba-index", ["C10"], U + "converter.py", "(len(ba) - 1 - i)", "(len(ba) - i)"),
    V("c10-xor-assign", ["C10"], U + "converter.py", "result[bytepos + i] ^= v[i]", "result[bytepos + i] = v[i]", rule="L3"),
    V("c10-blob-w-len", ["C10"], U + "converter.py", "result[offset : offset + length * 2] = value",
      "result[offset : offset + length * 4] = value", rule="L7"),
    V("c10-int-to-ba-stride", ["C10", "C01"], U + "converter.py", "(to_convert >> i * 8) & 0xFF", "(to_convert >> i * 4) & 0xFF"),
    V("c10-decode-no-mask", ["C10", "C02"], U + "converter.py", "            value &= bitmask\n", "            pass\n"),
    V("c10-twin-shift-form", ["C10", "C01", "C02"], U + "converter.py", "                bitmask >>= 1\n                value >>= 1",
      "                bitmask = bitmask >> 1\n                value = value >> 1", expect="silent"),
    V("c10-twin-range-form", ["C10", "C01"], U + "converter.py", "for i in reversed(range(array_size))",
      "for i in range(array_size - 1, -1, -1)", expect="silent"),
    # ---- C02 ----------------------------------------------------------
    V("c02-read10-group-overlap", ["C02"], P + "scsi_cdb_read10.py", '"group": [0x1F, 6]', '"group": [0x1F, 5]', rule="decode-after-encode"),
    V("c02-mask-hole", ["C02"], P + "scsi_cdb_write12.py", '"tl": [0xFFFFFFFF, 6]', '"tl": [0xFFFF00FF, 6]', rule="mask-contiguous"),
    V("c02-unmarshall-other-table", ["C02"], P + "scsi_command.py", "decode_bits(cdb, SCSICommand._cdb_bits, result)",
      "decode_bits(cdb, {'opcode': [0xFF, 0]}, result)", rule="unmarshall-cdb-same-table"),
    V("c02-rtpg-overlap", ["C02"], P + "scsi_cdb_report_target_port_groups.py", '"parameter_data_format": [0xE0, 1]',
      '"parameter_data_format": [0xF0, 1]', rule="decode-after-encode"),
    V("c02-zero-mask", ["C02", "C01"], P + "scsi_cdb_movemedium.py", '"invert": [0x01, 10]', '"invert": [0x00, 10]', allow_error=True),
    # ---- C03 ----------------------------------------------------------
    V("c03-read12-one-block", ["C03"], P + "scsi_cdb_read12.py", "SCSICommand.__init__(self, opcode, 0, blocksize * tl)",
      "SCSICommand.__init__(self, opcode, 0, blocksize)", rule="buffer-matches-transfer"),
    V("c03-modesense6-buffer-other-var", ["C03"], P + "scsi_cdb_modesense6.py", "SCSICommand.__init__(self, opcode, 0, alloclen)",
      "SCSICommand.__init__(self, opcode, 0, 96)"),
    V("c03-ata16-swapped-dir", ["C03"], P + "scsi_cdb_atapassthrough16.py",
      "            dataout_alloclen = tl * blocksize\n            datain_alloclen = 0\n        else:",
      "            dataout_alloclen = 0\n            datain_alloclen = tl * blocksize\n        elif t_dir == 7:"),
    V("c03-ata12-512-520", ["C03"], P + "scsi_cdb_atapassthrough12.py", "blocksize = 512", "blocksize = 520"),
    V("c03-ata12-count-feature", ["C03"], P + "scsi_cdb_atapassthrough12.py", "            tl = count\n", "            tl = fetures\n"),
    V("c03-sgio-swapped", ["C03", "C13"], P + "scsi_device.py", "cmd.cdb, cmd.dataout, cmd.datain)", "cmd.cdb, cmd.datain, cmd.dataout)",
      rule="transport-passes-buffers"),
    V("c03-iscsi-precedence", ["C03"], "pyscsi/pyiscsi/iscsi_device.py",
      "        if len(cmd.datain):\n            dir = iscsi.SCSI_XFER_READ\n            xferlen = len(cmd.datain)\n        if len(cmd.dataout):\n            dir = iscsi.SCSI_XFER_WRITE\n            xferlen = len(cmd.dataout)",
      "        if len(cmd.dataout):\n            dir = iscsi.SCSI_XFER_WRITE\n            xferlen = len(cmd.dataout)\n        if len(cmd.datain):\n            dir = iscsi.SCSI_XFER_READ\n            xferlen = len(cmd.datain)",
      rule="transport-passes-buffers"),
    V("c03-iscsi-xferlen", ["C03"], "pyscsi/pyiscsi/iscsi_device.py", "xferlen = len(cmd.dataout)", "xferlen = len(cmd.datain)"),
    V("c03-base-init-swapped", ["C03"], P + "scsi_command.py",
      "        self.dataout = bytearray(dataout_alloclen)\n        self.datain = bytearray(datain_alloclen)",
      "        self.dataout = bytearray(datain_alloclen)\n        self.datain = bytearray(dataout_alloclen)"),
    V("c03-write10-copy", ["C03"], P + "scsi_cdb_write10.py", "self.dataout = data\n", "self.dataout = bytearray(blocksize)\n"),
    V("c03-writesame16-none", ["C03"], P + "scsi_cdb_writesame16.py", "        if not ndob:\n            self.dataout = data",
      "        self.dataout = None if ndob else data", rule="buffer-is-bytes"),
    V("c03-readcd-small", ["C03"], P + "scsi_cdb_readcd.py", "tl * 3072", "tl * 2048"),
    V("c03-twin-hoist", ["C03", "C01"], P + "scsi_cdb_read16.py", "        SCSICommand.__init__(self, opcode, 0, blocksize * tl)",
      "        n = tl * blocksize\n        SCSICommand.__init__(self, opcode, 0, n)", expect="silent"),
    # ---- C13 ----------------------------------------------------------
    V("c13-execute-twice", ["C13"], P + "scsi.py",
      "        cmd = Read16(opcode, self.blocksize, lba, tl, **kwargs)\n        self.execute(cmd)",
      "        cmd = Read16(opcode, self.blocksize, lba, tl, **kwargs)\n        self.execute(cmd)\n        self.execute(cmd)",
      rule="exactly-one-execute"),
    V("c13-unmarshall-before-execute", ["C13", "C07"], P + "scsi.py",
      "        cmd = ReportLuns(opcode=opcode, **kwargs)\n        self.execute(cmd)\n        cmd.unmarshall()",
      "        cmd = ReportLuns(opcode=opcode, **kwargs)\n        cmd.unmarshall()\n        self.execute(cmd)",
      expect_by={"C07": "silent"}),
    V("c13-return-fresh-object", ["C13"], P + "scsi.py",
      "        cmd = TestUnitReady(opcode)\n        self.execute(cmd)\n        return cmd",
      "        cmd = TestUnitReady(opcode)\n        self.execute(cmd)\n        return TestUnitReady(opcode)", rule="executes-returned-command"),
    V("c13-swap-lba-tl", ["C13"], P + "scsi.py", "cmd = Write12(opcode, self.blocksize, lba, tl, data, **kwargs)",
      "cmd = Write12(opcode, self.blocksize, tl, lba, data, **kwargs)", rule="argument-reaches-cdb"),
    V("c13-wrong-opcode-name", ["C13"], P + "scsi.py", "opcode = self.device.opcodes.READ_10", "opcode = self.device.opcodes.READ_12",
      rule="argument-reaches-cdb"),
    V("c13-wrong-sa-opcode", ["C13"], P + "scsi.py",
      '        opcode = next(get_opcode(self.device.opcodes, "9E"))\n        cmd = GetLBAStatus',
      '        opcode = next(get_opcode(self.device.opcodes, "A3"))\n        cmd = GetLBAStatus'),
    V("c13-get-opcode-suffix", ["C13"], U + "converter.py", "if val[len(val) - 2 :] == part:", "if val[len(val) - 3 :] == part:"),
    V("c13-drop-kwargs", ["C13"], P + "scsi.py", "cmd = MoveMedium(opcode, xfer, source, dest, **kwargs)",
      "cmd = MoveMedium(opcode, xfer, source, dest)", rule="argument-reaches-cdb"),
    V("c13-decode-copy", ["C13"], P + "scsi_command.py", "self.result = self.unmarshall_datain(self.datain, **kwargs)",
      "self.result = self.unmarshall_datain(bytearray(self.datain), **kwargs)"),
    V("c13-blocksize-literal", ["C13", "C03"], P + "scsi.py", "cmd = Read10(opcode, self.blocksize, lba, tl, **kwargs)",
      "cmd = Read10(opcode, 512, lba, tl, **kwargs)", rule="facade-blocksize-sizes-buffer", expect_by={"C03": "silent"}),
    V("c13-hidden-kwarg", ["C13"], P + "scsi_cdb_readcd.py", 'est = kwargs.get("est", 0)', 'est = kwargs["est"]',
      rule="optional-argument-stays-optional"),
    V("c13-doc-keyword", ["C13"], P + "scsi.py", "alloclen = 8, size of requested datain", "alloc_len = 8, size of requested datain",
      rule="documented-keyword-accepted"),
    V("c13-inquiry-evpd-dropped", ["C13"], P + "scsi.py", "cmd.unmarshall(evpd=evpd)", "cmd.unmarshall()", rule="decodes-response"),
    V("c13-twin-rename-local", ["C13", "C07"], P + "scsi.py",
      "        cmd = TestUnitReady(opcode)\n        self.execute(cmd)\n        return cmd",
      "        command = TestUnitReady(opcode)\n        self.execute(command)\n        return command", expect="silent"),
    # ---- C07 ----------------------------------------------------------
    V("c07-sgio-raise-deleted", ["C07"], P + "scsi_device.py", "                raise self.CheckCondition(error.sense)",
      "                self.CheckCondition(error.sense)", rule="exception-constructed-not-raised"),
    V("c07-sgio-swallow", ["C07"], P + "scsi_device.py", "                raise self.CheckCondition(error.sense)", "                pass",
      rule="check-condition-raises"),
    V("c07-sgio-rawsense-always", ["C07"], P + "scsi_device.py",
      "            if en_raw_sense:\n                cmd.raw_sense_data = error.sense\n            else:\n                raise",
      "            cmd.raw_sense_data = error.sense\n            if not en_raw_sense:\n                raise", rule="raw-sense-only-on-request"),
    V("c07-iscsi-busy-good", ["C07"], "pyscsi/pyiscsi/iscsi_device.py",
      "        if task.status == scsi_enum_command.SCSI_STATUS.BUSY:\n            raise self.BusyStatus()",
      "        if task.status == scsi_enum_command.SCSI_STATUS.BUSY:\n            return", rule="status-dispatch"),
    V("c07-iscsi-busy-taskfull", ["C07"], "pyscsi/pyiscsi/iscsi_device.py",
      "        if task.status == scsi_enum_command.SCSI_STATUS.BUSY:\n            raise self.BusyStatus()",
      "        if task.status == scsi_enum_command.SCSI_STATUS.BUSY:\n            raise self.TaskSetFull()", rule="status-dispatch"),
    V("c07-iscsi-fallthrough-return", ["C07"], "pyscsi/pyiscsi/iscsi_device.py", "        raise RuntimeError\n", "        return\n",
      rule="unknown-status-raises"),
    V("c07-iscsi-cc-no-raise", ["C07"], "pyscsi/pyiscsi/iscsi_device.py", "            raise self.CheckCondition(cmd.sense)",
      "            self.CheckCondition(cmd.sense)"),
    V("c07-iscsi-good-neq", ["C07"], "pyscsi/pyiscsi/iscsi_device.py",
      "        if task.status == scsi_enum_command.SCSI_STATUS.GOOD:\n            return",
      "        if task.status != scsi_enum_command.SCSI_STATUS.CHECK_CONDITION:\n            return"),
    V("c07-facade-try-pass", ["C07"], P + "scsi.py",
      "        cmd = Inquiry(opcode, evpd=evpd, page_code=page_code, alloclen=alloclen)\n        self.execute(cmd)",
      "        cmd = Inquiry(opcode, evpd=evpd, page_code=page_code, alloclen=alloclen)\n        try:\n            self.execute(cmd)\n        except Exception:\n            pass"),
    V("c07-facade-execute-swallow", ["C07"], P + "scsi.py", "        except Exception as e:\n            raise e",
      "        except Exception as e:\n            pass"),
    V("c07-status-enum-swap", ["C07", "C14"], P + "scsi_enum_command.py", '"TASK_SET_FULL": 0x28,\n    "ACA_ACTIVE": 0x30,',
      '"TASK_SET_FULL": 0x30,\n    "ACA_ACTIVE": 0x28,'),
    V("c07-twin-reorder-status-ifs", ["C07"], "pyscsi/pyiscsi/iscsi_device.py",
      "        if task.status == scsi_enum_command.SCSI_STATUS.TASK_ABORTED:\n            raise self.TaskAborted()\n        if task.status == scsi_enum_command.SCSI_STATUS.BUSY:\n            raise self.BusyStatus()",
      "        if task.status == scsi_enum_command.SCSI_STATUS.BUSY:\n            raise self.BusyStatus()\n        if task.status == scsi_enum_command.SCSI_STATUS.TASK_ABORTED:\n            raise self.TaskAborted()",
      expect="silent"),
    V("c07-twin-bare-raise", ["C07"], P + "scsi.py", "        except Exception as e:\n            raise e",
      "        except Exception:\n            raise", expect="silent"),
    # ---- C16 ----------------------------------------------------------
    V("c16-mmc-to-ssc", ["C16"], P + "scsi.py", "elif self.device.devicetype in (0x01, 0x02, 0x09):  # ssc",
      "elif self.device.devicetype in (0x01, 0x02, 0x05, 0x09):  # ssc", rule="device-type-selects-set"),
    V("c16-worm-dropped", ["C16"], P + "scsi.py", "                0x04,\n                0x07,\n            ):  # sbc",
      "                0x07,\n            ):  # sbc", rule="device-type-selects-set"),
    V("c16-table-on-self", ["C16"], P + "scsi.py", "            elif self.device.devicetype in (0x08,):  # smc\n                self.device.opcodes = smc",
      "            elif self.device.devicetype in (0x08,):  # smc\n                self.opcodes = smc"),
    V("c16-call-no-init-opcode", ["C16"], P + "scsi.py", "        self.device = dev\n        self.__init_opcode()\n\n    def __enter__",
      "        self.device = dev\n\n    def __enter__"),
    V("c16-qualifier-in-type", ["C16", "C04"], P + "scsi_cdb_inquiry.py", '"peripheral_device_type": [0x1F, 0]', '"peripheral_device_type": [0x3F, 0]'),
    V("c16-device-default-sbc", ["C16"], P + "scsi_device.py", "self._opcodes = scsi_enum_command.spc", "self._opcodes = scsi_enum_command.sbc",
      rule="device-default-set"),
    V("c16-inquiry-twice", ["C16"], P + "scsi.py", "            self.device.devicetype = self.inquiry().result",
      "            self.inquiry()\n            self.device.devicetype = self.inquiry().result", rule="one-standard-inquiry"),
    V("c16-vpd-inquiry", ["C16"], P + "scsi.py", 'self.inquiry().result["peripheral_device_type"]', 'self.inquiry(evpd=1).result["peripheral_device_type"]'),
    V("c16-smc-lacks-report-luns", ["C16"], P + "scsi_enum_command.py",
      '    "REPORT_LUNS": OpCode("REPORT_LUNS", 0xA0, {}),\n    "REPORT_VOLUME_TYPES_SUPPORTED"',
      '    "REPORT_VOLUME_TYPES_SUPPORTED"', rule="primary-commands-everywhere"),
    V("c16-twin-sets", ["C16"], P + "scsi.py", "elif self.device.devicetype in (0x03,):  # spc", "elif self.device.devicetype in {0x03}:  # spc",
      expect="silent"),
    V("c16-twin-eq", ["C16"], P + "scsi.py", "elif self.device.devicetype in (0x05,):  # mmc", "elif self.device.devicetype == 0x05:  # mmc",
      expect="silent"),
    # ---- C15 ----------------------------------------------------------
    V("c15-finally-to-else", ["C15"], P + "scsi_device.py", "            try:\n                self.close()\n            finally:\n                self.open()",
      "            try:\n                self.close()\n            except OSError:\n                pass\n            else:\n                self.open()",
      rule="fresh-handle-opened"),
    V("c15-hoisted-handle", ["C15"], P + "scsi_device.py",
      "        if self._detect_replugged and self._is_replugged():",
      "        f = self._file\n        if self._detect_replugged and self._is_replugged():", expect="silent",
      note="an unused alias is harmless; the firing twin below uses it"),
    V("c15-hoisted-handle-used", ["C15", "C03", "C13"], P + "scsi_device.py",
      "        if self._detect_replugged and self._is_replugged():\n            try:\n                self.close()\n            finally:\n                self.open()\n\n        try:\n            # TODO: If exist the corner case that sense cannot be raised by error.sense?\n            # will not set return_sense_data=True until i test most of the ata command set.\n            sgio.execute(self._file,",
      "        f = self._file\n        if self._detect_replugged and self._is_replugged():\n            try:\n                self.close()\n            finally:\n                self.open()\n\n        try:\n            # TODO: If exist the corner case that sense cannot be raised by error.sense?\n            # will not set return_sense_data=True until i test most of the ata command set.\n            sgio.execute(f,",
      rule="no-stale-handle", expect_by={"C03": "silent", "C13": "silent"}),
    V("c15-drop-ino", ["C15"], P + "scsi_device.py", "        self._ino = get_inode(self._file_name)\n\n    def close", "        pass\n\n    def close"),
    V("c15-exit-returns-true", ["C15"], P + "scsi_device.py", "        self.close()\n\n    def __repr__", "        self.close()\n        return True\n\n    def __repr__",
      rule="exit-does-not-suppress"),
    V("c15-guard-or", ["C15"], P + "scsi_device.py", "if self._detect_replugged and self._is_replugged():", "if self._detect_replugged or self._is_replugged():",
      rule="detection-off-keeps-handle"),
    V("c15-swallow-stat-error", ["C15"], P + "scsi_device.py", "        ino = get_inode(self._file_name)\n        return ino != self._ino",
      "        try:\n            ino = get_inode(self._file_name)\n        except OSError:\n            return False\n        return ino != self._ino",
      rule="vanished-node-is-an-error"),
    V("c15-no-close-on-replug", ["C15"], P + "scsi_device.py", "            try:\n                self.close()\n            finally:\n                self.open()",
      "            self.open()", rule="stale-handle-closed"),
    V("c15-close-twice", ["C15"], P + "scsi_device.py", "    def close(self):\n        self._file.close()", "    def close(self):\n        self._file.close()\n        self._file.close()",
      rule="handle-released-once"),
    V("c15-facade-exit-noop", ["C15"], P + "scsi.py", "    def __exit__(self, exc_type, exc_val, exc_tb):\n        self.device.close()",
      "    def __exit__(self, exc_type, exc_val, exc_tb):\n        pass", rule="handle-released-once"),
    V("c15-iscsi-close-noop", ["C15"], "pyscsi/pyiscsi/iscsi_device.py", "    def close(self):\n        self._iscsi.disconnect()",
      "    def close(self):\n        pass", rule="handle-released-once"),
    V("c15-open-always-rb", ["C15"], P + "scsi_device.py", '"w+b" if self._read_write else "rb"', '"rb" if self._read_write else "rb"', rule="open-bookkeeping"),
    V("c15-inode-compare-inverted", ["C15"], P + "scsi_device.py", "return ino != self._ino", "return ino == self._ino", rule="replug-test-compares-inode"),
    V("c15-twin-inline-replug", ["C15"], P + "scsi_device.py", "if self._detect_replugged and self._is_replugged():",
      "if self._detect_replugged and get_inode(self._file_name) != self._ino:", expect="silent"),
    # ---- C17 ----------------------------------------------------------
    V("c17-read16-guard-deleted", ["C17"], P + "scsi_cdb_read16.py", "        if blocksize == 0:\n            raise SCSICommand.MissingBlocksizeException\n", "",
      rule="blocksize-refusal"),
    V("c17-write12-guard-late", ["C17"], P + "scsi_cdb_write12.py",
      "        if blocksize == 0:\n            raise SCSICommand.MissingBlocksizeException\n\n        SCSICommand.__init__(self, opcode, blocksize * tl, 0)",
      "        SCSICommand.__init__(self, opcode, blocksize * tl, 0)\n        if blocksize == 0:\n            raise SCSICommand.MissingBlocksizeException\n",
      rule="refusal-before-initialisation"),
    V("c17-ws16-guard-inverted", ["C17"], P + "scsi_cdb_writesame16.py", "if not ndob and blocksize == 0:", "if ndob and blocksize == 0:"),
    V("c17-ata16-guard-wrong-exc", ["C17"], P + "scsi_cdb_atapassthrough16.py",
      "                raise SCSICommand.MissingBlocksizeException  # pylint: disable=maybe-no-member", "                raise ValueError('blocksize')"),
    V("c17-ata12-guard-dropped", ["C17"], P + "scsi_cdb_atapassthrough12.py",
      "            if blocksize == 0:\n                raise SCSICommand.MissingBlocksizeException  # pylint: disable=maybe-no-member",
      "            pass"),
    V("c17-prin-else-default", ["C17"], P + "scsi.py", '        else:\n            raise ValueError("Invalid Service Action")',
      '        else:\n            cmd = PersistentReserveInReadKeys(opcode=opcode, **kwargs)', rule="unknown-service-action-refused"),
    V("c17-xcopy4-key-check-dropped", ["C17"], P + "scsi_cdb_extended_copy_spc4.py",
      "        if not provided_keys.issubset(valid_keys):\n            for key in provided_keys:\n                raise ValueError(\n                    \"Invalid key supplied: %s (should be one of %s)\" % (key, valid_keys)\n                )\n\n        # Now check some values",
      "        # Now check some values", rule="xcopy-descriptor-refused"),
    V("c17-xcopy5-getcode-returns", ["C17"], P + "scsi_cdb_extended_copy_spc5.py",
      '        # Could not find value!\n        raise ValueError("Invalid %s provided: %s" % (key, value))',
      '        # Could not find value!\n        return 0', rule="xcopy-descriptor-refused"),
    V("c17-xcopy4-lu-id-accepted", ["C17"], P + "scsi_cdb_extended_copy_spc4.py",
      '        if lu_id_type != 0:\n            raise ValueError("Invalid lu_id_type provided: %d" % lu_id_type)', '        pass'),
    V("c17-tid-check-dropped", ["C17"], P + "scsi_cdb_persistentreservein.py",
      '            if data.get("tpid_format") and not data.get("iscsi_initiator_session_id"):\n                raise ValueError("Must specify iscsi_initiator_session_id")\n',
      "", rule="inconsistent-transport-id-refused"),
    V("c17-tid-check2-dropped", ["C17"], P + "scsi_cdb_persistentreservein.py",
      '                if not data.get("tpid_format"):\n                    raise ValueError("Must specify tpid_format=1")\n', ""),
    V("c17-init-cdb-accepts-vendor", ["C17", "C14"], P + "scsi_command.py", "        else:\n            raise SCSICommand.OpcodeException\n        return cdb",
      "        else:\n            cdb = bytearray(16)\n        return cdb", rule="opcode-refusal"),
    V("c17-twin-not-blocksize", ["C17", "C01"], P + "scsi_cdb_read10.py", "if blocksize == 0:", "if not blocksize:", expect="silent"),
    # ---- C19 ----------------------------------------------------------
    V("c19-toplevel-sgio-in-scsi", ["C19"], P + "scsi.py", "from pyscsi.utils.converter import get_opcode", "from pyscsi.utils.converter import get_opcode\nimport sgio",
      rule="binding-import-guarded"),
    V("c19-except-removed", ["C19"], "pyscsi/pyiscsi/iscsi_device.py", "try:\n    import iscsi\n\n    _has_iscsi = True\nexcept ImportError as e:\n    _has_iscsi = False",
      "import iscsi\n\n_has_iscsi = True", rule="binding-import-guarded"),
    V("c19-except-wrong-type", ["C19"], P + "scsi_device.py", "except ImportError as e:\n    _has_sgio = False", "except ValueError as e:\n    _has_sgio = False"),
    V("c19-flag-always-true", ["C19"], P + "scsi_device.py", "except ImportError as e:\n    _has_sgio = False", "except ImportError as e:\n    _has_sgio = True",
      rule="presence-flag"),
    V("c19-guard-or", ["C19"], P + "scsi_device.py", 'if _has_sgio and device[:5] == "/dev/":', 'if _has_sgio or device[:5] == "/dev/":'),
    V("c19-open-above-guard", ["C19"], P + "scsi_device.py",
      '        if _has_sgio and device[:5] == "/dev/":\n            self.open()',
      '        self.open()\n        if _has_sgio and device[:5] == "/dev/":\n            pass', rule="refused-before-open"),
    V("c19-prefixes-swapped", ["C19"], U + "__init__.py", 'if dev[:5] == "/dev/":', 'if dev[:8] == "iscsi://":', count=1),
    V("c19-initdevice-else-none", ["C19"], U + "__init__.py", '        raise NotImplementedError("No backend implemented for %s" % dev)', "        device = None"),
    V("c19-initdevice-drops-rw", ["C19", "C15"], U + "__init__.py", "device = SCSIDevice(dev, read_write)", "device = SCSIDevice(dev)", expect_by={"C15": "silent"}),
    V("c19-initdevice-modifies-path", ["C19"], U + "__init__.py", "device = SCSIDevice(dev, read_write)", "device = SCSIDevice(dev.lower(), read_write)",
      rule="supported-device-opened"),
    V("c19-iscsi-url-other", ["C19"], "pyscsi/pyiscsi/iscsi_device.py", "iscsi.URL(self._iscsi, self._file_name)", "iscsi.URL(self._iscsi, device[8:])"),
    V("c19-third-party-import", ["C19"], U + "converter.py", "from typing import Mapping, Sequence, Tuple, Union", "from typing import Mapping, Sequence, Tuple, Union\nimport numpy",
      rule="import-is-local-or-stdlib"),
    V("c19-broken-import-name", ["C19"], P + "scsi_cdb_read10.py", "from pyscsi.pyscsi.scsi_command import SCSICommand", "from pyscsi.pyscsi.scsi_commands import SCSICommand",
      allow_error=True),
    V("c19-twin-startswith", ["C19"], U + "__init__.py", 'if dev[:5] == "/dev/":', 'if dev.startswith("/dev/"):', expect="silent"),
    # ---- C18 ----------------------------------------------------------
    V("c18-keys-old-filter", ["C18"], U + "enum.py", 'key for key in vars(cls).keys() if not key.startswith("__")',
      'key for key, val in vars(cls).items() if not callable(val) and not key.startswith("__")', rule="keys-are-supplied-names"),
    V("c18-keys-no-filter", ["C18", "C13"], U + "enum.py", 'key for key in vars(cls).keys() if not key.startswith("__")', 'key for key in vars(cls).keys()',
      rule="keys-are-supplied-names", expect_by={"C13": "silent"}),
    V("c18-add-guard-removed", ["C18"], U + "enum.py", '        if key in cls.keys:\n            raise KeyError(f"key {key} already exist")\n', "", rule="add-contract"),
    V("c18-setattr-on-metaclass", ["C18"], U + "enum.py", "        setattr(cls, key, value)", "        setattr(Enum, key, value)"),
    V("c18-remove-swallows", ["C18"], U + "enum.py", '            raise KeyError(f"Key {ex} not found") from ex', "            pass", rule="remove-contract"),
    V("c18-getitem-last-match", ["C18"], U + "enum.py", "        for key in cls.keys:\n            if getattr(cls, key) == value:\n                return key\n        return \"\"",
      "        found = \"\"\n        for key in cls.keys:\n            if getattr(cls, key) == value:\n                found = key\n        return found", rule="reverse-lookup-first-match"),
    V("c18-getitem-none", ["C18"], U + "enum.py", '                return key\n        return ""', '                return key\n        return None'),
    V("c18-new-kwargs-first", ["C18"], U + "enum.py", '        if len(args) == 1 and type(args[0]).__name__ == "dict":\n            tmp.update(args[0])\n        elif kwargs:',
      '        if len(args) >= 1 and type(args[0]).__name__ == "dict":\n            tmp.update(args[0])\n        elif kwargs:', rule="constructor-refuses-unsupported"),
    V("c18-shared-namespace", ["C18"], U + "enum.py", "        tmp: Dict[str, Any] = {}", "        tmp: Dict[str, Any] = _SHARED", expect="fire",
      more=[(U + "enum.py", "class Enum(type):", "_SHARED: Dict[str, Any] = {}\n\n\nclass Enum(type):")]),
    V("c18-twin-hasattr", ["C18"], U + "enum.py", "        if key in cls.keys:", "        if key in list(cls.keys):", expect="silent"),
    # ---- C04 ----------------------------------------------------------
    V("c04-getlba-window", ["C04", "C06"], P + "scsi_cdb_getlbastatus.py", "_data = data[8 : scsi_ba_to_int(data[:4]) + 4]",
      "_data = data[8 : scsi_ba_to_int(data[:4]) + 8]", rule="response-structure", expect_by={"C06": "silent"}),
    V("c04-getlba-stride", ["C04", "C11"], P + "scsi_cdb_getlbastatus.py", "            _data = _data[16:]", "            _data = _data[12:]",
      rule="response-structure", expect_by={"C11": "silent"}),
    V("c04-vpd-arms-swapped", ["C04"], P + "scsi_cdb_inquiry.py",
      "        if result[\"page_code\"] == cls.VPD.BLOCK_LIMITS:\n            convert.decode_bits(data, cls._block_limits_bits, result)",
      "        if result[\"page_code\"] == cls.VPD.BLOCK_DEVICE_CHARACTERISTICS:\n            convert.decode_bits(data, cls._block_limits_bits, result)",
      rule="response-structure"),
    V("c04-rtpg-status-code-moved", ["C04"], P + "scsi_cdb_report_target_port_groups.py", '"status_code": [0xFF, 5]', '"status_code": [0xFF, 4]',
      rule="table-field-position"),
    V("c04-std-inquiry-off-by-one", ["C04"], P + "scsi_cdb_inquiry.py", "            convert.decode_bits(data, cls._standard_bits, result)\n            return result",
      "            convert.decode_bits(data[1:], cls._standard_bits, result)\n            return result", rule="response-structure"),
    V("c04-vpd-length-field", ["C04"], P + "scsi_cdb_inquiry.py", "data = data[: 4 + convert.scsi_ba_to_int(data[2:4])]",
      "data = data[: 4 + convert.scsi_ba_to_int(data[3:4])]", rule="response-structure"),
    V("c04-res-page-bytecount", ["C04"], P + "scsi_cdb_readelementstatus.py", "            _d = data[8 : 8 + _bc]", "            _d = data[8 : 4 + _bc]",
      rule="response-structure"),
    V("c04-prin-keys-from", ["C04"], P + "scsi_cdb_persistentreservein.py", "        data = data[8 : additional_length + 8]\n        keys = []",
      "        data = data[4 : additional_length + 8]\n        keys = []", rule="response-structure"),
    V("c04-fullstatus-tid-offset", ["C04"], P + "scsi_cdb_persistentreservein.py",
      "            data = data[24:]\n            additional_desc_length", "            data = data[20:]\n            additional_desc_length"),
    V("c04-rc16-lbppbe-mask", ["C04"], P + "scsi_cdb_readcapacity16.py", '"lbppbe": [0x0F, 13]', '"lbppbe": [0x07, 13]', rule="table-field-position"),
    V("c04-modesense10-bdl", ["C04"], P + "scsi_cdb_modesense10.py", "_bdl = scsi_ba_to_int(data[6:8])", "_bdl = scsi_ba_to_int(data[7:8])"),
    V("c04-modesense6-control-code", ["C04"], P + "scsi_cdb_modesense6.py",
      '        if _r["page_code"] == cls.PAGE_CODE.CONTROL:\n            if "sub_page_code" not in _r:\n                decode_bits(data, cls.MODESENSE6.control_bits, _r)',
      '        if _r["page_code"] == cls.PAGE_CODE.CONTROL:\n            if "sub_page_code" not in _r:\n                decode_bits(data, cls.MODESENSE6.disconnect_reconnect_bits, _r)'),
    V("c04-rdi-type-shift", ["C04"], P + "scsi_cdb_readdiscinformation.py",
      "        if data[2] >> 5 == cls.DISC_INFORMATION_DATA_TYPE.TRACK_RESOURCES_INFORMATION:", "        if data[2] >> 4 == cls.DISC_INFORMATION_DATA_TYPE.TRACK_RESOURCES_INFORMATION:"),
    V("c04-designator-naa-swapped", ["C04"], P + "scsi_cdb_inquiry.py",
      '            if _d["naa"] == cls.NAA.LOCALLY_ASSIGNED:\n                convert.decode_bits(data, cls._naa_locally_assigned_bits, _d)',
      '            if _d["naa"] == cls.NAA.LOCALLY_ASSIGNED:\n                convert.decode_bits(data, cls._naa_ieee_registered_bits, _d)'),
    V("c04-decoder-undefined-name", ["C04"], P + "scsi_cdb_report_luns.py", "            decode_bits(_data[:8], cls._datain_bits, _r)",
      "            decode_bits(_data[:8], cls._data_bits, _r)", rule="decoder-does-not-crash"),
    V("c04-twin-window-locals", ["C04", "C11"], P + "scsi_cdb_getlbastatus.py", "_data = data[8 : scsi_ba_to_int(data[:4]) + 4]",
      "n = scsi_ba_to_int(data[:4])\n        end = n + 4\n        _data = data[8:end]", expect="silent"),
    V("c04-twin-two-slices", ["C04", "C11"], P + "scsi_cdb_report_luns.py", "_data = data[8 : scsi_ba_to_int(data[:4]) + 8]",
      "_data = data[: scsi_ba_to_int(data[:4]) + 8]\n        _data = _data[8:]", expect="silent"),
    V("c04-twin-vpd-arms-reordered", ["C04"], P + "scsi_cdb_inquiry.py",
      "        if result[\"page_code\"] == cls.VPD.BLOCK_LIMITS:\n            convert.decode_bits(data, cls._block_limits_bits, result)\n            return result\n\n        if result[\"page_code\"] == cls.VPD.BLOCK_DEVICE_CHARACTERISTICS:\n            convert.decode_bits(data, cls._block_dev_char_bits, result)\n            return result\n",
      "        if result[\"page_code\"] == cls.VPD.BLOCK_DEVICE_CHARACTERISTICS:\n            convert.decode_bits(data, cls._block_dev_char_bits, result)\n            return result\n\n        if result[\"page_code\"] == cls.VPD.BLOCK_LIMITS:\n            convert.decode_bits(data, cls._block_limits_bits, result)\n            return result\n",
      expect="silent"),
    # ---- C11 ----------------------------------------------------------
    V("c11-inquiry-desc-stride", ["C11", "C04"], P + "scsi_cdb_inquiry.py", "                _bc = data[3] + 4\n", "                _bc = data[3]\n",
      rule="loop-has-variant"),
    V("c11-continue-before-slice", ["C11"], P + "scsi_cdb_report_luns.py",
      "            _r = {}\n            decode_bits(_data[:8], cls._datain_bits, _r)\n",
      "            _r = {}\n            if _data[0] == 0xFF:\n                continue\n            decode_bits(_data[:8], cls._datain_bits, _r)\n",
      rule="loop-has-variant"),
    V("c11-prin-keys-zero-slice", ["C11", "C04"], P + "scsi_cdb_persistentreservein.py", "            key = scsi_ba_to_int(data[:8])\n            data = data[8:]",
      "            key = scsi_ba_to_int(data[:8])\n            data = data[0:]", rule="loop-has-variant"),
    V("c11-res-zero-edl", ["C11"], P + "scsi_cdb_readelementstatus.py",
      "            if len(_d) and not _edl:\n                raise ValueError(\"element descriptor length of zero with descriptors present\")\n", "",
      rule="loop-has-variant"),
    V("c11-fullstatus-stride-from-device", ["C11", "C04"], P + "scsi_cdb_persistentreservein.py",
      "            decode_bits(data, cls._full_status_desc_bits, _status_desc)\n            data = data[24:]",
      "            decode_bits(data, cls._full_status_desc_bits, _status_desc)\n            data = data[_status_desc[\"additional_desc_length\"] :]"),
    V("c11-zero-mask-in-response-table", ["C11", "C04"], P + "scsi_cdb_readcapacity16.py", '"prot_en": [0x01, 12]', '"prot_en": [0x00, 12]',
      rule="static-mask-terminates"),
    V("c11-range-from-device", ["C11"], P + "scsi_cdb_report_target_port_groups.py",
      "            while len(_data) and len(_tp_descriptors) < _tpgd[\"target_port_count\"]:\n                _tpd = {}  # Target Port Desxcriptor\n                _tpd[\"relative_target_port_id\"] = scsi_ba_to_int(_data[2:4])\n                _tp_descriptors.append(_tpd)\n                _data = _data[4:]",
      "            for _i in range(scsi_ba_to_int(_data[0:4])):\n                _tpd = {}  # Target Port Desxcriptor\n                _tpd[\"relative_target_port_id\"] = scsi_ba_to_int(_data[2:4])\n                _tp_descriptors.append(_tpd)\n                _data = _data[4:]",
      rule="no-iteration-count-from-content", allow_error=True),
    V("c11-alloc-from-device", ["C11"], P + "scsi_cdb_getlbastatus.py", "        _lbas = []\n", "        _lbas = []\n        _scratch = bytearray(scsi_ba_to_int(data[:4]))\n",
      rule="no-allocation-sized-by-content"),
    V("c11-twin-stride-local", ["C11", "C04"], P + "scsi_cdb_getlbastatus.py", "            _data = _data[16:]", "            n = 16\n            _data = _data[n:]",
      expect="silent"),
    V("c11-twin-guarded-stride", ["C11"], P + "scsi_cdb_readelementstatus.py",
      "            if len(_d) and not _edl:\n                raise ValueError(\"element descriptor length of zero with descriptors present\")\n",
      "            if len(_d) and _edl == 0:\n                raise ValueError(\"element descriptor length of zero with descriptors present\")\n", expect="silent"),
    # ---- C08 ----------------------------------------------------------
    V("c08-deferred-fixed-dropped", ["C08"], P + "scsi_sense.py", "            SENSE_FORMAT_CURRENT_FIXED,\n            SENSE_FORMAT_DEFERRED_FIXED,\n        ):",
      "            SENSE_FORMAT_CURRENT_FIXED,\n        ):", rule="reported-codes-at-spc-positions"),
    V("c08-asc-subscript", ["C08"], P + "scsi_sense.py", 'self.asc = self.data.get("additional_sense_code", 0)', 'self.asc = self.data["additional_sense_code"]',
      rule="sense-error-constructible-and-printable"),
    V("c08-ascq-lookup-subscript", ["C08"], P + "scsi_sense.py", 'return sense_ascq_dict.get(self._ascq(), "Unknown ASC/ASCQ")', "return sense_ascq_dict[self._ascq()]",
      rule="dictionary-lookup-total"),
    V("c08-sense-key-subscript", ["C08"], P + "scsi_sense.py", 'sense_key_dict.get(sense_key, "Reserved")', "sense_key_dict[sense_key]", rule="dictionary-lookup-total"),
    V("c08-fixed-key-position", ["C08", "C04"], P + "scsi_sense.py", '        "sense_key": [0x0F, 2],\n        "information"', '        "sense_key": [0x0F, 1],\n        "information"'),
    V("c08-desc-asc-position", ["C08"], P + "scsi_sense.py", '        "additional_sense_code": [0xFF, 2],\n        "additional_sense_code_qualifier": [0xFF, 3],',
      '        "additional_sense_code": [0xFF, 3],\n        "additional_sense_code_qualifier": [0xFF, 2],'),
    V("c08-asc-ascq-swapped-in-init", ["C08"], P + "scsi_sense.py",
      'self.asc = self.data.get("additional_sense_code", 0)\n        self.ascq = self.data.get("additional_sense_code_qualifier", 0)',
      'self.ascq = self.data.get("additional_sense_code", 0)\n        self.asc = self.data.get("additional_sense_code_qualifier", 0)',
      rule="reported-codes-at-spc-positions"),
    V("c08-ascq-shift", ["C08"], P + "scsi_sense.py", "return (self.asc << 8) + self.ascq", "return (self.asc << 4) + self.ascq", rule="reported-codes-at-spc-positions"),
    V("c08-format-kind", ["C08"], P + "scsi_sense.py", '            sense_key_dict.get(sense_key, "Reserved"),\n            sense_key,',
      '            sense_key,\n            sense_key_dict.get(sense_key, "Reserved"),', rule="format-arguments-fit"),
    V("c08-duplicate-key", ["C08"], P + "scsi_sense.py", '    0x0002: "END-OF-PARTITION/MEDIUM DETECTED",', '    0x0001: "END-OF-PARTITION/MEDIUM DETECTED",',
      rule="no-duplicate-keys"),
    V("c08-response-code-mask", ["C08"], P + "scsi_sense.py", "self.response_code = sense[0] & 0x7F", "self.response_code = sense[0] & 0xFF"),
    V("c08-twin-tuple-to-list", ["C08"], P + "scsi_sense.py", "        if self.response_code in (\n            SENSE_FORMAT_CURRENT_FIXED,\n            SENSE_FORMAT_DEFERRED_FIXED,\n        ):",
      "        if self.response_code in [SENSE_FORMAT_CURRENT_FIXED, SENSE_FORMAT_DEFERRED_FIXED]:", expect="silent"),
    # ---- C06 ----------------------------------------------------------
    V("c06-rtpg-key-renamed", ["C06"], P + "scsi_cdb_report_target_port_groups.py", '            _tpgd["target_ports"] = _tp_descriptors', '            _tpgd["ports"] = _tp_descriptors'),
    V("c06-vpd-b3-encode-dropped", ["C06"], P + "scsi_cdb_inquiry.py", "            result += bytearray(12)\n            convert.encode_dict(data, cls._referrals_bits, result)",
      "            result += bytearray(12)", rule="parse-after-build"),
    V("c06-getlba-writer-len", ["C06"], P + "scsi_cdb_getlbastatus.py",
      "            result += _r\n\n        result[:4] = scsi_int_to_ba(len(result) - 4, 4)", "            result += _r\n\n        result[:4] = scsi_int_to_ba(len(result) - 8, 4)"),
    V("c06-designator-arm-none", ["C06"], P + "scsi_cdb_inquiry.py", '            return data["md5_logical_identifier"]', "            return None"),
    V("c06-transportid-sas-offset", ["C06"], P + "scsi_cdb_persistentreservein.py", '            result[4:12] = data["sas_address"][:8]', '            result[8:16] = data["sas_address"][:8]'),
    V("c06-iscsi-pad", ["C06", "C05"], P + "scsi_cdb_persistentreservein.py", "        return _l + (4 - _rem)", "        return _l + _rem"),
    V("c06-modesense10-page-len", ["C06"], P + "scsi_cdb_modesense10.py", "                _d[2:4] = scsi_int_to_ba(len(_mpd), 2)", "                _d[1:3] = scsi_int_to_ba(len(_mpd), 2)"),
    V("c06-res-descriptor-size", ["C06"], P + "scsi_cdb_readelementstatus.py", "            _edl = 12 + 4\n", "            _edl = 12\n"),
    V("c06-reportluns-values-dropped", ["C06"], P + "scsi_cdb_report_luns.py", 'encode_dict({"lun": l["lun%s" % _count]}, cls._datain_bits, _r)', "encode_dict(l, cls._datain_bits, _r)",
      rule="parse-after-build"),
    V("c06-eui64-order", ["C06"], P + "scsi_cdb_inquiry.py",
      '                _d["ieee_company_id"] = convert.scsi_ba_to_int(data[8:11])\n                _d["vendor_specific_extension_id"] = data[11:]',
      '                _d["ieee_company_id"] = convert.scsi_ba_to_int(data[9:12])\n                _d["vendor_specific_extension_id"] = data[11:]'),
    V("c06-twin-swap-encodes", ["C06"], P + "scsi_cdb_inquiry.py",
      "            convert.encode_dict(data, cls._datain_bits, result)\n            convert.encode_dict(data, cls._standard_bits, result)\n            return result",
      "            convert.encode_dict(data, cls._standard_bits, result)\n            convert.encode_dict(data, cls._datain_bits, result)\n            return result",
      expect="silent"),
    # ---- C05 ----------------------------------------------------------
    V("c05-xcopy4-desc-len", ["C05"], P + "scsi_cdb_extended_copy_spc4.py", '        data_dict["descriptor_length"] = numbytes - 4', '        data_dict["descriptor_length"] = numbytes',
      rule="parameter-list-image"),
    V("c05-prout-basic-size", ["C05"], P + "scsi_cdb_persistentreserveout.py", "        else:\n            result = bytearray(24)\n            encode_dict(data, cls._basic_parameter_list_bits, result)",
      "        else:\n            result = bytearray(20)\n            encode_dict(data, cls._basic_parameter_list_bits, result)"),
    V("c05-ram-tid-length-dropped", ["C05"], P + "scsi_cdb_persistentreserveout.py", '                _d["transportid_length"] = len(transportID)\n', "", rule="parameter-list-image"),
    V("c05-pad4", ["C05"], P + "scsi_cdb_persistentreservein.py", "        return _l + (4 - _rem)", "        return _l + _rem", rule="pad4-length"),
    V("c05-spec-i-pt-len", ["C05"], P + "scsi_cdb_persistentreserveout.py", "result[24:28] = scsi_int_to_ba(len(additional_parameter_data), 4)",
      "result[24:28] = scsi_int_to_ba(len(transport_ids), 4)", rule="parameter-list-image"),
    V("c05-iscsi-tid-len", ["C05", "C06"], P + "scsi_cdb_persistentreservein.py", "            result[2:4] = scsi_int_to_ba(len(result) - 4, 2)", "            result[2:4] = scsi_int_to_ba(len(result), 2)"),
    V("c05-xcopy5-seg-key-renamed", ["C05"], P + "scsi_cdb_extended_copy_spc5.py", '            "segment_descriptor_list_length": segment_descriptor_list_length,',
      '            "segment_list_length": segment_descriptor_list_length,', rule="parameter-list-image"),
    V("c05-xcopy4-target-size", ["C05"], P + "scsi_cdb_extended_copy_spc4.py", '        0xE4: {"name": "Identification descriptor target descriptor", "size": 32},',
      '        0xE4: {"name": "Identification descriptor target descriptor", "size": 28},'),
    V("c05-modeselect6-page-len", ["C05", "C06"], P + "scsi_cdb_modesense6.py", "                _d[1] = len(_mpd)", "                _d[1] = len(_mpd) + 2", expect_by={"C06": "silent"}),
    V("c05-modeselect6-control-size", ["C05"], P + "scsi_cdb_modesense6.py", "                    _mpd = bytearray(10)", "                    _mpd = bytearray(12)"),
    V("c05-prout-pll", ["C05", "C01"], P + "scsi_cdb_persistentreserveout.py", "            parameter_list_length=len(_d),\n", "            parameter_list_length=24,\n",
      rule="cdb-parameter-list-length", expect_by={"C01": "silent"}),
    V("c05-xcopy-stream-table-typo", ["C05"], P + "scsi_cdb_extended_copy_spc5.py", "segment_dict, cls._segment_descriptor_bits_stream_to_block, 24",
      "segment_dict, cls._segment_descriptor_bits_stream_block, 24", rule="parameter-list-constructible"),
    V("c05-xcopy5-header-format", ["C05"], P + "scsi_cdb_extended_copy_spc5.py", '            "parameter_list_format": 1,', '            "parameter_list_format": 0,'),
    V("c05-ram-unreg-bit", ["C05"], P + "scsi_cdb_persistentreserveout.py", '"unreg": [0x02, 17]', '"unreg": [0x04, 17]', rule="table-field-position"),
    V("c05-twin-length-local", ["C05"], P + "scsi_cdb_persistentreserveout.py", '                _d["transportid_length"] = len(transportID)\n',
      '                n = len(transportID)\n                _d["transportid_length"] = n\n', expect="silent"),
    # ---- C09 ----------------------------------------------------------
    V("c09-mutable-default-append", ["C09"], P + "scsi_cdb_extended_copy_spc4.py",
      "        target_data = []\n        for target_dict in target_descriptor_list:",
      "        target_data = []\n        target_descriptor_list.append({})\n        target_descriptor_list.pop()\n        for target_dict in target_descriptor_list:",
      rule="no-shared-state-store"),
    V("c09-module-global-cache", ["C09"], P + "scsi_cdb_getlbastatus.py",
      "        result = {}\n        _data = data[8 : scsi_ba_to_int(data[:4]) + 4]",
      "        global _last\n        _last = data\n        result = {}\n        _data = data[8 : scsi_ba_to_int(data[:4]) + 4]", rule="no-shared-state-store"),
    V("c09-class-table-mutated", ["C09"], P + "scsi_cdb_report_luns.py",
      "        result = {}\n        _data = data[8 : scsi_ba_to_int(data[:4]) + 8]",
      "        result = {}\n        cls._datain_bits[\"lun\"] = [0xFFFFFFFFFFFFFFFF, 0]\n        _data = data[8 : scsi_ba_to_int(data[:4]) + 8]", rule="no-shared-state-store"),
    V("c09-class-attr-store-in-marshaller", ["C09"], P + "scsi_cdb_readcapacity16.py",
      "        result = bytearray(32)\n        encode_dict(data, cls._datain_bits, result)",
      "        result = bytearray(32)\n        cls._last_result = result\n        encode_dict(data, cls._datain_bits, result)", rule="no-shared-state-store"),
    V("c09-dataout-is-default", ["C09"], P + "scsi_cdb_extended_copy_spc5.py",
      "        return _r + b\"\".join(cscd_data) + b\"\".join(segment_data) + inline_data",
      "        if not cscd_data and not segment_data:\n            inline_data += _r\n            return inline_data\n        return _r + b\"\".join(cscd_data) + b\"\".join(segment_data) + inline_data"),
    V("c09-clock-in-marshaller", ["C09"], P + "scsi_cdb_readcapacity10.py",
      "from pyscsi.utils.converter import decode_bits, encode_dict", "import time\nfrom pyscsi.utils.converter import decode_bits, encode_dict",
      more=[(P + "scsi_cdb_readcapacity10.py", "        result = bytearray(8)\n", "        result = bytearray(8)\n        time.time()\n")],
      rule="marshalling-deterministic"),
    V("c09-twin-copy-default", ["C09"], P + "scsi_cdb_extended_copy_spc4.py",
      "        target_data = []\n        for target_dict in target_descriptor_list:",
      "        target_data = []\n        target_descriptor_list = list(target_descriptor_list)\n        target_descriptor_list.append({\"descriptor_type_code\": 0xE4})\n        target_descriptor_list.pop()\n        for target_dict in target_descriptor_list:",
      expect="silent"),
    # ---- C01 ----------------------------------------------------------
    V("c01-ata16-lba-mask", ["C01", "C02"], P + "scsi_cdb_atapassthrough16.py", '"lba": [0xFFFFFFFFFFFF, 7]', '"lba": [0xFFFFFFFFFF, 7]',
      rule="field-position"),
    V("c01-reportluns-alloc-off", ["C01"], P + "scsi_cdb_report_luns.py", '"alloc_len": [0xFFFFFFFF, 6]', '"alloc_len": [0xFFFFFFFF, 5]'),
    V("c01-rdi-datatype-mask", ["C01"], P + "scsi_cdb_readdiscinformation.py", '"data_type": [0x07, 1]', '"data_type": [0x0E, 1]'),
    V("c01-movemedium-swap", ["C01"], P + "scsi_cdb_movemedium.py", "source_address=source,\n            destination_address=dest,",
      "source_address=dest,\n            destination_address=source,"),
    V("c01-reportluns-kw-typo", ["C01"], P + "scsi_cdb_report_luns.py", "select_report=report, alloc_len=alloclen",
      "select_report=report, alloclen=alloclen"),
    V("c01-ata16-shuffle", ["C01"], P + "scsi_cdb_atapassthrough16.py", "result += (lba & 0xFF) << 32", "result += (lba & 0xFF) << 40"),
    V("c01-ata12-shuffle", ["C01"], P + "scsi_cdb_atapassthrough12.py", "result += ((lba >> 8) & 0xFF) << 8", "result += ((lba >> 8) & 0xFF) << 16"),
    V("c01-init-cdb-len", ["C01", "C14"], P + "scsi_command.py", "cdb = bytearray(10)", "cdb = bytearray(12)"),
    V("c01-write16-group-high-bit", ["C01", "C02"], P + "scsi_cdb_write16.py", '"group": [0x1F, 14]', '"group": [0x0F, 14]', expect="silent",
      note="encode does not mask: a narrower mask with the same LSB position still puts in-range bits at the right place (C02 sees it)",
      expect_by={"C02": "fire"}),
    V("c01-sync16-immed-bit", ["C01"], P + "scsi_cdb_synchronize_cache16.py", '"immed": [0x02, 1]', '"immed": [0x04, 1]'),
    V("c01-prin-sa-swapped", ["C01"], P + "scsi_cdb_persistentreservein.py", "opcode.serviceaction.READ_FULL_STATUS, alloclen",
      "opcode.serviceaction.READ_RESERVATION, alloclen"),
    V("c01-twin-table-reorder", ["C01", "C02"], P + "scsi_cdb_read10.py", '        "dpo": [0x10, 1],\n        "fua": [0x08, 1],',
      '        "fua": [0x08, 1],\n        "dpo": [0x10, 1],', expect="silent"),
    V("c01-twin-mask-notation", ["C01", "C02"], P + "scsi_cdb_read10.py", '"lba": [0xFFFFFFFF, 2]', '"lba": [(1 << 32) - 1, 2]', expect="silent"),
    V("c01-twin-local-alias", ["C01", "C03"], P + "scsi_cdb_inquiry.py",
      "        SCSICommand.__init__(self, opcode, 0, alloclen)\n        self._evpd = evpd",
      "        n = alloclen\n        SCSICommand.__init__(self, opcode, 0, n)\n        self._evpd = evpd", expect="silent"),
    # ---- ATA Information VPD (C04), history / sharing rules added after the seeded rounds ----------------
    V("c04-ata-product-id-20", ["C04"], P + "scsi_cdb_inquiry.py", '"sat_product_identification": ("b", 16, 16)', '"sat_product_identification": ("b", 16, 20)',
      rule="table-field-position"),
    V("c04-ata-signature-slice", ["C04"], P + "scsi_cdb_inquiry.py", "_sig = data[36:56]", "_sig = data[40:56]", rule="response-structure"),
    V("c04-ata-signature-count", ["C04"], P + "scsi_cdb_inquiry.py", '"sector_count": [0xFF, 12]', '"sector_count": [0xFF, 13]', rule="table-field-position"),
    V("c04-ata-identify-at-44", ["C04"], P + "scsi_cdb_inquiry.py", "_identify = data[60:]", "_identify = data[44:]", rule="response-structure"),
    V("c04-ata-serial-offset", ["C04"], P + "scsi_cdb_inquiry.py", '"serial_number": ("w", 20, 10)', '"serial_number": ("w", 10, 10)', rule="table-field-position"),
    V("c04-ata-incomplete-bit", ["C04"], P + "scsi_cdb_inquiry.py", '"respose_incomplete": [0x04, 0]', '"respose_incomplete": [0x02, 0]', rule="table-field-position"),
    V("c04-ata-shared-dict", ["C04"], P + "scsi_cdb_inquiry.py", '        result.update({"signature": _r})\n        _r = {}\n', '        result.update({"signature": _r})\n',
      rule="result-fields-distinct"),
    V("c04-twin-ata-identify-slice", ["C04"], P + "scsi_cdb_inquiry.py", "_identify = data[60:]", "_identify = data[36:][24:]", expect="silent"),
    V("c04-res-avoltag-fixed-offset", ["C04"], P + "scsi_cdb_readelementstatus.py", '_rr.update({"alternate_volume_tag": _dd[0:36]})',
      '_rr.update({"alternate_volume_tag": _d[48:84]})', rule="response-structure"),
    V("c04-usn-unbounded", ["C04"], P + "scsi_cdb_inquiry.py", 'result.update({"unit_serial_number": data[4:]})',
      'result.update({"unit_serial_number": data[4:64]})', rule="response-structure"),
    V("c04-inq-product-id-off", ["C04"], P + "scsi_cdb_inquiry.py", '"product_identification": ("b", 16, 16)', '"product_identification": ("b", 16, 15)'),
    V("c18-getitem-over-vars", ["C18"], "pyscsi/utils/enum.py", "        for key in cls.keys:\n            if getattr(cls, key) == value:",
      "        for key in vars(cls):\n            if getattr(cls, key) == value:", rule="reverse-lookup-first-match"),
    V("c19-iscsi-url-lowercased", ["C19"], "pyscsi/pyiscsi/iscsi_device.py", "self._file_name = device\n", "self._file_name = device.lower()\n",
      rule="supported-device-opened"),
    V("c09-class-level-buffers", ["C09"], P + "scsi_command.py", "        self.datain = bytearray(datain_alloclen)\n",
      "        if datain_alloclen:\n            self.datain = bytearray(datain_alloclen)\n", rule="no-alias-of-shared-object",
      more=[(P + "scsi_command.py", "    _datain = None\n", "    _datain = bytearray(0)\n")], allow_error=True),
    V("c13-stale-fields", ["C13", "C09"], P + "scsi_command.py", "        cdb = {key: kwargs[key] for key in kwargs.keys()}\n        return SCSICommand.marshall_cdb(cdb)",
      "        self._cdb_fields.update(kwargs)\n        return SCSICommand.marshall_cdb(self._cdb_fields)", rule="argument-reaches-cdb",
      more=[(P + "scsi_command.py", "    _opcode = None\n", "    _opcode = None\n    _cdb_fields = {}\n")]),
    V("c14-attach-adds-alias", ["C14"], P + "scsi.py", "                self.device.opcodes = ssc\n",
      "                self.device.opcodes = ssc\n                if \"MOVE_MEDIUM\" not in ssc.keys:\n                    ssc.add(\"MOVE_MEDIUM\", ssc.MOVE_MEDIUM_ATTACHED)\n",
      rule="tables-keep-their-values"),
    V("c14-twin-attach-adds-correct-name", ["C14", "C16"], P + "scsi.py", "                self.device.opcodes = ssc\n",
      "                self.device.opcodes = ssc\n                if \"LOG_SENSE\" not in ssc.keys:\n                    ssc.add(\"LOG_SENSE\", 0x4D)\n",
      expect="silent", note="a table write at attach that leaves every exposed value as T10 assigns it is not a violation"),
    V("c10-decode-float-division", ["C10", "C02"], "pyscsi/utils/converter.py",
      "            while not bitmask & 0x01:\n                bitmask >>= 1\n                value >>= 1\n            value &= bitmask\n",
      "            value = int((value & bitmask) / (bitmask & -bitmask))\n"),
    V("c10-twin-decode-floor-division", ["C10", "C02", "C04"], "pyscsi/utils/converter.py",
      "            while not bitmask & 0x01:\n                bitmask >>= 1\n                value >>= 1\n            value &= bitmask\n",
      "            value = (value & bitmask) // (bitmask & -bitmask)\n", expect="silent"),
    # ---- behaviour-preserving rewrites of the shared helpers: every check that evaluates them must stay silent -------------
    V("twin-ba-to-int-from-bytes", ["C01", "C02", "C04", "C05", "C06", "C08", "C10", "C11", "C13"], "pyscsi/utils/converter.py",
      "    return sum(ba[i] << ((len(ba) - 1 - i) * 8) for i in range(len(ba)))", "    return int.from_bytes(ba, \"big\")", expect="silent"),
    V("twin-ba-to-int-reduce", ["C01", "C02", "C04", "C05", "C06", "C08", "C10", "C11", "C13"], "pyscsi/utils/converter.py",
      "    return sum(ba[i] << ((len(ba) - 1 - i) * 8) for i in range(len(ba)))",
      "    import functools\n    return functools.reduce(lambda acc, b: (acc << 8) | b, ba, 0)", expect="silent"),
    V("twin-int-to-ba-to-bytes", ["C01", "C02", "C05", "C06", "C10", "C13"], "pyscsi/utils/converter.py",
      "    return bytearray((to_convert >> i * 8) & 0xFF for i in reversed(range(array_size)))",
      "    return bytearray((to_convert & ((1 << (8 * array_size)) - 1)).to_bytes(array_size, \"big\"))", expect="silent"),
    V("twin-decode-shift-computed", ["C01", "C02", "C04", "C05", "C06", "C08", "C10", "C11", "C13"], "pyscsi/utils/converter.py",
      "            while not bitmask & 0x01:\n                bitmask >>= 1\n                value >>= 1\n            value &= bitmask\n",
      "            shift = (bitmask & -bitmask).bit_length() - 1\n            value = (value & bitmask) >> shift\n", expect="silent"),
    V("twin-encode-skip-unknown-sorted", ["C01", "C02", "C05", "C06", "C09", "C10", "C13"], "pyscsi/utils/converter.py",
      "    for key in data_dict.keys():\n        if key not in check_dict:\n            continue\n",
      "    for key in [k for k in data_dict.keys() if k in check_dict]:\n", expect="silent"),
    V("twin-build-cdb-filter-none", ["C01", "C02", "C03", "C13"], P + "scsi_command.py",
      "        cdb = {key: kwargs[key] for key in kwargs.keys()}", "        cdb = {key: val for key, val in kwargs.items() if val is not None}",
      expect="silent"),
    V("twin-assert-invariant", ["C01", "C14", "C17"], P + "scsi_command.py",
      "        cdb = {key: kwargs[key] for key in kwargs.keys()}",
      "        assert isinstance(kwargs, dict), \"keyword arguments\"\n        cdb = {key: kwargs[key] for key in kwargs.keys()}", expect="silent",
      note="an assert that only states an invariant: the -O pass runs and finds nothing"),
    V("twin-private-attributes-renamed", ["C01", "C03", "C05", "C07", "C09", "C13", "C14", "C15", "C16"], P + "scsi_command.py",
      "        return self._cdb\n", "        return self._cdb_buffer\n", expect="silent",
      more=[(P + "scsi_command.py", "        self._cdb = value", "        self._cdb_buffer = value"),
            (P + "scsi_command.py", "        return self._dataout\n", "        return self._out\n"),
            (P + "scsi_command.py", "        self._dataout = value", "        self._out = value"),
            (P + "scsi_command.py", "        return self._datain\n", "        return self._in\n"),
            (P + "scsi_command.py", "        self._datain = value", "        self._in = value"),
            (P + "scsi_command.py", "        return self._result\n", "        return self._res\n"),
            (P + "scsi_command.py", "        self._result = value", "        self._res = value"),
            (P + "scsi_command.py", "        return self._sense\n", "        return self._sns\n"),
            (P + "scsi_command.py", "        self._sense = value", "        self._sns = value"),
            (P + "scsi_command.py", "        return self._raw_sense_data\n", "        return self._raw\n"),
            (P + "scsi_command.py", "        self._raw_sense_data = value", "        self._raw = value")],
      note="where the command keeps its buffers is private: every check reads them through the public properties"),
    V("c11-regex-nested-quantifier", ["C11"], P + "scsi_cdb_persistentreservein.py",
      '                (_r["iscsi_name"], _r["iscsi_initiator_session_id"]) = _full_str.split(\n                    ",i,0x"\n                )',
      '                import re\n                _m = re.match(r"((?:\\w+-?)+),i,0x([0-9A-Fa-f]+)$", _full_str)\n'
      '                if _m is None:\n                    raise ValueError("Invalid iSCSI TransportID")\n'
      '                (_r["iscsi_name"], _r["iscsi_initiator_session_id"]) = _m.groups()', rule="regex-work-linear"),
    V("c11-regex-polynomial", ["C11"], P + "scsi_cdb_persistentreservein.py",
      '                (_r["iscsi_name"], _r["iscsi_initiator_session_id"]) = _full_str.split(\n                    ",i,0x"\n                )',
      '                import re\n                _m = re.match(r"\\s*(.*)\\s*,i,0x([0-9A-Fa-f]+)$", _full_str)\n'
      '                if _m is None:\n                    raise ValueError("Invalid iSCSI TransportID")\n'
      '                (_r["iscsi_name"], _r["iscsi_initiator_session_id"]) = _m.groups()', rule="regex-work-linear"),
    V("c11-twin-regex-linear", ["C11"], P + "scsi_cdb_persistentreservein.py",
      '                (_r["iscsi_name"], _r["iscsi_initiator_session_id"]) = _full_str.split(\n                    ",i,0x"\n                )',
      '                import re\n                _m = re.match(r"([^,]*),i,0x([0-9A-Fa-f]*)$", _full_str)\n'
      '                if _m is None:\n                    raise ValueError("Invalid iSCSI TransportID")\n'
      '                (_r["iscsi_name"], _r["iscsi_initiator_session_id"]) = _m.groups()', expect="silent",
      note="an unambiguous expression: linear work"),
    V("c15-twin-inode-with-device-number", ["C15"], P + "scsi_device.py",
      "    return os.stat(file).st_ino", "    st = os.stat(file)\n    return (st.st_dev, st.st_ino)", expect="silent",
      note="identity = (device number, inode number): still unequal whenever the inode number differs"),
    V("c15-inode-packed-with-device-number", ["C15"], P + "scsi_device.py",
      "    return os.stat(file).st_ino", "    st = os.stat(file)\n    return (st.st_dev << 32) | st.st_ino",
      note="inode numbers wider than 32 bits collide with the device bits"),
    V("c15-twin-replug-test-inlined", ["C15"], P + "scsi_device.py",
      "        if self._detect_replugged and self._is_replugged():", "        if self._detect_replugged and get_inode(self._file_name) != self._ino:",
      expect="silent", more=[(P + "scsi_device.py", "    def _is_replugged(self):\n        #  type: (SCSIDevice) -> bool\n        ino = get_inode(self._file_name)\n        return ino != self._ino\n\n", "")],
      note="the replug test written into execute(): decided there"),
    V("c16-twin-selection-by-table", ["C16", "C14"], P + "scsi.py",
      """            if self.device.devicetype in (
                0x00,
                0x04,
                0x07,
            ):  # sbc
                self.device.opcodes = sbc
            elif self.device.devicetype in (0x01, 0x02, 0x09):  # ssc
                self.device.opcodes = ssc
            elif self.device.devicetype in (0x03,):  # spc
                self.device.opcodes = spc
            elif self.device.devicetype in (0x08,):  # smc
                self.device.opcodes = smc
            elif self.device.devicetype in (0x05,):  # mmc
                self.device.opcodes = mmc
""",
      """            by_type = {0x00: sbc, 0x04: sbc, 0x07: sbc, 0x01: ssc, 0x02: ssc, 0x09: ssc, 0x03: spc, 0x08: smc, 0x05: mmc}
            if self.device.devicetype in by_type:
                self.device.opcodes = by_type[self.device.devicetype]
""", expect="silent", note="the same selection written as a table lookup"),
    V("c07-twin-status-local-variable", ["C07", "C03"], "pyscsi/pyiscsi/iscsi_device.py",
      "        if task.status == scsi_enum_command.SCSI_STATUS.CHECK_CONDITION:",
      "        status = task.status\n        if status == scsi_enum_command.SCSI_STATUS.CHECK_CONDITION:", expect="silent",
      more=[("pyscsi/pyiscsi/iscsi_device.py", "        if task.status == scsi_enum_command.SCSI_STATUS.GOOD:", "        if status == scsi_enum_command.SCSI_STATUS.GOOD:"),
            ("pyscsi/pyiscsi/iscsi_device.py", "        if task.status == scsi_enum_command.SCSI_STATUS.BUSY:", "        if status == scsi_enum_command.SCSI_STATUS.BUSY:")],
      note="the status read once into a local"),
    V("c07-twin-status-table", ["C07"], "pyscsi/pyiscsi/iscsi_device.py",
      """        if task.status == scsi_enum_command.SCSI_STATUS.RESERVATION_CONFLICT:
            raise self.ReservationConflict()
        if task.status == scsi_enum_command.SCSI_STATUS.TASK_ABORTED:
            raise self.TaskAborted()
""",
      """        for st, exc in ((scsi_enum_command.SCSI_STATUS.RESERVATION_CONFLICT, self.ReservationConflict),
                        (scsi_enum_command.SCSI_STATUS.TASK_ABORTED, self.TaskAborted)):
            if task.status == st:
                raise exc()
""", expect="silent", note="two of the status tests written as a loop over (status, exception) pairs"),
    V("c17-twin-blocksize-guard-helper", ["C17", "C01", "C03"], P + "scsi_cdb_read10.py",
      "        if blocksize == 0:\n            raise SCSICommand.MissingBlocksizeException\n",
      "        self._need_blocksize(blocksize)\n", expect="silent",
      more=[(P + "scsi_cdb_read10.py", "    def __init__(", "    @staticmethod\n    def _need_blocksize(blocksize):\n        if not blocksize:\n            raise SCSICommand.MissingBlocksizeException\n\n    def __init__(")],
      note="the refusal moved into a helper"),
    V("c13-twin-facade-helper", ["C13", "C07", "C17", "C16"], P + "scsi.py",
      """        cmd = ReadCapacity16(opcode=opcode, **kwargs)
        self.execute(cmd)
        cmd.unmarshall()
        return cmd
""",
      """        return self._run(ReadCapacity16(opcode=opcode, **kwargs), decode=True)
""", expect="silent",
      more=[(P + "scsi.py", "    def __init_opcode(self):", "    def _run(self, cmd, decode=False):\n        self.execute(cmd)\n        if decode:\n            cmd.unmarshall()\n        return cmd\n\n    def __init_opcode(self):")],
      note="execute + decode + return moved into a private helper of the facade"),
    V("c01-twin-build-cdb-kwargs-dict", ["C01", "C02", "C13", "C03"], P + "scsi_cdb_read10.py",
      "self.cdb = self.build_cdb(", "_fields = dict(", expect="silent",
      more=[(P + "scsi_cdb_read10.py", "            group=group,\n        )", "            group=group,\n        )\n        self.cdb = self.build_cdb(**_fields)")],
      note="the field values collected in a dictionary first"),
    V("c11-twin-index-loop", ["C11", "C04", "C06"], P + "scsi_cdb_persistentreservein.py",
      """        while len(data):
            key = scsi_ba_to_int(data[:8])
            data = data[8:]
            keys.append(key)
""",
      """        pos = 0
        while pos < len(data):
            key = scsi_ba_to_int(data[pos : pos + 8])
            pos += 8
            keys.append(key)
""", expect="silent", note="the same walk with an index instead of re-slicing: still bounded by len(data)"),
    V("c11-twin-for-range-len", ["C11", "C04", "C06"], P + "scsi_cdb_persistentreservein.py",
      """        while len(data):
            key = scsi_ba_to_int(data[:8])
            data = data[8:]
            keys.append(key)
""",
      """        for pos in range(0, len(data), 8):
            keys.append(scsi_ba_to_int(data[pos : pos + 8]))
""", expect="silent", note="a for loop over range(len(data)): the count is bounded by the buffer, not by its content"),
    V("c11-twin-index-loop-variable-stride", ["C11", "C04", "C06"], P + "scsi_cdb_inquiry.py",
      """            while len(data):
                _bc = data[3] + 4

                _dd = {}
                convert.decode_bits(data, cls._designator_bits, _dd)
                if _dd["piv"] == 0 or (
                    _dd["association"] != 1 and _dd["association"] != 2
                ):
                    del _dd["protocol_identifier"]
                _dd["designator"] = cls.unmarshall_designator(
                    _dd["designator_type"], data[4 : 4 + data[3]]
                )
                _d.append(_dd)
                data = data[_bc:]
""",
      """            pos = 0
            while pos < len(data):
                _bc = data[pos + 3] + 4

                _dd = {}
                convert.decode_bits(data[pos:], cls._designator_bits, _dd)
                if _dd["piv"] == 0 or (
                    _dd["association"] != 1 and _dd["association"] != 2
                ):
                    del _dd["protocol_identifier"]
                _dd["designator"] = cls.unmarshall_designator(
                    _dd["designator_type"], data[pos + 4 : pos + 4 + data[pos + 3]]
                )
                _d.append(_dd)
                pos += _bc
""", expect="silent", note="the designator walk by index, with the stride read from the descriptor"),
V("c11-index-loop-zero-stride", ["C11"], P + "scsi_cdb_inquiry.py",
      """            while len(data):
                _bc = data[3] + 4

                _dd = {}
                convert.decode_bits(data, cls._designator_bits, _dd)
                if _dd["piv"] == 0 or (
                    _dd["association"] != 1 and _dd["association"] != 2
                ):
                    del _dd["protocol_identifier"]
                _dd["designator"] = cls.unmarshall_designator(
                    _dd["designator_type"], data[4 : 4 + data[3]]
                )
                _d.append(_dd)
                data = data[_bc:]
""",
      """            pos = 0
            while pos < len(data):
                _bc = data[pos + 3] + 4

                _dd = {}
                convert.decode_bits(data[pos:], cls._designator_bits, _dd)
                if _dd["piv"] == 0 or (
                    _dd["association"] != 1 and _dd["association"] != 2
                ):
                    del _dd["protocol_identifier"]
                _dd["designator"] = cls.unmarshall_designator(
                    _dd["designator_type"], data[pos + 4 : pos + 4 + data[pos + 3]]
                )
                _d.append(_dd)
                pos += _bc
""", rule="loop-has-variant",
      more=[(P + "scsi_cdb_inquiry.py", "                _bc = data[pos + 3] + 4\n", "                _bc = data[pos + 3]\n")], note="the index walk with a stride that may be zero"),
    V("c11-index-loop-content-bound", ["C11"], P + "scsi_cdb_persistentreservein.py",
      """        while len(data):
            key = scsi_ba_to_int(data[:8])
            data = data[8:]
            keys.append(key)
""",
      """        pos = 0
        while pos < additional_length:
            key = scsi_ba_to_int(data[pos : pos + 8])
            pos += 8
            keys.append(key)
""", rule="loop-has-variant", note="an index walk bounded by the announced length, not by the buffer"),
    V("c11-twin-index-loop-length-alias", ["C11", "C04"], P + "scsi_cdb_persistentreservein.py",
      """        while len(data):
            key = scsi_ba_to_int(data[:8])
            data = data[8:]
            keys.append(key)
""",
      """        pos, n = 0, len(data)
        while pos < n:
            key = scsi_ba_to_int(data[pos : pos + 8])
            pos += 8
            keys.append(key)
""", expect="silent", note="the buffer length taken into a variable first"),
    V("c08-twin-lookup-try-except", ["C08", "C07"], P + "scsi_sense.py",
      '        return sense_ascq_dict.get(self._ascq(), "Unknown ASC/ASCQ")',
      '        try:\n            return sense_ascq_dict[self._ascq()]\n        except KeyError:\n            return "Unknown ASC/ASCQ"', expect="silent",
      note="the table lookup guarded by try/except instead of dict.get"),
    V("c08-twin-fstring", ["C08"], P + "scsi_sense.py",
      '            print("%s -> 0x%02X" % (k, v))', '            print(f"{k} -> 0x{v:02X}")', expect="silent",
      note="the dump line as an f-string"),
    V("c08-twin-format-method", ["C08"], P + "scsi_sense.py",
      """        return "Check Condition: %s(0x%02X) ASC+Q:%s(0x%04X)" % (
            sense_key_dict.get(sense_key, "Reserved"),
            sense_key,
            self._describe_ascq(),
            self._ascq(),
        )""",
      """        return "Check Condition: {}(0x{:02X}) ASC+Q:{}(0x{:04X})".format(
            sense_key_dict.get(sense_key, "Reserved"),
            sense_key,
            self._describe_ascq(),
            self._ascq(),
        )""", expect="silent", note="str.format instead of %"),
    V("c19-twin-importlib", ["C19"], P + "scsi_device.py",
      "try:\n    import sgio\n\n    _has_sgio = True\nexcept ImportError as e:\n    _has_sgio = False",
      "import importlib.util\n\n_has_sgio = importlib.util.find_spec(\"sgio\") is not None\nif _has_sgio:\n    import sgio", expect="silent",
      note="presence decided with importlib.util.find_spec"),
    V("c08-fstring-wrong-argument", ["C08"], P + "scsi_sense.py",
      '            print("%s -> 0x%02X" % (k, v))', '            print(f"{v} -> 0x{k:02X}")', rule="format-arguments-fit",
      note="the dump line as an f-string with the key (a string) under the hexadecimal directive"),
    V("c08-format-method-swapped", ["C08"], P + "scsi_sense.py",
      """        return "Check Condition: %s(0x%02X) ASC+Q:%s(0x%04X)" % (
            sense_key_dict.get(sense_key, "Reserved"),
            sense_key,
            self._describe_ascq(),
            self._ascq(),
        )""",
      """        return "Check Condition: {}(0x{:02X}) ASC+Q:{}(0x{:04X})".format(
            sense_key,
            sense_key_dict.get(sense_key, "Reserved"),
            self._describe_ascq(),
            self._ascq(),
        )""", rule="format-arguments-fit", note="str.format with the text under the hexadecimal directive"),
    V("c19-twin-flag-renamed", ["C19", "C15", "C03"], P + "scsi_device.py",
      "    _has_sgio = True\n", "    HAVE_SGIO = True\n", expect="silent",
      more=[(P + "scsi_device.py", "    _has_sgio = False\n", "    HAVE_SGIO = False\n"),
            (P + "scsi_device.py", "        if _has_sgio and device[:5] == \"/dev/\":", "        if HAVE_SGIO and device[:5] == \"/dev/\":")],
      note="the module-level presence flag under another name"),
    V("c19-twin-lazy-import", ["C19"], P + "scsi_device.py",
      "try:\n    import sgio\n\n    _has_sgio = True\nexcept ImportError as e:\n    _has_sgio = False",
      "try:\n    import sgio\nexcept ImportError:\n    sgio = None\n_has_sgio = sgio is not None", expect="silent",
      note="the binding module itself as the presence test"),
    V("c06-twin-marshaller-preallocates", ["C06", "C04"], P + "scsi_cdb_getlbastatus.py",
      """        for l in data["lbas"]:
            _r = bytearray(16)
            encode_dict(l, cls._datain_bits, _r)

            result += _r

        result[:4] = scsi_int_to_ba(len(result) - 4, 4)
        return result""",
      """        n = len(data["lbas"])
        result = bytearray(8 + 16 * n)
        for i, l in enumerate(data["lbas"]):
            _r = bytearray(16)
            encode_dict(l, cls._datain_bits, _r)
            result[8 + 16 * i : 24 + 16 * i] = _r
        result[0:4] = scsi_int_to_ba(4 + 16 * n, 4)
        return result""", expect="silent", note="the response allocated once and the descriptors stored into their slots"),
    V("c06-twin-marshaller-joins", ["C06", "C04"], P + "scsi_cdb_report_luns.py",
      """        for _count, l in enumerate(data["luns"]):
            _r = bytearray(8)
            encode_dict({"lun": l["lun%s" % _count]}, cls._datain_bits, _r)

            result += _r
        result[:4] = scsi_int_to_ba(len(result) - 8, 4)
        return result""",
      """        chunks = []
        for _count, l in enumerate(data["luns"]):
            _r = bytearray(8)
            encode_dict({"lun": l["lun%s" % _count]}, cls._datain_bits, _r)
            chunks.append(_r)
        body = b"".join(chunks)
        return bytearray(scsi_int_to_ba(len(body), 4)) + bytearray(4) + body""", expect="silent",
      note="the LUN list assembled with join and the header prepended"),
    V("c03-twin-execute-args-tuple", ["C03", "C07", "C13", "C15"], P + "scsi_device.py",
      "            sgio.execute(self._file, cmd.cdb, cmd.dataout, cmd.datain)",
      "            args = (self._file, cmd.cdb, cmd.dataout, cmd.datain)\n            sgio.execute(*args)", expect="silent",
      note="the hand-over through an argument tuple"),
    V("c07-twin-raise-from", ["C07", "C03"], P + "scsi_device.py",
      "                raise self.CheckCondition(error.sense)", "                raise self.CheckCondition(error.sense) from error", expect="silent",
      note="exception chaining"),
    V("c07-twin-sense-local", ["C07"], P + "scsi_device.py",
      "            if en_raw_sense:\n                cmd.raw_sense_data = error.sense\n            else:\n                raise self.CheckCondition(error.sense)",
      "            sense = error.sense\n            if not en_raw_sense:\n                raise self.CheckCondition(sense)\n            cmd.raw_sense_data = sense", expect="silent",
      note="the two branches in the other order, the sense in a local"),
    V("c02-twin-entries-as-tuples", ["C01", "C02", "C13", "C09"], P + "scsi_cdb_read10.py",
      '"lba": [0xFFFFFFFF, 2]', '"lba": (0xFFFFFFFF, 2)', expect="silent",
      more=[(P + "scsi_cdb_read10.py", '"tl": [0xFFFF, 7]', '"tl": (0xFFFF, 7)'),
            (P + "scsi_cdb_read10.py", '"dpo": [0x10, 1]', '"dpo": (1 << 4, 1)')],
      note="table entries as tuples, one mask written as a shift"),
]
