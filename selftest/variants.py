"""Scratch-copy variants of rosjat/python-scsi used to test the checker both
ways.  ``expect: fire`` variants break a property while still compiling (and,
spot-checked, passing the 45 existing tests); ``expect: silent`` twins preserve
behaviour.  Edits are unique-substring replacements inside one file."""

P = "pyscsi/pyscsi/"
U = "pyscsi/utils/"


def V(id, props, file, old, new, expect="fire", rule=None, count=1, **kw):
    d = {"id": id, "props": props, "edits": [{"file": file, "old": old, "new": new, "count": count}],
         "expect": expect, "rule": rule}
    d.update(kw)
    return d


VARIANTS = [
    # ---- C14 ----------------------------------------------------------
    V("c14-transposed-digit-ssc-locate", ["C14"], P + "scsi_enum_command.py",
      '"LOCATE_16": OpCode("LOCATE_16", 0x92', '"LOCATE_16": OpCode("LOCATE_16", 0x29', rule="opcode-value"),
    V("c14-mmc-readcd", ["C14", "C01"], P + "scsi_enum_command.py",
      '"READ_CD": OpCode("READ_CD", 0xBE', '"READ_CD": OpCode("READ_CD", 0xEB'),
    V("c14-init-cdb-5f-60", ["C14"], P + "scsi_command.py", "0x20 <= opcode.value <= 0x5F", "0x20 <= opcode.value <= 0x60",
      rule="cdb-length-group"),
    V("c14-init-cdb-c0-12byte", ["C14"], P + "scsi_command.py", "0xA0 <= opcode.value <= 0xBF", "0xA0 <= opcode.value <= 0xC0",
      rule="cdb-length-group"),
    V("c14-status-busy", ["C14"], P + "scsi_enum_command.py", '"BUSY": 0x08', '"BUSY": 0x80', rule="status-value"),
    V("c14-sa-getlbastatus", ["C14", "C01"], P + "scsi_enum_command.py", '"GET_LBA_STATUS": 0x12,\n    "READ_CAPACITY_16"',
      '"GET_LBA_STATUS": 0x11,\n    "READ_CAPACITY_16"'),
    V("c14-twin-reorder", ["C14"], P + "scsi_enum_command.py",
      '    "BUSY": 0x08,\n    "RESERVATION_CONFLICT": 0x18,', '    "RESERVATION_CONFLICT": 0x18,\n    "BUSY": 0x08,', expect="silent"),
    V("c14-twin-decimal", ["C14"], P + "scsi_enum_command.py", '"REWIND": OpCode("REWIND", 0x01', '"REWIND": OpCode("REWIND", 1',
      expect="silent"),
    # ---- C10 ----------------------------------------------------------
    V("c10-bm-ge", ["C10", "C02"], U + "converter.py", "while _bm > 0xFF:\n                _bm >>= 8\n                _num += 1\n            value = scsi_ba_to_int",
      "while _bm >= 0xFF:\n                _bm >>= 8\n                _num += 1\n            value = scsi_ba_to_int"),
    V("c10-shift-2", ["C10", "C01"], U + "converter.py", "value <<= 1", "value <<= 2"),
    V("c10-ba-index", ["C10"], U + "converter.py", "(len(ba) - 1 - i)", "(len(ba) - i)"),
    V("c10-xor-assign", ["C10"], U + "converter.py", "result[bytepos + i] ^= v[i]", "result[bytepos + i] = v[i]", rule="L3"),
    V("c10-blob-w-len", ["C10"], U + "converter.py", "result[offset : offset + length * 2] = value",
      "result[offset : offset + length * 4] = value", rule="L7"),
    V("c10-int-to-ba-stride", ["C10", "C01"], U + "converter.py", "(to_convert >> i * 8) & 0xFF", "(to_convert >> i * 4) & 0xFF"),
    V("c10-decode-no-mask", ["C10", "C02"], U + "converter.py", "            value &= bitmask\n", "            pass\n"),
    V("c10-twin-shift-form", ["C10", "C01", "C02"], U + "converter.py", "                bitmask >>= 1\n                value >>= 1",
      "                bitmask = bitmask >> 1\n                value = value >> 1", expect="silent"),
    V("c10-twin-range-form", ["C10", "C01"], U + "converter.py", "for i in reversed(range(array_size))",
      "for i in range(array_size - 1, -1, -1)", expect="silent"),
    # ---- C02 ----------------------------------------------------------
    V("c02-read10-group-overlap", ["C02"], P + "scsi_cdb_read10.py", '"group": [0x1F, 6]', '"group": [0x1F, 5]', rule="decode-after-encode"),
    V("c02-mask-hole", ["C02"], P + "scsi_cdb_write12.py", '"tl": [0xFFFFFFFF, 6]', '"tl": [0xFFFF00FF, 6]', rule="mask-contiguous"),
    V("c02-unmarshall-other-table", ["C02"], P + "scsi_command.py", "decode_bits(cdb, SCSICommand._cdb_bits, result)",
      "decode_bits(cdb, {'opcode': [0xFF, 0]}, result)", rule="unmarshall-cdb-same-table"),
    V("c02-rtpg-overlap", ["C02"], P + "scsi_cdb_report_target_port_groups.py", '"parameter_data_format": [0xE0, 1]',
      '"parameter_data_format": [0xF0, 1]', rule="decode-after-encode"),
    V("c02-zero-mask", ["C02", "C01"], P + "scsi_cdb_movemedium.py", '"invert": [0x01, 10]', '"invert": [0x00, 10]', allow_error=True),
    # ---- C03 ----------------------------------------------------------
    V("c03-read12-one-block", ["C03"], P + "scsi_cdb_read12.py", "SCSICommand.__init__(self, opcode, 0, blocksize * tl)",
      "SCSICommand.__init__(self, opcode, 0, blocksize)", rule="buffer-matches-transfer"),
    V("c03-modesense6-buffer-other-var", ["C03"], P + "scsi_cdb_modesense6.py", "SCSICommand.__init__(self, opcode, 0, alloclen)",
      "SCSICommand.__init__(self, opcode, 0, 96)"),
    V("c03-ata16-swapped-dir", ["C03"], P + "scsi_cdb_atapassthrough16.py",
      "            dataout_alloclen = tl * blocksize\n            datain_alloclen = 0\n        else:",
      "            dataout_alloclen = 0\n            datain_alloclen = tl * blocksize\n        elif t_dir == 7:"),
    V("c03-ata12-512-520", ["C03"], P + "scsi_cdb_atapassthrough12.py", "blocksize = 512", "blocksize = 520"),
    V("c03-ata12-count-feature", ["C03"], P + "scsi_cdb_atapassthrough12.py", "            tl = count\n", "            tl = fetures\n"),
    V("c03-sgio-swapped", ["C03", "C13"], P + "scsi_device.py", "cmd.cdb, cmd.dataout, cmd.datain)", "cmd.cdb, cmd.datain, cmd.dataout)",
      rule="transport-passes-buffers"),
    V("c03-iscsi-precedence", ["C03"], "pyscsi/pyiscsi/iscsi_device.py",
      "        if len(cmd.datain):\n            dir = iscsi.SCSI_XFER_READ\n            xferlen = len(cmd.datain)\n        if len(cmd.dataout):\n            dir = iscsi.SCSI_XFER_WRITE\n            xferlen = len(cmd.dataout)",
      "        if len(cmd.dataout):\n            dir = iscsi.SCSI_XFER_WRITE\n            xferlen = len(cmd.dataout)\n        if len(cmd.datain):\n            dir = iscsi.SCSI_XFER_READ\n            xferlen = len(cmd.datain)",
      rule="transport-passes-buffers"),
    V("c03-iscsi-xferlen", ["C03"], "pyscsi/pyiscsi/iscsi_device.py", "xferlen = len(cmd.dataout)", "xferlen = len(cmd.datain)"),
    V("c03-base-init-swapped", ["C03"], P + "scsi_command.py",
      "        self.dataout = bytearray(dataout_alloclen)\n        self.datain = bytearray(datain_alloclen)",
      "        self.dataout = bytearray(datain_alloclen)\n        self.datain = bytearray(dataout_alloclen)"),
    V("c03-write10-copy", ["C03"], P + "scsi_cdb_write10.py", "self.dataout = data\n", "self.dataout = bytearray(blocksize)\n"),
    V("c03-writesame16-none", ["C03"], P + "scsi_cdb_writesame16.py", "        if not ndob:\n            self.dataout = data",
      "        self.dataout = None if ndob else data", rule="buffer-is-bytes"),
    V("c03-readcd-small", ["C03"], P + "scsi_cdb_readcd.py", "tl * 3072", "tl * 2048"),
    V("c03-twin-hoist", ["C03", "C01"], P + "scsi_cdb_read16.py", "        SCSICommand.__init__(self, opcode, 0, blocksize * tl)",
      "        n = tl * blocksize\n        SCSICommand.__init__(self, opcode, 0, n)", expect="silent"),
    # ---- C01 ----------------------------------------------------------
    V("c01-ata16-lba-mask", ["C01", "C02"], P + "scsi_cdb_atapassthrough16.py", '"lba": [0xFFFFFFFFFFFF, 7]', '"lba": [0xFFFFFFFFFF, 7]',
      rule="field-position"),
    V("c01-reportluns-alloc-off", ["C01"], P + "scsi_cdb_report_luns.py", '"alloc_len": [0xFFFFFFFF, 6]', '"alloc_len": [0xFFFFFFFF, 5]'),
    V("c01-rdi-datatype-mask", ["C01"], P + "scsi_cdb_readdiscinformation.py", '"data_type": [0x07, 1]', '"data_type": [0x0E, 1]'),
    V("c01-movemedium-swap", ["C01"], P + "scsi_cdb_movemedium.py", "source_address=source,\n            destination_address=dest,",
      "source_address=dest,\n            destination_address=source,"),
    V("c01-reportluns-kw-typo", ["C01"], P + "scsi_cdb_report_luns.py", "select_report=report, alloc_len=alloclen",
      "select_report=report, alloclen=alloclen"),
    V("c01-ata16-shuffle", ["C01"], P + "scsi_cdb_atapassthrough16.py", "result += (lba & 0xFF) << 32", "result += (lba & 0xFF) << 40"),
    V("c01-ata12-shuffle", ["C01"], P + "scsi_cdb_atapassthrough12.py", "result += ((lba >> 8) & 0xFF) << 8", "result += ((lba >> 8) & 0xFF) << 16"),
    V("c01-init-cdb-len", ["C01", "C14"], P + "scsi_command.py", "cdb = bytearray(10)", "cdb = bytearray(12)"),
    V("c01-write16-group-high-bit", ["C01", "C02"], P + "scsi_cdb_write16.py", '"group": [0x1F, 14]', '"group": [0x0F, 14]', expect="silent",
      note="encode does not mask: a narrower mask with the same LSB position still puts in-range bits at the right place (C02 sees it)",
      expect_by={"C02": "fire"}),
    V("c01-sync16-immed-bit", ["C01"], P + "scsi_cdb_synchronize_cache16.py", '"immed": [0x02, 1]', '"immed": [0x04, 1]'),
    V("c01-prin-sa-swapped", ["C01"], P + "scsi_cdb_persistentreservein.py", "opcode.serviceaction.READ_FULL_STATUS, alloclen",
      "opcode.serviceaction.READ_RESERVATION, alloclen"),
    V("c01-twin-table-reorder", ["C01", "C02"], P + "scsi_cdb_read10.py", '        "dpo": [0x10, 1],\n        "fua": [0x08, 1],',
      '        "fua": [0x08, 1],\n        "dpo": [0x10, 1],', expect="silent"),
    V("c01-twin-mask-notation", ["C01", "C02"], P + "scsi_cdb_read10.py", '"lba": [0xFFFFFFFF, 2]', '"lba": [(1 << 32) - 1, 2]', expect="silent"),
    V("c01-twin-local-alias", ["C01", "C03"], P + "scsi_cdb_inquiry.py",
      "        SCSICommand.__init__(self, opcode, 0, alloclen)\n        self._evpd = evpd",
      "        n = alloclen\n        SCSICommand.__init__(self, opcode, 0, n)\n        self._evpd = evpd", expect="silent"),
]
