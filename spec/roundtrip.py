"""Reference: the value dictionaries of every structure the library can both
build and parse, as its parsers return them (field names = table keys plus the
structural keys documented in the parsers), with symbolic leaves.  Shapes
(descriptor counts, designator kinds, page kinds) are enumerated here; leaf
values are symbolic, so each case stands for all values of that shape."""
from pyscsi_sa.images import sym_blob
from pyscsi_sa.values import Sym
from pyscsi_sa.codec import spec_positions
from spec import tables as T

M = "pyscsi.pyscsi."


def leaves(origin, tag, skip=(), only=None, fixed=None):
    """one symbolic leaf per reference field of the table"""
    out = {}
    ref = T.TABLES[origin]
    for k, spec in ref["fields"].items():
        if k in skip or spec is None or (only is not None and k not in only):
            continue
        if spec[0] == "blob":
            out[k] = sym_blob((tag, k), spec[2] - spec[1] + 1)
        else:
            out[k] = Sym.param((tag, k), len(spec_positions(spec)))
    if fixed:
        out.update(fixed)
    return out


def S(tag, w):
    return Sym.param(tag, w)


INQ = M + "scsi_cdb_inquiry:Inquiry"
CASES = []


def case(name, cls, build, marshall="marshall_datain", unmarshall="unmarshall_datain", ukw=None, margs=None, uargs=None):
    CASES.append({"name": name, "cls": cls, "build": build, "marshall": marshall, "unmarshall": unmarshall, "ukw": ukw or {},
                  "margs": margs, "uargs": uargs})


RC10 = M + "scsi_cdb_readcapacity10:ReadCapacity10"
case("READ CAPACITY(10)", RC10, lambda: leaves(RC10 + "._datain_bits", "rc10"))
RC16 = M + "scsi_cdb_readcapacity16:ReadCapacity16"
case("READ CAPACITY(16)", RC16, lambda: leaves(RC16 + "._datain_bits", "rc16"))
GL = M + "scsi_cdb_getlbastatus:GetLBAStatus"
for n in (0, 1, 2):
    case("GET LBA STATUS, %d descriptors" % n, GL, lambda n=n: {"lbas": [leaves(GL + "._datain_bits", "lba%d" % i) for i in range(n)]})
RL = M + "scsi_cdb_report_luns:ReportLuns"
for n in (0, 1, 3):
    case("REPORT LUNS, %d LUNs" % n, RL, lambda n=n: {"luns": [{"lun%d" % i: S(("lun", i), 64)} for i in range(n)]})
RT = M + "scsi_cdb_report_target_port_groups:ReportTargetPortGroups"


def rtpg(ext, shape):
    d = {"format_type": 1 if ext else 0, "target_port_group_descriptors": []}
    if ext:
        d["implicit_transition_time"] = S("itt", 8)
    for g, nports in enumerate(shape):
        t = leaves(RT + "._tpgd_bits", "tpg%d" % g, fixed={"target_port_count": nports})
        t["target_ports"] = [{"relative_target_port_id": S(("rtpi", g, i), 16)} for i in range(nports)]
        d["target_port_group_descriptors"].append(t)
    return d


for ext in (False, True):
    for shape in ((), (1,), (2, 0, 1)):
        case("REPORT TARGET PORT GROUPS %s header, groups %r" % ("extended" if ext else "length-only", shape), RT,
             lambda ext=ext, shape=shape: rtpg(ext, shape))
RE = M + "scsi_cdb_readelementstatus:ReadElementStatus"
_TYPED = {1: None, 2: "_storage_descriptor_bits", 3: "_import_export_descriptor_bits", 4: "_data_transfer_descriptor_bits"}


def res(pages):
    d = leaves(RE + "._datain_bits", "res")
    d["element_status_pages"] = []
    for pi, (etype, pv, av, ndesc) in enumerate(pages):
        pg = {"element_type": etype, "pvoltag": pv, "avoltag": av, "element_descriptors": []}
        for di in range(ndesc):
            e = leaves(RE + "._element_status_descriptor_bits", "ed%d_%d" % (pi, di))
            if _TYPED[etype]:
                e.update(leaves(RE + "." + _TYPED[etype], "ed%d_%d" % (pi, di)))
            if pv:
                e["primary_volume_tag"] = sym_blob(("pvt", pi, di), 36)
            if av:
                e["alternate_volume_tag"] = sym_blob(("avt", pi, di), 36)
            pg["element_descriptors"].append(e)
        d["element_status_pages"].append(pg)
    return d


for pages in ([], [(2, 0, 0, 2)], [(1, 0, 0, 1), (4, 0, 0, 2)], [(3, 0, 0, 1)], [(2, 1, 0, 1)], [(4, 1, 1, 2)], [(3, 0, 1, 2)],
              [(2, 1, 0, 1), (4, 0, 0, 1), (3, 1, 1, 1)], [(2, 0, 1, 1), (4, 1, 0, 2)]):
    case("READ ELEMENT STATUS pages %r" % (pages,), RE, lambda pages=pages: res(pages))
# INQUIRY
_hdr = lambda tag: leaves(INQ + "._datain_bits", tag)
case("standard INQUIRY", INQ, lambda: dict(_hdr("inq"), **leaves(INQ + "._standard_bits", "inq")), ukw={"evpd": 0})
for code, tab in ((0xB2, "_logical_block_provisioning_bits"), (0xB3, "_referrals_bits"), (0x86, "_extended_bits")):
    case("INQUIRY VPD %02Xh" % code, INQ, lambda code=code, tab=tab: dict(_hdr("vpd"), page_code=code, **leaves(INQ + "." + tab, "vpd")), ukw={"evpd": 1})
for n in (0, 7, 20):
    case("INQUIRY VPD 80h, %d-byte serial" % n, INQ, lambda n=n: dict(_hdr("vpd"), page_code=0x80, unit_serial_number=sym_blob("serial", n)), ukw={"evpd": 1})
# sizes at which a length field's low byte wraps (255 / 256 / beyond): the two-byte PAGE LENGTH, the four-byte LUN LIST
# LENGTH and PARAMETER DATA LENGTH are honoured in full
for n in (251, 252, 255, 256, 300):
    case("INQUIRY VPD 80h, %d-byte serial" % n, INQ, lambda n=n: dict(_hdr("vpd"), page_code=0x80, unit_serial_number=sym_blob("serial", n)), ukw={"evpd": 1})
for n in (31, 32, 33):
    case("REPORT LUNS, %d LUNs" % n, RL, lambda n=n: {"luns": [{"lun%d" % i: S(("lun", i), 64)} for i in range(n)]})
for n in (15, 16):
    case("GET LBA STATUS, %d descriptors" % n, GL, lambda n=n: {"lbas": [leaves(GL + "._datain_bits", "lba%d" % i) for i in range(n)]})


def designator(kind):
    """(designator_type, value dictionary) for one designator kind"""
    if kind == "vendor":
        return 0, {"vendor_specific": sym_blob("vs", 6)}
    if kind == "t10":
        return 1, {"t10_vendor_id": sym_blob("t10", 8), "vendor_specific_id": sym_blob("vsid", 5)}
    if kind == "eui8":
        return 2, {"ieee_company_id": S("oui", 24), "vendor_specific_extension_id": sym_blob("vsx", 5)}
    if kind == "eui12":
        return 2, {"ieee_company_id": S("oui", 24), "vendor_specific_extension_id": sym_blob("vsx", 5), "directory_id": sym_blob("dir", 4)}
    if kind == "eui16":
        return 2, {"identifier_extension": sym_blob("idx", 8), "ieee_company_id": S("oui", 24), "vendor_specific_extension_id": sym_blob("vsx", 5)}
    if kind.startswith("naa"):
        n = int(kind[3:])
        tab = {2: "_naa_ieee_extended_bits", 3: "_naa_locally_assigned_bits", 5: "_naa_ieee_registered_bits", 6: "_naa_ieee_registered_extended_bits"}[n]
        return 3, dict(leaves(INQ + "." + tab, "naa"), naa=n)
    if kind == "relport":
        return 4, leaves(INQ + "._relative_port_bits", "d")
    if kind == "tpg":
        return 5, leaves(INQ + "._target_portal_group_bits", "d")
    if kind == "lug":
        return 6, leaves(INQ + "._logical_unit_group_bits", "d")
    if kind == "md5":
        return 7, {"md5_logical_identifier": sym_blob("md5", 16)}
    if kind == "name":
        return 8, {"scsi_name_string": sym_blob("nm", 12)}
    if kind == "pci":
        return 9, leaves(INQ + "._pci_express_routing_id_bits", "d")
    raise ValueError(kind)


DESIGNATOR_KINDS = ["vendor", "t10", "eui8", "eui12", "eui16", "naa2", "naa3", "naa5", "naa6", "relport", "tpg", "lug", "md5", "name", "pci"]


def vpd83(kinds):
    d = dict(_hdr("vpd"), page_code=0x83, designator_descriptors=[])
    for i, k in enumerate(kinds):
        t, val = designator(k)
        d["designator_descriptors"].append({"protocol_identifier": S(("pid", i), 4), "code_set": S(("cs", i), 4), "piv": 1, "association": 1,
                                            "designator_type": t, "designator": val})
    return d


for k in DESIGNATOR_KINDS:
    case("INQUIRY VPD 83h designator %s" % k, INQ, lambda k=k: vpd83([k]), ukw={"evpd": 1})
case("INQUIRY VPD 83h three designators", INQ, lambda: vpd83(["naa5", "t10", "relport"]), ukw={"evpd": 1})
case("INQUIRY VPD 83h no designators", INQ, lambda: vpd83([]), ukw={"evpd": 1})
# MODE parameter data
MS = M + "scsi_enum_modesense:"
_PAGES = {"control": (0x0A, None, "control_bits"), "control extension": (0x0A, 1, "control_extension_1_bits"),
          "disconnect-reconnect": (0x02, None, "disconnect_reconnect_bits"), "element address assignment": (0x1D, None, "element_address_bits")}
for cls, hdr in ((M + "scsi_cdb_modesense6:ModeSense6", "mode_parameter_header6_bits"), (M + "scsi_cdb_modesense10:ModeSense10", "mode_parameter_header10_bits")):
    for pname, (code, sub, tab) in _PAGES.items():
        def mk(hdr=hdr, code=code, sub=sub, tab=tab):
            pg = dict(leaves(MS + tab, "pg"), ps=S("ps", 1), spf=1 if sub is not None else 0, page_code=code)
            if sub is not None:
                pg["sub_page_code"] = sub
            return dict(leaves(MS + hdr, "hdr"), mode_pages=[pg])
        case("%s %s page" % (cls.split(":")[1], pname), cls, mk)
    # several mode pages in one response (page code 3Fh asks for all of them)
    def mk2(hdr=hdr):
        pgs = []
        for i, (code, sub, tab) in enumerate((_PAGES["control"], _PAGES["disconnect-reconnect"])):
            pgs.append(dict(leaves(MS + tab, "pg%d" % i), ps=S(("ps", i), 1), spf=0, page_code=code))
        return dict(leaves(MS + hdr, "hdr"), mode_pages=pgs)
    case("%s two mode pages (control, disconnect-reconnect)" % cls.split(":")[1], cls, mk2)
# TransportID
FS = M + "scsi_cdb_persistentreservein:PersistentReserveInReadFullStatus"


def tid(proto, **kw):
    d = {"tpid_format": kw.pop("fmt", 0), "protocol_id": proto}
    d.update(kw)
    return d


for name, mk in (("FCP", lambda: tid(0, n_port_name=sym_blob("npn", 8))), ("IEEE 1394", lambda: tid(3, eui64_name=sym_blob("eui", 8))),
                 ("RDMA", lambda: tid(4, initiator_port_identifier=sym_blob("ipi", 16))), ("SAS", lambda: tid(6, sas_address=sym_blob("sas", 8))),
                 ("SOP", lambda: tid(0x0A, routing_id=sym_blob("rid", 8)))):
    case("TransportID %s" % name, FS, mk, marshall="marshall_transport_id", unmarshall="unmarshall_transport_id")
for nm in ("iqn.a", "iqn.ab", "iqn.abc", "iqn.abcd", "iqn.1993-08.org.debian:01:0123456789ab"):
    case("TransportID iSCSI name of %d characters" % len(nm), FS, lambda nm=nm: tid(5, iscsi_name=nm),
         marshall="marshall_transport_id", unmarshall="unmarshall_transport_id")
    case("TransportID iSCSI name of %d characters with session id" % len(nm), FS,
         lambda nm=nm: tid(5, fmt=1, iscsi_name=nm, iscsi_initiator_session_id="00023d000001"),
         marshall="marshall_transport_id", unmarshall="unmarshall_transport_id")


# ---- deeper shapes (thorough tier) ------------------------------------------
MORE_CASES = []
_saved = CASES
CASES = MORE_CASES
for n in (3, 5, 9):
    case("GET LBA STATUS, %d descriptors" % n, GL, lambda n=n: {"lbas": [leaves(GL + "._datain_bits", "lba%d" % i) for i in range(n)]})
for n in (2, 8, 17):
    case("REPORT LUNS, %d LUNs" % n, RL, lambda n=n: {"luns": [{"lun%d" % i: S(("lun", i), 64)} for i in range(n)]})
for ext in (False, True):
    for shape in ((0,), (3, 3, 1, 0, 2), (1, 1, 1, 1, 1, 1), (7,)):
        case("REPORT TARGET PORT GROUPS %s header, groups %r" % ("extended" if ext else "length-only", shape), RT,
             lambda ext=ext, shape=shape: rtpg(ext, shape))
for pages in ([(1, 0, 0, 3), (2, 1, 1, 2), (3, 0, 1, 1), (4, 1, 0, 4)], [(2, 0, 0, 0)], [(2, 0, 0, 6)], [(4, 0, 0, 1)] * 3):
    case("READ ELEMENT STATUS pages %r" % (pages,), RE, lambda pages=pages: res(pages))
case("INQUIRY VPD 83h all designator kinds", INQ, lambda: vpd83(DESIGNATOR_KINDS), ukw={"evpd": 1})
case("INQUIRY VPD 83h eight NAA designators", INQ, lambda: vpd83(["naa2", "naa3", "naa5", "naa6"] * 2), ukw={"evpd": 1})
for n in range(1, 37, 5):
    case("INQUIRY VPD 80h, %d-byte serial" % n, INQ, lambda n=n: dict(_hdr("vpd"), page_code=0x80, unit_serial_number=sym_blob("serial", n)), ukw={"evpd": 1})
for ln in range(1, 41):
    nm = "iqn." + "x" * ln
    case("TransportID iSCSI name of %d characters" % len(nm), FS, lambda nm=nm: tid(5, iscsi_name=nm),
         marshall="marshall_transport_id", unmarshall="unmarshall_transport_id")
CASES = _saved
