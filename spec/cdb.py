"""Reference: CDB layouts of the 42 command classes, in the standards' own
coordinates (SPC-4/5, SBC-3, SMC-3, MMC-6, SAT-3), hand-written from the
review in notes/layout-review.md -- *not* derived from the library's tables.

Position notation (how the standards draw their tables):
    (byte, msb, lsb)                       a field inside one byte
    (first_byte, msb, last_byte, lsb)      a multi-byte field, big-endian
Sources:
    P(name)            the whole constructor parameter ``name``, MSB first
    PB(name, hi, lo)   bits hi..lo of parameter ``name``
    OPC                opcode.value of the OpCode object passed in
    SA(NAME)           the T10 service action of that name (value from spec/opcodes.py)
    LEN_OUT            len(cmd.dataout)
    K(v)               the constant v
Argument domains (how the analysis instantiates a parameter):
    B(n)   any n-bit integer (symbolic)         E(v...)  each listed value
    NZ(n)  any non-zero n-bit integer           DATA     a caller byte buffer
    NONE   None                                 DICT / LIST  fixed dictionaries / lists given below
Data-phase rules (C03):
    ("none",)  ("alloc", param)  ("fixed-in", param)  ("blocks-in", bs, n)
    ("blocks-out", bs, n, data)  ("one-block-out", bs, data, ndob_param|None)
    ("param-list",)  ("readcd", n, min_bytes_per_sector)  ("ata",)
"""


def W(first, last):
    return (first, 7, last, 0)


def P(name):
    return ("param", name)


def PB(name, hi, lo):
    return ("param_bits", name, hi, lo)


OPC = ("opcode",)
LEN_OUT = ("len_dataout",)


def SA(name):
    return ("sa", name)


def K(v):
    return ("const", v)


def B(n):
    return ("bits", n)


def NZ(n):
    return ("nz", n)


def E(*vals):
    return ("enum", list(vals))


DATA = ("data",)
NONE = ("enum", [None])

M = "pyscsi.pyscsi."

_RW_BYTE1 = lambda prot: [((1, 7, 5), P(prot)), ((1, 4, 4), P("dpo")), ((1, 3, 3), P("fua"))]

CDB = {}


def cmd(key, names, fields, args, data, cls_opcode=None, refuse_when=None, kwargs_only=()):
    CDB[M + key] = {"names": names, "fields": [((0, 7, 0), OPC)] + fields, "args": args, "data": data,
                    "refuse_when": refuse_when}


cmd("scsi_cdb_testunitready:TestUnitReady", ["TEST_UNIT_READY"], [], [], ("none",))
cmd("scsi_cdb_inquiry:Inquiry", ["INQUIRY"],
    [((1, 0, 0), P("evpd")), ((2, 7, 0), P("page_code")), (W(3, 4), P("alloclen"))],
    [("evpd", B(1)), ("page_code", B(8)), ("alloclen", B(16))], ("alloc", "alloclen"))
cmd("scsi_cdb_modesense6:ModeSense6", ["MODE_SENSE_6"],
    [((1, 3, 3), P("dbd")), ((2, 7, 6), P("pc")), ((2, 5, 0), P("page_code")), ((3, 7, 0), P("sub_page_code")),
     ((4, 7, 0), P("alloclen"))],
    [("page_code", B(6)), ("sub_page_code", B(8)), ("dbd", B(1)), ("pc", B(2)), ("alloclen", B(8))],
    ("alloc", "alloclen"))
cmd("scsi_cdb_modesense10:ModeSense10", ["MODE_SENSE_10"],
    [((1, 4, 4), P("llbaa")), ((1, 3, 3), P("dbd")), ((2, 7, 6), P("pc")), ((2, 5, 0), P("page_code")),
     ((3, 7, 0), P("sub_page_code")), (W(7, 8), P("alloclen"))],
    [("page_code", B(6)), ("sub_page_code", B(8)), ("llbaa", B(1)), ("dbd", B(1)), ("pc", B(2)), ("alloclen", B(16))],
    ("alloc", "alloclen"))
_MODE_DATA = {"medium_type": 0, "device_specific_parameter": 0, "block_descriptor_length": 0, "mode_pages": []}
cmd("scsi_cdb_modesense6:ModeSelect6", ["MODE_SELECT_6"],
    [((1, 4, 4), P("pf")), ((1, 0, 0), P("sp")), ((4, 7, 0), LEN_OUT)],
    [("data", ("dict", _MODE_DATA)), ("pf", B(1)), ("sp", B(1))], ("param-list",))
cmd("scsi_cdb_modesense10:ModeSelect10", ["MODE_SELECT_10"],
    [((1, 4, 4), P("pf")), ((1, 0, 0), P("sp")), (W(7, 8), LEN_OUT)],
    [("data", ("dict", _MODE_DATA)), ("pf", B(1)), ("sp", B(1))], ("param-list",))
cmd("scsi_cdb_preventallow_mediumremoval:PreventAllowMediumRemoval", ["PREVENT_ALLOW_MEDIUM_REMOVAL"],
    [((4, 1, 0), P("prevent"))], [("prevent", B(2))], ("none",))
# SBC READ / WRITE
cmd("scsi_cdb_read10:Read10", ["READ_10"],
    _RW_BYTE1("rdprotect") + [((1, 2, 2), P("rarc")), (W(2, 5), P("lba")), ((6, 4, 0), P("group")), (W(7, 8), P("tl"))],
    [("blocksize", NZ(32)), ("lba", B(32)), ("tl", B(16)), ("rdprotect", B(3)), ("dpo", B(1)), ("fua", B(1)),
     ("rarc", B(1)), ("group", B(5))], ("blocks-in", "blocksize", "tl"))
cmd("scsi_cdb_read12:Read12", ["READ_12"],
    _RW_BYTE1("rdprotect") + [((1, 2, 2), P("rarc")), (W(2, 5), P("lba")), (W(6, 9), P("tl")), ((10, 4, 0), P("group"))],
    [("blocksize", NZ(32)), ("lba", B(32)), ("tl", B(32)), ("rdprotect", B(3)), ("dpo", B(1)), ("fua", B(1)),
     ("rarc", B(1)), ("group", B(5))], ("blocks-in", "blocksize", "tl"))
cmd("scsi_cdb_read16:Read16", ["READ_16"],
    _RW_BYTE1("rdprotect") + [((1, 2, 2), P("rarc")), (W(2, 9), P("lba")), (W(10, 13), P("tl")), ((14, 4, 0), P("group"))],
    [("blocksize", NZ(32)), ("lba", B(64)), ("tl", B(32)), ("rdprotect", B(3)), ("dpo", B(1)), ("fua", B(1)),
     ("rarc", B(1)), ("group", B(5))], ("blocks-in", "blocksize", "tl"))
cmd("scsi_cdb_write10:Write10", ["WRITE_10"],
    _RW_BYTE1("wrprotect") + [(W(2, 5), P("lba")), ((6, 4, 0), P("group")), (W(7, 8), P("tl"))],
    [("blocksize", NZ(32)), ("lba", B(32)), ("tl", B(16)), ("data", DATA), ("wrprotect", B(3)), ("dpo", B(1)),
     ("fua", B(1)), ("group", B(5))], ("blocks-out", "blocksize", "tl", "data"))
cmd("scsi_cdb_write12:Write12", ["WRITE_12"],
    _RW_BYTE1("wrprotect") + [(W(2, 5), P("lba")), (W(6, 9), P("tl")), ((10, 4, 0), P("group"))],
    [("blocksize", NZ(32)), ("lba", B(32)), ("tl", B(32)), ("data", DATA), ("wrprotect", B(3)), ("dpo", B(1)),
     ("fua", B(1)), ("group", B(5))], ("blocks-out", "blocksize", "tl", "data"))
cmd("scsi_cdb_write16:Write16", ["WRITE_16"],
    _RW_BYTE1("wrprotect") + [(W(2, 9), P("lba")), (W(10, 13), P("tl")), ((14, 4, 0), P("group"))],
    [("blocksize", NZ(32)), ("lba", B(64)), ("tl", B(32)), ("data", DATA), ("wrprotect", B(3)), ("dpo", B(1)),
     ("fua", B(1)), ("group", B(5))], ("blocks-out", "blocksize", "tl", "data"))
cmd("scsi_cdb_writesame10:WriteSame10", ["WRITE_SAME_10"],
    [((1, 7, 5), P("wrprotect")), ((1, 4, 4), P("anchor")), ((1, 3, 3), P("unmap")), (W(2, 5), P("lba")),
     ((6, 4, 0), P("group")), (W(7, 8), P("nb"))],
    [("blocksize", NZ(32)), ("lba", B(32)), ("nb", B(16)), ("data", DATA), ("wrprotect", B(3)), ("anchor", B(1)),
     ("unmap", B(1)), ("group", B(5))], ("one-block-out", "blocksize", "data", None))
cmd("scsi_cdb_writesame16:WriteSame16", ["WRITE_SAME_16"],
    [((1, 7, 5), P("wrprotect")), ((1, 4, 4), P("anchor")), ((1, 3, 3), P("unmap")), ((1, 0, 0), P("ndob")),
     (W(2, 9), P("lba")), (W(10, 13), P("nb")), ((14, 4, 0), P("group"))],
    [("blocksize", NZ(32)), ("lba", B(64)), ("nb", B(32)), ("data", DATA), ("wrprotect", B(3)), ("anchor", B(1)),
     ("unmap", B(1)), ("ndob", E(0, 1)), ("group", B(5))], ("one-block-out", "blocksize", "data", "ndob"))
cmd("scsi_cdb_synchronize_cache10:SynchronizeCache10", ["SYNCHRONIZE_CACHE_10"],
    [((1, 1, 1), P("immed")), (W(2, 5), P("lba")), ((6, 4, 0), P("group")), (W(7, 8), P("numblks"))],
    [("lba", B(32)), ("numblks", B(16)), ("immed", B(1)), ("group", B(5))], ("none",))
cmd("scsi_cdb_synchronize_cache16:SynchronizeCache16", ["SYNCHRONIZE_CACHE_16"],
    [((1, 1, 1), P("immed")), (W(2, 9), P("lba")), (W(10, 13), P("numblks")), ((14, 4, 0), P("group"))],
    [("lba", B(64)), ("numblks", B(32)), ("immed", B(1)), ("group", B(5))], ("none",))
cmd("scsi_cdb_readcapacity10:ReadCapacity10", ["READ_CAPACITY_10"], [], [("alloclen", B(16))], ("fixed-in", "alloclen"))
cmd("scsi_cdb_readcapacity16:ReadCapacity16", ["*_OPCODE_9E"],
    [((1, 4, 0), SA("READ_CAPACITY_16")), (W(10, 13), P("alloclen"))], [("alloclen", B(32))], ("alloc", "alloclen"))
cmd("scsi_cdb_getlbastatus:GetLBAStatus", ["*_OPCODE_9E"],
    [((1, 4, 0), SA("GET_LBA_STATUS")), (W(2, 9), P("lba")), (W(10, 13), P("alloclen"))],
    [("lba", B(64)), ("alloclen", B(32))], ("alloc", "alloclen"))
# SPC
cmd("scsi_cdb_report_luns:ReportLuns", ["REPORT_LUNS"],
    [((2, 7, 0), P("report")), (W(6, 9), P("alloclen"))], [("report", B(8)), ("alloclen", B(32))], ("alloc", "alloclen"))
cmd("scsi_cdb_report_priority:ReportPriority", ["*_OPCODE_A3"],
    [((1, 4, 0), SA("REPORT_PRIORITY")), ((2, 7, 6), P("priority")), (W(6, 9), P("alloclen"))],
    [("priority", B(2)), ("alloclen", B(32))], ("alloc", "alloclen"))
cmd("scsi_cdb_report_target_port_groups:ReportTargetPortGroups", ["*_OPCODE_A3"],
    [((1, 7, 5), P("data_format")), ((1, 4, 0), SA("REPORT_TARGET_PORT_GROUPS")), (W(6, 9), P("alloclen"))],
    [("data_format", B(3)), ("alloclen", B(32))], ("alloc", "alloclen"))
cmd("scsi_cdb_persistentreservein:PersistentReserveIn", ["PERSISTENT_RESERVE_IN"],
    [((1, 4, 0), P("service_action")), (W(7, 8), P("alloclen"))],
    [("service_action", B(5)), ("alloclen", B(16))], ("alloc", "alloclen"))
for _cls, _sa in (("PersistentReserveInReadKeys", "READ_KEYS"), ("PersistentReserveInReadReservation", "READ_RESERVATION"),
                  ("PersistentReserveInReportCapabilities", "REPORT_CAPABILITIES"),
                  ("PersistentReserveInReadFullStatus", "READ_FULL_STATUS")):
    cmd("scsi_cdb_persistentreservein:" + _cls, ["PERSISTENT_RESERVE_IN"],
        [((1, 4, 0), SA(_sa)), (W(7, 8), P("alloclen"))], [("alloclen", B(16))], ("alloc", "alloclen"))
cmd("scsi_cdb_persistentreserveout:PersistentReserveOut", ["PERSISTENT_RESERVE_OUT"],
    [((1, 4, 0), P("service_action")), ((2, 7, 4), P("scope")), ((2, 3, 0), P("pr_type")), (W(5, 8), LEN_OUT)],
    [("service_action", B(5)), ("scope", B(4)), ("pr_type", B(4))], ("param-list",))
cmd("scsi_cdb_extended_copy_spc4:ExtendedCopy", ["EXTENDED_COPY"],
    [((1, 4, 0), K(0x00)), (W(10, 13), LEN_OUT)], [], ("param-list",))
cmd("scsi_cdb_extended_copy_spc5:ExtendedCopy", ["EXTENDED_COPY"],
    [((1, 4, 0), K(0x01)), (W(10, 13), LEN_OUT)], [], ("param-list",))
# SAT
_ATA_B2 = [((2, 7, 6), P("off_line")), ((2, 5, 5), P("ck_cond")), ((2, 4, 4), P("t_type")), ((2, 3, 3), P("t_dir")),
           ((2, 2, 2), P("byte_block")), ((2, 1, 0), P("t_length"))]
_ATA_ARGS = lambda fw, lw: [("protocal", B(4)), ("t_length", E(0, 1, 2, 3)), ("byte_block", E(0, 1)), ("t_dir", E(0, 1)),
                            ("t_type", E(0, 1)), ("off_line", B(2)), ("fetures", B(fw)), ("count", B(fw)), ("lba", B(lw)),
                            ("command", B(8)), ("blocksize", ("choice", [E(0), NZ(32)])),
                            ("extra_tl", ("choice", [NONE, B(16)])), ("ck_cond", B(1)), ("device", B(8)),
                            ("control", B(8)), ("data", ("choice", [NONE, DATA]))]
cmd("scsi_cdb_atapassthrough12:ATAPassThrough12", ["ATA_PASS_THROUGH_12"],
    [((1, 4, 1), P("protocal"))] + _ATA_B2 +
    [((3, 7, 0), P("fetures")), ((4, 7, 0), P("count")), ((5, 7, 0), PB("lba", 7, 0)), ((6, 7, 0), PB("lba", 15, 8)),
     ((7, 7, 0), PB("lba", 23, 16)), ((8, 7, 0), P("device")), ((9, 7, 0), P("command")), ((11, 7, 0), P("control"))],
    _ATA_ARGS(8, 24), ("ata",))
cmd("scsi_cdb_atapassthrough16:ATAPassThrough16", ["ATA_PASS_THROUGH_16"],
    [((1, 4, 1), P("protocal")), ((1, 0, 0), P("extend"))] + _ATA_B2 +
    [(W(3, 4), P("fetures")), (W(5, 6), P("count")),
     ((7, 7, 0), PB("lba", 31, 24)), ((8, 7, 0), PB("lba", 7, 0)), ((9, 7, 0), PB("lba", 39, 32)),
     ((10, 7, 0), PB("lba", 15, 8)), ((11, 7, 0), PB("lba", 47, 40)), ((12, 7, 0), PB("lba", 23, 16)),
     ((13, 7, 0), P("device")), ((14, 7, 0), P("command")), ((15, 7, 0), P("control"))],
    _ATA_ARGS(16, 48) + [("extend", B(1))], ("ata",))
# SMC
cmd("scsi_cdb_exchangemedium:ExchangeMedium", ["EXCHANGE_MEDIUM"],
    [(W(2, 3), P("xfer")), (W(4, 5), P("source")), (W(6, 7), P("dest1")), (W(8, 9), P("dest2")),
     ((10, 1, 1), P("inv1")), ((10, 0, 0), P("inv2"))],
    [("xfer", B(16)), ("source", B(16)), ("dest1", B(16)), ("dest2", B(16)), ("inv1", B(1)), ("inv2", B(1))], ("none",))
cmd("scsi_cdb_movemedium:MoveMedium", ["MOVE_MEDIUM"],
    [(W(2, 3), P("xfer")), (W(4, 5), P("source")), (W(6, 7), P("dest")), ((10, 0, 0), P("invert"))],
    [("xfer", B(16)), ("source", B(16)), ("dest", B(16)), ("invert", B(1))], ("none",))
cmd("scsi_cdb_positiontoelement:PositionToElement", ["POSITION_TO_ELEMENT"],
    [(W(2, 3), P("xfer")), (W(4, 5), P("dest")), ((8, 0, 0), P("invert"))],
    [("xfer", B(16)), ("dest", B(16)), ("invert", B(1))], ("none",))
cmd("scsi_cdb_initelementstatus:InitializeElementStatus", ["INITIALIZE_ELEMENT_STATUS"], [], [], ("none",))
cmd("scsi_cdb_initelementstatuswithrange:InitializeElementStatusWithRange", ["INITIALIZE_ELEMENT_STATUS_WITH_RANGE"],
    [((1, 1, 1), P("fast")), ((1, 0, 0), P("rng")), (W(2, 3), P("xfer")), (W(6, 7), P("elements"))],
    [("xfer", B(16)), ("elements", B(16)), ("rng", B(1)), ("fast", B(1))], ("none",))
cmd("scsi_cdb_readelementstatus:ReadElementStatus", ["READ_ELEMENT_STATUS"],
    [((1, 4, 4), P("voltag")), ((1, 3, 0), P("element_type")), (W(2, 3), P("start")), (W(4, 5), P("num")),
     ((6, 1, 1), P("curdata")), ((6, 0, 0), P("dvcid")), (W(7, 9), P("alloclen"))],
    [("start", B(16)), ("num", B(16)), ("element_type", B(4)), ("voltag", B(1)), ("curdata", B(1)), ("dvcid", B(1)),
     ("alloclen", B(24))], ("alloc", "alloclen"))
cmd("scsi_cdb_openclose_exportimport_element:OpenCloseImportExportElement", ["OPEN_CLOSE_IMPORT_EXPORT_ELEMENT"],
    [(W(2, 3), P("xfer")), ((4, 4, 0), P("acode"))], [("xfer", B(16)), ("acode", B(5))], ("none",))
# MMC
cmd("scsi_cdb_readcd:ReadCd", ["READ_CD"],
    [((1, 4, 2), P("est")), ((1, 1, 1), P("dap")), (W(2, 5), P("lba")), (W(6, 8), P("tl")), ((9, 7, 3), P("mcsb")),
     ((9, 2, 1), P("c2ei")), ((10, 2, 0), P("scsb"))],
    [("lba", B(32)), ("tl", B(24)), ("est", B(3)), ("dap", B(1)), ("mcsb", B(5)), ("c2ei", B(2)), ("scsb", B(3))],
    ("readcd", "tl", 2744))
cmd("scsi_cdb_readdiscinformation:ReadDiscInformation", ["READ_DISC_INFORMATION"],
    [((1, 2, 0), P("data_type")), (W(7, 8), P("alloc_len"))], [("data_type", B(3)), ("alloc_len", B(16))],
    ("alloc", "alloc_len"))
