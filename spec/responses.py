"""Reference: how each response format is laid out *around* its tables -- where
the length field sits and from which byte it counts, where descriptors start,
how far apart they are, which table applies where and under which code --
written from the standards (notes/layout-review.md), in this vocabulary:

    ABS(k)                 byte k of the response
    LOOP(i, k)             byte k of the current descriptor of loop i (0 = outermost, by nesting then source order)
    DYN(parent, E, k)      k bytes after ``parent + E``
    E(c, F(pos, n), ...)   c + the big-endian n-byte field(s) at pos
    window(i, start, anchor, E)  loop i walks bytes [start, anchor + E)
    stride(i, ...)         how far loop i advances per descriptor: a constant, E(...) or ATLEAST(k)
    site(table, pos, [conds])   the table is applied at pos, necessarily under conds
    cond: BYTE(pos, value)  the field whose first byte is pos equals value;  PARAM(name, 'eq'|'ne', v)

A decoder that lacks an expected fact is reported; facts the library has beyond
these are listed in evidence only (behaviour on undefined combinations is not
constrained)."""

M = "pyscsi.pyscsi."


def ABS(k):
    return ("abs", k)


def LOOP(i, k):
    return ("loop", i, k)


def F(pos, n, coeff=1):
    return (coeff, pos, n)


def E(c, *fields):
    return ("expr", c, tuple(sorted(fields)), ())


def DYN(parent, e, k):
    return ("dyn", parent, e, k)


def window(i, start, anchor, e):
    return ("window", i, start, (anchor, e))


def stride(i, v):
    if isinstance(v, int):
        return ("stride", i, ("const", v))
    if v[0] == "atleast":
        return ("stride", i, v)
    # a dynamic stride is reported as const part + list of added lengths
    return ("stride", i, ("expr", 0, (v,)))


def stride_c(i, c, e):
    return ("stride", i, ("expr", c, (e,)))


def ATLEAST(k):
    return ("atleast", k)


def BYTE(pos, value, msb=None, lsb=None):
    """the field that starts at bit ``msb`` of byte ``pos`` and ends at bit ``lsb`` (of its last byte) equals value;
    None = any extent"""
    return ("byte", pos, value, msb, lsb)


def PARAM(name, op, v):
    return ("param", name, op, v)


def site(table, pos, conds=()):
    return ("site", table, pos, tuple(conds))


def read(pos, n):
    return ("read", pos, n)


def TO(anchor, e):
    """an extent that runs up to byte ``anchor + e``"""
    return ("to", anchor, e)


def blob(key, pos, extents, conds=()):
    """the bytes from pos are reported whole under ``key``; extents: the acceptable ways to say how far (a byte count
    and / or TO(...) -- equal for a response laid out as the standard prescribes)"""
    if not isinstance(extents, (list, tuple)) or (extents and extents[0] == "to"):
        extents = [extents]
    ex = tuple(("const", x) if isinstance(x, int) else x for x in extents)
    return ("blob", key, pos, ex, tuple(conds))


DECODERS = {}


def D(cls, facts, func="unmarshall_datain", kwargs=None, allowed_strides=()):
    DECODERS[M + cls + "." + func] = {"cls": M + cls, "func": func, "facts": facts, "kwargs": kwargs,
                                      "allowed": list(allowed_strides)}


T = lambda mod, name: M + mod + ":" + name

GL = "scsi_cdb_getlbastatus:GetLBAStatus"
D(GL, [window(0, ABS(8), ABS(0), E(4, F(ABS(0), 4))), stride(0, 16), site(M + GL + "._datain_bits", LOOP(0, 0))])
RL = "scsi_cdb_report_luns:ReportLuns"
D(RL, [window(0, ABS(8), ABS(0), E(8, F(ABS(0), 4))), stride(0, 8), site(M + RL + "._datain_bits", LOOP(0, 0))])
RT = "scsi_cdb_report_target_port_groups:ReportTargetPortGroups"
D(RT, [window(0, ABS(4), ABS(0), E(4, F(ABS(0), 4))),           # length-only header: descriptors from byte 4
       window(0, ABS(8), ABS(0), E(4, F(ABS(0), 4))),           # extended header: from byte 8
       site(M + RT + "._ext_hdr_bits", ABS(4)), site(M + RT + "._tpgd_bits", LOOP(0, 0)),
       stride(0, ATLEAST(8)), stride(1, 4), read(LOOP(1, 2), 2)])
RP = "scsi_cdb_report_priority:ReportPriority"
D(RP, [window(0, ABS(4), ABS(0), E(4, F(ABS(0), 4))), site(M + RP + "._data_bits", LOOP(0, 0)),
       stride(0, E(8, F(LOOP(0, 6), 2)))])
RE = "scsi_cdb_readelementstatus:ReadElementStatus"
D(RE, [site(M + RE + "._datain_bits", ABS(0)),
       window(0, ABS(8), ABS(0), E(8, F(ABS(5), 3))), stride(0, E(8, F(LOOP(0, 5), 3))),
       site(M + RE + "._element_status_page_bits", LOOP(0, 0)),
       window(1, LOOP(0, 8), LOOP(0, 0), E(8, F(LOOP(0, 5), 3))), stride(1, E(0, F(LOOP(0, 2), 2))),
       site(M + RE + "._element_status_descriptor_bits", LOOP(1, 0)),
       site(M + RE + "._data_transfer_descriptor_bits", LOOP(1, 0), [BYTE(LOOP(0, 0), 4)]),
       site(M + RE + "._storage_descriptor_bits", LOOP(1, 0), [BYTE(LOOP(0, 0), 2)]),
       site(M + RE + "._import_export_descriptor_bits", LOOP(1, 0), [BYTE(LOOP(0, 0), 3)]),
       # SMC-3 6.12: PVOLTAG / AVOLTAG (byte 1 bits 7 / 6 of the page header) say which 36-byte volume tag fields follow
       # the first 12 bytes of each descriptor, primary first
       blob("primary_volume_tag", LOOP(1, 12), 36, [BYTE(LOOP(0, 1), 1, 7, 7)]),
       blob("alternate_volume_tag", LOOP(1, 12), 36, [BYTE(LOOP(0, 1), 0, 7, 7), BYTE(LOOP(0, 1), 1, 6, 6)]),
       blob("alternate_volume_tag", LOOP(1, 48), 36, [BYTE(LOOP(0, 1), 1, 7, 7), BYTE(LOOP(0, 1), 1, 6, 6)])])
PI = "scsi_cdb_persistentreservein:"
D(PI + "PersistentReserveInReadKeys", [read(ABS(0), 4), read(ABS(4), 4), window(0, ABS(8), ABS(0), E(8, F(ABS(4), 4))), stride(0, 8),
                                       read(LOOP(0, 0), 8)])
D(PI + "PersistentReserveInReadReservation", [read(ABS(0), 4), read(ABS(4), 4),
                                              site(M + PI + "PersistentReserveInReadReservation._bits", ABS(0), [BYTE(ABS(4), 16, 7, 0)])])
D(PI + "PersistentReserveInReportCapabilities", [site(M + PI + "PersistentReserveInReportCapabilities._bits", ABS(0)),
                                                 site(M + PI + "PersistentReserveInReportCapabilities._pr_type_mask_bits", ABS(0), [BYTE(ABS(0), 8, 7, 0)])])
FS = PI + "PersistentReserveInReadFullStatus"
D(FS, [read(ABS(0), 4), read(ABS(4), 4), window(0, ABS(8), ABS(0), E(8, F(ABS(4), 4))),
       site(M + FS + "._full_status_desc_bits", LOOP(0, 0)), site(M + FS + "._transport_id_bits", LOOP(0, 24)),
       stride_c(0, 24, E(0, F(LOOP(0, 20), 4))),
       blob("n_port_name", LOOP(0, 32), 8, [BYTE(LOOP(0, 24), 0, 3, 0)]),                   # FCP: N_PORT_NAME bytes 8..15
       blob("eui64_name", LOOP(0, 32), 8, [BYTE(LOOP(0, 24), 3, 3, 0)]),                    # SBP: EUI-64 NAME bytes 8..15
       blob("initiator_port_identifier", LOOP(0, 32), 16, [BYTE(LOOP(0, 24), 4, 3, 0)]),    # SRP: bytes 8..23
       blob("sas_address", LOOP(0, 28), 8, [BYTE(LOOP(0, 24), 6, 3, 0)]),                   # SAS: SAS ADDRESS bytes 4..11
       blob("routing_id", LOOP(0, 26), 2, [BYTE(LOOP(0, 24), 0x0A, 3, 0)])],                # SOP: ROUTING ID bytes 2..3
  allowed_strides=[("const", 24)])
D("scsi_cdb_readcapacity10:ReadCapacity10", [site(M + "scsi_cdb_readcapacity10:ReadCapacity10._datain_bits", ABS(0))])
D("scsi_cdb_readcapacity16:ReadCapacity16", [site(M + "scsi_cdb_readcapacity16:ReadCapacity16._datain_bits", ABS(0))])
RD = "scsi_cdb_readdiscinformation:ReadDiscInformation"
D(RD, [site(M + RD + "._sdi_bits", ABS(0), [BYTE(ABS(2), 0, 7, 5)]), site(M + RD + "._tri_bits", ABS(0), [BYTE(ABS(2), 1, 7, 5)]),
       site(M + RD + "._pow_bits", ABS(0), [BYTE(ABS(2), 2, 7, 5)]),
       # MMC-6 6.21.4 standard disc information
       blob("last_session_lead_in_start_address", ABS(16), 4, [BYTE(ABS(2), 0, 7, 5)]),
       blob("last_possible_lead_out_start_address", ABS(20), 4, [BYTE(ABS(2), 0, 7, 5)]),
       blob("disc_bar_code", ABS(24), 8, [BYTE(ABS(2), 0, 7, 5)])])
# MODE SENSE: header, then the page after the block descriptors
MS = M + "scsi_enum_modesense:"
for _cls, _hdr, _bdl, _htab in (("scsi_cdb_modesense6:ModeSense6", 4, F(ABS(3), 1), "mode_parameter_header6_bits"),
                                ("scsi_cdb_modesense10:ModeSense10", 8, F(ABS(6), 2), "mode_parameter_header10_bits")):
    _page = lambda k, _hdr=_hdr, _bdl=_bdl: DYN(ABS(0), E(_hdr, _bdl), k)
    D(_cls, [site(MS + _htab, ABS(0)),
             site(MS + "page_zero_bits", _page(0), [BYTE(_page(0), 0, 6, 6)]),          # SPF (bit 6) = 0
             site(MS + "sub_page_bits", _page(0)),
             site(MS + "control_bits", _page(2), [BYTE(_page(0), 0x0A, 5, 0)]),
             site(MS + "control_extension_1_bits", _page(4), [BYTE(_page(0), 0x0A, 5, 0), BYTE(_page(1), 1, 7, 0)]),
             site(MS + "disconnect_reconnect_bits", _page(2), [BYTE(_page(0), 0x02, 5, 0)]),
             site(MS + "element_address_bits", _page(2), [BYTE(_page(0), 0x1D, 5, 0)])])
# INQUIRY
IQ = "scsi_cdb_inquiry:Inquiry"
_vpd = lambda code: [PARAM("evpd", "ne", 0), BYTE(ABS(1), code, 7, 0)]
_DEND = TO(LOOP(1, 0), E(4, F(LOOP(1, 3), 1)))
D(IQ, [site(M + IQ + "._datain_bits", ABS(0)),
       site(M + IQ + "._standard_bits", ABS(0), [PARAM("evpd", "eq", 0)]),
       site(M + IQ + "._pagecode_bits", ABS(0), [PARAM("evpd", "ne", 0)]),
       site(M + IQ + "._block_limits_bits", ABS(0), _vpd(0xB0)),
       site(M + IQ + "._block_dev_char_bits", ABS(0), _vpd(0xB1)),
       site(M + IQ + "._logical_block_provisioning_bits", ABS(0), _vpd(0xB2)),
       site(M + IQ + "._referrals_bits", ABS(0), _vpd(0xB3)),
       site(M + IQ + "._extended_bits", ABS(0), _vpd(0x86)),
       site(M + IQ + "._ata_information_bits", ABS(0), _vpd(0x89)),
       site(M + IQ + "._ata_signature_bits", ABS(36), _vpd(0x89)),
       site(M + IQ + "._ata_identify_bits", ABS(60), _vpd(0x89)),
       site(M + IQ + "._ata_identify_gen_conf_bits", ABS(60), _vpd(0x89)),
       window(1, ABS(4), ABS(0), E(4, F(ABS(2), 2))),              # Device Identification: descriptors from byte 4 to page length + 4
       stride(1, E(4, F(LOOP(1, 3), 1))),
       site(M + IQ + "._designator_bits", LOOP(1, 0), _vpd(0x83)),
       site(M + IQ + "._naa_type_bits", LOOP(1, 4), _vpd(0x83) + [BYTE(LOOP(1, 1), 3, 3, 0)]),
       site(M + IQ + "._naa_ieee_extended_bits", LOOP(1, 4), [BYTE(LOOP(1, 1), 3, 3, 0), BYTE(LOOP(1, 4), 2, 7, 4)]),
       site(M + IQ + "._naa_locally_assigned_bits", LOOP(1, 4), [BYTE(LOOP(1, 1), 3, 3, 0), BYTE(LOOP(1, 4), 3, 7, 4)]),
       site(M + IQ + "._naa_ieee_registered_bits", LOOP(1, 4), [BYTE(LOOP(1, 1), 3, 3, 0), BYTE(LOOP(1, 4), 5, 7, 4)]),
       site(M + IQ + "._naa_ieee_registered_extended_bits", LOOP(1, 4), [BYTE(LOOP(1, 1), 3, 3, 0), BYTE(LOOP(1, 4), 6, 7, 4)]),
       site(M + IQ + "._relative_port_bits", LOOP(1, 4), [BYTE(LOOP(1, 1), 4, 3, 0)]),
       site(M + IQ + "._target_portal_group_bits", LOOP(1, 4), [BYTE(LOOP(1, 1), 5, 3, 0)]),
       site(M + IQ + "._logical_unit_group_bits", LOOP(1, 4), [BYTE(LOOP(1, 1), 6, 3, 0)]),
       site(M + IQ + "._pci_express_routing_id_bits", LOOP(1, 4), [BYTE(LOOP(1, 1), 9, 3, 0)]),
       # SPC-4 6.4.2 standard INQUIRY data
       blob("t10_vendor_identification", ABS(8), 8, [PARAM("evpd", "eq", 0)]),
       blob("product_identification", ABS(16), 16, [PARAM("evpd", "eq", 0)]),
       blob("product_revision_level", ABS(32), 4, [PARAM("evpd", "eq", 0)]),
       # SPC-4 7.8.15 Unit Serial Number page: bytes 4 .. page length + 3
       blob("unit_serial_number", ABS(4), TO(ABS(0), E(4, F(ABS(2), 2))), _vpd(0x80)),
       # SPC-4 7.8.6 designators: the designator proper runs from byte 4 of the descriptor to DESIGNATOR LENGTH + 3
       blob("vendor_specific", LOOP(1, 4), _DEND, _vpd(0x83) + [BYTE(LOOP(1, 1), 0, 3, 0)]),
       blob("t10_vendor_id", LOOP(1, 4), 8, _vpd(0x83) + [BYTE(LOOP(1, 1), 1, 3, 0)]),
       blob("vendor_specific_id", LOOP(1, 12), _DEND, _vpd(0x83) + [BYTE(LOOP(1, 1), 1, 3, 0)]),
       # EUI-64: 8 bytes = company id (3) + extension (5); 12 bytes = ... + directory id (4); 16 bytes = identifier
       # extension (8) + company id (3) + extension (5)
       blob("vendor_specific_extension_id", LOOP(1, 7), 5, _vpd(0x83) + [BYTE(LOOP(1, 1), 2, 3, 0)]),
       blob("directory_id", LOOP(1, 12), [4, _DEND], _vpd(0x83) + [BYTE(LOOP(1, 1), 2, 3, 0)]),
       blob("identifier_extension", LOOP(1, 4), 8, _vpd(0x83) + [BYTE(LOOP(1, 1), 2, 3, 0)]),
       blob("vendor_specific_extension_id", LOOP(1, 15), [5, _DEND], _vpd(0x83) + [BYTE(LOOP(1, 1), 2, 3, 0)]),
       blob("md5_logical_identifier", LOOP(1, 4), [16, _DEND], _vpd(0x83) + [BYTE(LOOP(1, 1), 7, 3, 0)]),
       blob("scsi_name_string", LOOP(1, 4), _DEND, _vpd(0x83) + [BYTE(LOOP(1, 1), 8, 3, 0)])],
  kwargs=("evpd", 1))

# decoders deliberately not constrained (see DESIGN.md C04): READ CD per-sector layout
UNCONSTRAINED_DECODERS = [M + "scsi_cdb_readcd:ReadCd.unmarshall_datain"]
# helpers evaluated as part of their callers
HELPERS = [M + IQ + ".unmarshall_designator", M + IQ + ".unmarshall_ata_information", M + FS + ".unmarshall_transport_id"]

# TransportID layout by protocol identifier (SPC-4 7.6.4): (protocol id, key, first byte, last byte)
TRANSPORT_ID = {0x00: ("n_port_name", 8, 15), 0x03: ("eui64_name", 8, 15), 0x04: ("initiator_port_identifier", 8, 23),
                0x06: ("sas_address", 4, 11), 0x0A: ("routing_id", 4, 11)}
TRANSPORT_ID_ISCSI = {"protocol": 0x05, "length_field": (2, 2), "name_from": 4}

# ---- the shortest responses the standards allow -----------------------------------------------------------
# (decoder class, keyword arguments, length in bytes, {byte: value} for the bytes that select the format; every other
# byte is arbitrary).  A device that returns exactly this much is conformant: the decoder must not fail on it.
MINIMAL = []


def _min(cls, n, fixed=None, kwargs=None, note="", count=None):
    """count: (key, n) -- the decoded dictionary must report n entries under key"""
    MINIMAL.append({"cls": M + cls, "kwargs": dict(kwargs or {}), "length": n, "fixed": dict(fixed or {}), "note": note, "count": count})


def _mg(*ds):
    out = {}
    for d in ds:
        out.update(d)
    return out


def _be(first, n, value):
    return {first + i: (value >> (8 * (n - 1 - i))) & 0xFF for i in range(n)}


_min(IQ, 36, kwargs={"evpd": 0}, note="standard INQUIRY data: at least 36 bytes (SPC-4 6.4.2)")
_min(IQ, 96, kwargs={"evpd": 0}, note="standard INQUIRY data, 96 bytes")
_min(IQ, 6, _mg({1: 0x00}, _be(2, 2, 2)), {"evpd": 1}, "Supported VPD Pages with two entries")
_min(IQ, 4, _mg({1: 0x00}, _be(2, 2, 0)), {"evpd": 1}, "Supported VPD Pages, empty list")
_min(IQ, 8, _mg({1: 0x80}, _be(2, 2, 4)), {"evpd": 1}, "Unit Serial Number, 4 characters")
_min(IQ, 4, _mg({1: 0x83}, _be(2, 2, 0)), {"evpd": 1}, "Device Identification, no designators")
_min(IQ, 16, _mg({1: 0x83, 5: 0x03, 7: 8, 8: 0x50}, _be(2, 2, 12)), {"evpd": 1}, "Device Identification, one NAA-5 designator")
_min(IQ, 16, _mg({1: 0xB0}, _be(2, 2, 0x0C)), {"evpd": 1}, "Block Limits, SBC-2 length (page length 0Ch)")
_min(IQ, 64, _mg({1: 0xB0}, _be(2, 2, 0x3C)), {"evpd": 1}, "Block Limits, SBC-3 length")
_min(IQ, 64, _mg({1: 0xB1}, _be(2, 2, 0x3C)), {"evpd": 1}, "Block Device Characteristics")
_min(IQ, 8, _mg({1: 0xB2}, _be(2, 2, 4)), {"evpd": 1}, "Logical Block Provisioning without descriptor")
_min(IQ, 16, _mg({1: 0xB3}, _be(2, 2, 0x0C)), {"evpd": 1}, "Referrals")
_min(IQ, 64, _mg({1: 0x86}, _be(2, 2, 0x3C)), {"evpd": 1}, "Extended INQUIRY Data")
_min(IQ, 572, _mg({1: 0x89}, _be(2, 2, 0x238)), {"evpd": 1}, "ATA Information")
_min("scsi_cdb_readcapacity10:ReadCapacity10", 8, note="READ CAPACITY(10) data")
_min("scsi_cdb_readcapacity16:ReadCapacity16", 32, note="READ CAPACITY(16) data")
_min(GL, 24, _be(0, 4, 20), note="GET LBA STATUS with one descriptor")
_min(RL, 16, _be(0, 4, 8), note="REPORT LUNS with one LUN")
_min(RL, 8, _be(0, 4, 0), note="REPORT LUNS, empty list")
_min(RT, 16, _mg({7: 1}, _be(0, 4, 12)), note="REPORT TARGET PORT GROUPS, one group with one port")
_min(RT, 4, _be(0, 4, 0), note="REPORT TARGET PORT GROUPS, no groups")
_min(RE, 8, _be(5, 3, 0), note="READ ELEMENT STATUS, header only")
_min(RE, 28, _mg({8: 2, 9: 0, 10: 0, 11: 12}, _be(5, 3, 20), _be(13, 3, 12)), note="READ ELEMENT STATUS, one storage element, 12-byte descriptor")
_min(PI + "PersistentReserveInReadKeys", 8, _be(4, 4, 0), note="READ KEYS, no keys")
_min(PI + "PersistentReserveInReadKeys", 16, _be(4, 4, 8), note="READ KEYS, one key")
_min(PI + "PersistentReserveInReadReservation", 8, _be(4, 4, 0), note="READ RESERVATION, none held")
_min(PI + "PersistentReserveInReadReservation", 24, _be(4, 4, 16), note="READ RESERVATION, one held")
_min(PI + "PersistentReserveInReportCapabilities", 8, _be(0, 2, 8), note="REPORT CAPABILITIES")
_min(FS, 8, _be(4, 4, 0), note="READ FULL STATUS, no descriptors")
_min(FS, 56, _mg({32: 0x00}, _be(4, 4, 48), _be(28, 4, 24)), note="READ FULL STATUS, one descriptor with an FCP TransportID")
_min(RD, 34, _mg({2: 0x00}, _be(0, 2, 32)), note="READ DISC INFORMATION, standard disc information without OPC entries")
_min("scsi_cdb_modesense6:ModeSense6", 4, {0: 3, 3: 0}, note="MODE SENSE(6), header only")
_min("scsi_cdb_modesense6:ModeSense6", 16, {0: 15, 3: 0, 4: 0x0A, 5: 0x0A}, note="MODE SENSE(6), control mode page")
_min("scsi_cdb_modesense10:ModeSense10", 8, _mg({6: 0, 7: 0}, _be(0, 2, 6)), note="MODE SENSE(10), header only")
_min("scsi_cdb_modesense10:ModeSense10", 20, _mg({6: 0, 7: 0, 8: 0x0A, 9: 0x0A}, _be(0, 2, 18)), note="MODE SENSE(10), control mode page")
# list-valued results: everything inside the reported length is returned
_min("scsi_cdb_modesense6:ModeSense6", 32, {0: 31, 3: 0, 4: 0x0A, 5: 0x0A, 16: 0x02, 17: 0x0E},
     note="MODE SENSE(6), control and disconnect-reconnect mode pages", count=("mode_pages", 2))
_min("scsi_cdb_modesense10:ModeSense10", 36, _mg({6: 0, 7: 0, 8: 0x0A, 9: 0x0A, 20: 0x02, 21: 0x0E}, _be(0, 2, 34)),
     note="MODE SENSE(10), control and disconnect-reconnect mode pages", count=("mode_pages", 2))
_min(RL, 24, _be(0, 4, 16), note="REPORT LUNS with two LUNs", count=("luns", 2))
_min(GL, 40, _be(0, 4, 36), note="GET LBA STATUS with two descriptors", count=("lbas", 2))
_min(PI + "PersistentReserveInReadKeys", 24, _be(4, 4, 16), note="READ KEYS, two keys", count=("reservation_keys", 2))
_min(IQ, 8, _mg({1: 0x00}, _be(2, 2, 4)), {"evpd": 1}, "Supported VPD Pages with four entries", count=("vpd_pages", 4))
_min(RT, 32, _mg({4: 0, 7: 2, 27: 1}, _be(0, 4, 28)), note="REPORT TARGET PORT GROUPS, two groups (two ports, one port)",
     count=("target_port_group_descriptors", 2))
