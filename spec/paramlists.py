"""Reference: parameter lists the library composes (MODE SELECT 6/10,
PERSISTENT RESERVE OUT, TransportIDs, EXTENDED COPY LID1/LID4): for each
enumerated shape, the constructor arguments (leaves symbolic) and the byte image
the standard prescribes, built from spec/tables.py positions and the length
rules of SPC-4/5 -- every embedded length counts the bytes that follow it."""
from pyscsi_sa.images import Image, sym_blob
from pyscsi_sa.values import Sym
from spec.roundtrip import leaves, S
from spec import tables as T

M = "pyscsi.pyscsi."
PO = M + "scsi_cdb_persistentreserveout:PersistentReserveOut"
FS = M + "scsi_cdb_persistentreservein:PersistentReserveInReadFullStatus"
MS = M + "scsi_enum_modesense:"


def pad4(n):
    return (n + 3) // 4 * 4


# ---- TransportIDs (SPC-4 7.6.4) ------------------------------------------
def transport_id(kind, tag="t"):
    """(value dictionary, reference image)"""
    fmt = 0
    if kind in ("fcp", "1394", "rdma", "sas", "sop"):
        proto, key, first, n = {"fcp": (0, "n_port_name", 8, 8), "1394": (3, "eui64_name", 8, 8), "rdma": (4, "initiator_port_identifier", 8, 16),
                                "sas": (6, "sas_address", 4, 8), "sop": (0x0A, "routing_id", 2, 2)}[kind]      # SPC-4 7.6.4.8: ROUTING ID is bytes 2..3
        blob = sym_blob((tag, key), n)
        d = {"protocol_id": proto, key: blob}
        img = Image(24)
        img.put((0, 7, 6), 0)
        img.put((0, 3, 0), proto)
        img.put_bytes(first, blob.cells)
        return d, img
    # iSCSI: ("iscsi", name) or ("iscsi", name, isid)
    name = kind[1]
    isid = kind[2] if len(kind) > 2 else None
    d = {"protocol_id": 5, "iscsi_name": name}
    text = name
    if isid is not None:
        d["tpid_format"] = 1
        d["iscsi_initiator_session_id"] = isid
        text = "%s,i,0x%s" % (name, isid)
        fmt = 1
    raw = text.encode("utf-8")
    body = pad4(len(raw) + 1)           # NUL terminated, padded to a multiple of four
    img = Image(4 + body)
    img.put((0, 7, 6), fmt)
    img.put((0, 3, 0), 5)
    img.put_int(2, 2, body)             # ADDITIONAL LENGTH (n-3)
    img.put_bytes(4, list(raw))
    return d, img


TID_KINDS = ["fcp", "1394", "rdma", "sas", "sop", ("iscsi", "iqn.a"), ("iscsi", "iqn.ab"), ("iscsi", "iqn.abc"), ("iscsi", "iqn.abcd"),
             ("iscsi", "iqn.1993-08.org.debian:01:0123456789ab"), ("iscsi", "iqn.abc", "00023d000001"), ("iscsi", "iqn.ab", "00023d000001")]

# ---- PERSISTENT RESERVE OUT ----------------------------------------------
PR_CASES = []


def pr_case(name, sa, build):
    PR_CASES.append({"name": name, "sa": sa, "build": build})


def _basic(sa_name):
    def b():
        kw = leaves(PO + "._basic_parameter_list_bits", "pr", skip=("spec_i_pt",))
        img = Image(24)
        img.put_table(PO + "._basic_parameter_list_bits", kw)
        return kw, img
    return b


def _basic_bool():
    """the one-bit fields of the basic list given as the bool True (an int subclass), the others symbolic"""
    kw = leaves(PO + "._basic_parameter_list_bits", "pr", skip=("spec_i_pt",))
    for k, v in list(kw.items()):
        if getattr(v, "bits", None) is not None and len(v.bits) == 1:
            kw[k] = True
    img = Image(24)
    img.put_table(PO + "._basic_parameter_list_bits", kw)
    return kw, img


pr_case("PR OUT RESERVE, basic list with its flags given as True", 1, _basic_bool)
for _sa, _nm in ((0, "REGISTER"), (1, "RESERVE"), (2, "RELEASE"), (3, "CLEAR"), (4, "PREEMPT"), (5, "PREEMPT AND ABORT"), (6, "REGISTER AND IGNORE EXISTING KEY")):
    pr_case("PR OUT %s, basic list" % _nm, _sa, _basic(_nm))


def _register_spec(kinds, form="list"):
    def b():
        kw = leaves(PO + "._basic_parameter_list_bits", "pr", skip=("spec_i_pt",))
        kw["spec_i_pt"] = 1
        tids = [transport_id(k, "t%d" % i) for i, k in enumerate(kinds)]
        kw["transport_ids"] = [t[0] for t in tids]
        if form == "tuple":
            kw["transport_ids"] = tuple(kw["transport_ids"])
        elif form == "generator":       # any iterable of TransportID dictionaries: here one that can be walked only once
            from pyscsi_sa.rt import GenVal
            kw["transport_ids"] = GenVal(kw["transport_ids"])
        img = Image(28)
        img.put_table(PO + "._basic_parameter_list_bits", kw)
        img.put_int(24, 4, sum(len(t[1]) for t in tids))     # TRANSPORTID PARAMETER DATA LENGTH
        for t in tids:
            img.append(t[1])
        return kw, img
    return b


for _kinds in ([], ["fcp"], ["sas", ("iscsi", "iqn.abc"), "rdma"], [("iscsi", "iqn.a"), ("iscsi", "iqn.abcd", "00023d000001")]):
    pr_case("PR OUT REGISTER with SPEC_I_PT and %d TransportIDs %r" % (len(_kinds), _kinds), 0, _register_spec(_kinds))
for _form in ("tuple", "generator"):
    pr_case("PR OUT REGISTER with SPEC_I_PT, three TransportIDs given as a %s" % _form, 0, _register_spec(["sas", ("iscsi", "iqn.abc"), "rdma"], _form))


def _ram(kind):
    def b():
        kw = leaves(PO + "._ram_parameter_list_bits", "pr", skip=("transportid_length",))
        img = Image(24)
        img.put_table(PO + "._ram_parameter_list_bits", kw)
        if kind is not None:
            d, timg = transport_id(kind)
            kw["transport_id"] = d
            img.put_int(20, 4, len(timg))
            img.append(timg)
        return kw, img
    return b


for _k in [None] + TID_KINDS:
    pr_case("PR OUT REGISTER AND MOVE, TransportID %r" % (_k,), 7, _ram(_k))

# ---- MODE SELECT -----------------------------------------------------------
PAGES = {"control": (0x0A, None, "control_bits", 10), "control extension": (0x0A, 1, "control_extension_1_bits", 28),
         "disconnect-reconnect": (0x02, None, "disconnect_reconnect_bits", 14), "element address assignment": (0x1D, None, "element_address_bits", 18)}
MODE_CASES = []
for _cls, _hdr, _hlen in ((M + "scsi_cdb_modesense6:ModeSelect6", "mode_parameter_header6_bits", 4),
                          (M + "scsi_cdb_modesense10:ModeSelect10", "mode_parameter_header10_bits", 8)):
    for _pname, (_code, _sub, _tab, _body) in PAGES.items():
        def b(_hdr=_hdr, _hlen=_hlen, _code=_code, _sub=_sub, _tab=_tab, _body=_body, _redundant=False):
            pg = dict(leaves(MS + _tab, "pg"), ps=S("ps", 1), spf=1 if _sub is not None else 0, page_code=_code)
            if _sub is not None:
                pg["sub_page_code"] = _sub
            elif _redundant:
                pg["sub_page_code"] = 0        # subpage 00h *is* the page_0 format: naming it changes nothing
            data = dict(leaves(MS + _hdr, "hdr"), mode_pages=[pg])
            ph = 2 if _sub is None else 4
            total = _hlen + ph + _body
            img = Image(total)
            # mode parameter header: MODE DATA LENGTH counts the bytes after itself; no block descriptors
            if _hlen == 4:
                img.put_int(0, 1, total - 1)
            else:
                img.put_int(0, 2, total - 2)
            img.put_table(MS + _hdr, data)
            # page header
            img.put((0, 7, 7), pg["ps"], base=_hlen)
            img.put((0, 6, 6), pg["spf"], base=_hlen)
            img.put((0, 5, 0), _code, base=_hlen)
            if _sub is None:
                img.put_int(1, 1, _body, base=_hlen)          # PAGE LENGTH (n-1)
            else:
                img.put_int(1, 1, _sub, base=_hlen)
                img.put_int(2, 2, _body, base=_hlen)          # PAGE LENGTH (n-3)
            img.put_table(MS + _tab, pg, base=_hlen)
            return data, img
        MODE_CASES.append({"name": "%s %s page" % (_cls.split(":")[1], _pname), "cls": _cls, "build": b})
        if _sub is None and _pname in ("control", "disconnect-reconnect"):
            MODE_CASES.append({"name": "%s %s page, dictionary also names sub_page_code 0" % (_cls.split(":")[1], _pname), "cls": _cls,
                               "build": (lambda b=b: b(_redundant=True))})

# ---- EXTENDED COPY -----------------------------------------------------------
X4 = M + "scsi_cdb_extended_copy_spc4:ExtendedCopy"
X5 = M + "scsi_cdb_extended_copy_spc5:ExtendedCopy"
XCOPY_CASES = []


def cscd(x, tag, devtype, params_key, give_len=None, desig=None):
    """identification-descriptor (E4h) CSCD/target descriptor: (dict, 32-byte image).  desig: None = an NAA-5 designator;
    ("vendor", n) / ("t10", n) / ("name", n) = a vendor specific designator of n bytes, a T10 vendor ID designator with an
    n-byte vendor specific part, a SCSI name string of n bytes (SPC-4 6.3.6.2: the DESIGNATOR field is bytes 8..27, so any
    designator of up to 20 bytes is valid)"""
    pre = "_target" if x is X4 else "_cscd"
    naa = {"naa": 5, "ieee_company_id": S((tag, "oui"), 24), "vendor_specific_identifier": S((tag, "vsi"), 36)}
    dtype, dval, dbytes = 3, naa, None
    if desig is not None:
        kind, n = desig
        if kind == "vendor":
            b = sym_blob((tag, "vs"), n)
            dtype, dval, dbytes = 0, {"vendor_specific": b}, list(b.cells)
        elif kind == "t10":
            b1, b2 = sym_blob((tag, "t10"), 8), sym_blob((tag, "vsid"), n)
            dtype, dval, dbytes = 1, {"t10_vendor_id": b1, "vendor_specific_id": b2}, list(b1.cells) + list(b2.cells)
        elif kind == "name":
            b = sym_blob((tag, "nm"), n)
            dtype, dval, dbytes = 8, {"scsi_name_string": b}, list(b.cells)
        else:
            raise ValueError(kind)
    d = {"descriptor_type_code": 0xE4, "peripheral_device_type": devtype, "relative_initiator_port_identifier": S((tag, "ripi"), 16),
         params_key: {"code_set": S((tag, "cs"), 4), "association": S((tag, "as"), 2), "designator_type": dtype, "designator": dval}}
    if give_len is not None:
        d[params_key]["designator_length"] = give_len     # a documented key; the library must compute the length itself
    img = Image(32)
    img.put((0, 7, 0), 0xE4)
    img.put((1, 7, 6), 0)
    img.put((1, 4, 0), devtype)
    img.put_int(2, 2, d["relative_initiator_port_identifier"])
    img.put((4, 3, 0), d[params_key]["code_set"])
    img.put((5, 5, 4), d[params_key]["association"])
    img.put((5, 3, 0), dtype)
    if dbytes is None:
        img.put_int(7, 1, 8)                       # DESIGNATOR LENGTH
        img.put((8, 7, 4), 5)
        img.put((8, 3, 11, 4), naa["ieee_company_id"])
        img.put((11, 3, 15, 0), naa["vendor_specific_identifier"])
    else:
        img.put_int(7, 1, len(dbytes))
        img.put_bytes(8, dbytes)
    if devtype == 0x00:
        dev = {"pad": S((tag, "pad"), 1), "disk_block_length": S((tag, "dbl"), 24)}
        img.put((28, 2, 2), dev["pad"])
        img.put_int(29, 3, dev["disk_block_length"])
    elif devtype == 0x01:
        dev = {"fixed": S((tag, "fx"), 1), "pad": S((tag, "pad"), 1), "stream_block_length": S((tag, "sbl"), 24)}
        img.put((28, 0, 0), dev["fixed"])
        img.put((28, 2, 2), dev["pad"])
        img.put_int(29, 3, dev["stream_block_length"])
    else:
        dev = {"pad": S((tag, "pad"), 1)}
        img.put((28, 2, 2), dev["pad"])
    d["device_type_specific_parameters"] = dev
    return d, img


def segment(x, tag, code):
    src, dst = ("source_target_descriptor_id", "destination_target_descriptor_id") if x is X4 else ("source_cscd_descriptor_id", "destination_cscd_descriptor_id")
    if code in (0x00, 0x01):
        tab = x + ("._segment_descriptor_bits_block_to_stream" if code == 0x00 or x is X4 else "._segment_descriptor_bits_stream_to_block")
        d = leaves(tab, tag, skip=("descriptor_type_code", "descriptor_length"))
        d["descriptor_type_code"] = code
        img = Image(24)
        img.put_table(tab, d)
        img.put_int(2, 2, 0x14)               # DESCRIPTOR LENGTH (n-3)
        return d, img
    tab = x + "._segment_descriptor_bits_block_to_block"
    d = leaves(tab, tag, skip=("descriptor_type_code", "descriptor_length"))
    d["descriptor_type_code"] = code
    img = Image(28)
    img.put_table(tab, d)
    img.put_int(2, 2, 0x18)
    return d, img


def xcopy(x, devtypes, segcodes, ninline, give_len=None, desigs=None):
    def b():
        params_key = "target_descriptor_parameters" if x is X4 else "cscd_descriptor_parameters"
        cs = [cscd(x, "c%d" % i, dt, params_key, give_len, desigs[i] if desigs else None) for i, dt in enumerate(devtypes)]
        sg = [segment(x, "s%d" % i, c) for i, c in enumerate(segcodes)]
        inline = sym_blob("inline", ninline)
        clen, slen = sum(len(c[1]) for c in cs), sum(len(s[1]) for s in sg)
        if x is X4:
            kw = {"list_identifier": S("lid", 8), "sequential_striped": S("str", 1), "nrcr": S("nrcr", 1), "priority": S("prio", 3),
                  "target_descriptor_list": [c[0] for c in cs], "segment_descriptor_list": [s[0] for s in sg], "inline_data": inline}
            img = Image(16)
            img.put((0, 7, 0), kw["list_identifier"])
            img.put((1, 5, 5), kw["sequential_striped"])
            img.put((1, 4, 4), kw["nrcr"])
            img.put((1, 2, 0), kw["priority"])
            img.put_int(2, 2, clen)
            img.put_int(8, 4, slen)
            img.put_int(12, 4, ninline)
        else:
            kw = {"sequential_striped": S("str", 1), "list_id_usage": S("liu", 2), "priority": S("prio", 3), "g_sense": S("gs", 1),
                  "immed": S("imm", 1), "list_identifier": S("lid", 32), "cscd_descriptor_list": [c[0] for c in cs],
                  "segment_descriptor_list": [s[0] for s in sg], "inline_data": inline}
            img = Image(48)
            img.put((0, 7, 0), 0x01)               # PARAMETER LIST FORMAT
            img.put((1, 5, 5), kw["sequential_striped"])
            img.put((1, 4, 3), kw["list_id_usage"])
            img.put((1, 2, 0), kw["priority"])
            img.put_int(2, 2, 0x0020)              # HEADER CSCD DESCRIPTOR LIST LENGTH
            img.put((15, 1, 1), kw["g_sense"])
            img.put((15, 0, 0), kw["immed"])
            img.put((16, 7, 0), 0xFF)              # HEADER CSCD DESCRIPTOR TYPE CODE
            img.put_int(20, 4, kw["list_identifier"])
            img.put_int(42, 2, clen)
            img.put_int(44, 2, slen)
            img.put_int(46, 2, ninline)
        for c in cs:
            img.append(c[1])
        for s in sg:
            img.append(s[1])
        im2 = Image(0)
        im2.put_bytes(0, inline.cells) if ninline else None
        img.append(im2)
        return kw, img
    return b


for _x, _nm in ((X4, "LID1"), (X5, "LID4")):
    XCOPY_CASES.append({"name": "EXTENDED COPY %s empty" % _nm, "cls": _x, "build": xcopy(_x, [], [], 0)})
    XCOPY_CASES.append({"name": "EXTENDED COPY %s block->block" % _nm, "cls": _x, "build": xcopy(_x, [0x00, 0x00], [0x02], 0)})
    XCOPY_CASES.append({"name": "EXTENDED COPY %s block->stream" % _nm, "cls": _x, "build": xcopy(_x, [0x00, 0x01], [0x00], 5)})
    XCOPY_CASES.append({"name": "EXTENDED COPY %s stream->block" % _nm, "cls": _x, "build": xcopy(_x, [0x01, 0x00], [0x01], 0)})
    for _gl in (8, 0, 16):
        XCOPY_CASES.append({"name": "EXTENDED COPY %s with designator_length=%d supplied" % (_nm, _gl), "cls": _x,
                            "build": xcopy(_x, [0x00, 0x00], [0x02], 0, give_len=_gl)})
    for _dg in (("vendor", 1), ("vendor", 17), ("vendor", 20), ("t10", 0), ("t10", 12), ("name", 20)):
        XCOPY_CASES.append({"name": "EXTENDED COPY %s with a %s designator of %d bytes" % (_nm, _dg[0], _dg[1] + (8 if _dg[0] == "t10" else 0)),
                            "cls": _x, "build": xcopy(_x, [0x00, 0x01], [0x00], 0, desigs=[_dg, None])})
    XCOPY_CASES.append({"name": "EXTENDED COPY %s three CSCDs, three segments, inline data" % _nm, "cls": _x,
                        "build": xcopy(_x, [0x00, 0x01, 0x03], [0x02, 0x00, 0x02], 7)})


# ---- deeper shapes (thorough tier) -------------------------------------------
MORE_PR_CASES = []
_pr_saved = PR_CASES
PR_CASES = MORE_PR_CASES
for _ln in range(1, 49):
    _nm = "i" * _ln
    pr_case("PR OUT REGISTER AND MOVE, iSCSI name of %d characters" % _ln, 7, _ram(("iscsi", _nm)))
for _ln in (1, 2, 3, 4, 9, 16, 31):
    pr_case("PR OUT REGISTER AND MOVE, iSCSI name of %d characters with session id" % _ln, 7, _ram(("iscsi", "n" * _ln, "0123456789ab")))
# (SOP has its own case -- and its own known finding; it is left out here so that this case decides the other kinds together)
pr_case("PR OUT REGISTER with SPEC_I_PT and every other TransportID kind", 0, _register_spec([k for k in TID_KINDS if k != "sop"]))
pr_case("PR OUT REGISTER with SPEC_I_PT and six iSCSI TransportIDs", 0,
        _register_spec([("iscsi", "q" * k) for k in (3, 4, 5, 6, 7, 8)]))
PR_CASES = _pr_saved
MORE_XCOPY_CASES = []
for _x, _nm in ((X4, "LID1"), (X5, "LID4")):
    MORE_XCOPY_CASES.append({"name": "EXTENDED COPY %s four CSCDs, six segments" % _nm, "cls": _x,
                             "build": xcopy(_x, [0x00, 0x01, 0x03, 0x00], [0x02, 0x00, 0x01, 0x02, 0x01, 0x00], 0)})
    for _n in range(1, 21):
        for _k in ("vendor", "name") + (("t10",) if _n >= 8 else ()):
            MORE_XCOPY_CASES.append({"name": "EXTENDED COPY %s with a %s designator of %d bytes (family)" % (_nm, _k, _n), "cls": _x,
                                     "build": xcopy(_x, [0x00], [], 0, desigs=[(_k, _n - 8 if _k == "t10" else _n)])})
    MORE_XCOPY_CASES.append({"name": "EXTENDED COPY %s inline data only" % _nm, "cls": _x, "build": xcopy(_x, [], [], 64)})
    MORE_XCOPY_CASES.append({"name": "EXTENDED COPY %s eight block->block segments" % _nm, "cls": _x, "build": xcopy(_x, [0x00, 0x00], [0x02] * 8, 3)})
