"""Reference: SAM status code -> the exception named after it (property C07),
and the seven per-device exception classes."""

STATUS_EXCEPTION = {
    0x02: "CheckCondition",
    0x04: "ConditionsMet",
    0x08: "BusyStatus",
    0x18: "ReservationConflict",
    0x28: "TaskSetFull",
    0x30: "ACAActive",
    0x40: "TaskAborted",
}
GOOD = 0x00
DEVICE_CLASSES = [("pyscsi.pyscsi.scsi_device", "SCSIDevice"), ("pyscsi.pyiscsi.iscsi_device", "ISCSIDevice")]
