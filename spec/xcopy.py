"""EXTENDED COPY: which peripheral device types a CSCD / target descriptor may name (the device types for which the
standard defines device-type specific descriptor parameters).

SPC-4 (r37) 6.4.5.1, table 'Device type specific parameters in CSCD descriptors': block devices 00h, 04h, 05h, 07h, 0Eh;
sequential-access 01h; processor 03h.  SPC-5 6.6.5.1: 04h (write-once) and 07h (optical memory) are no longer listed."""

DEVICE_TYPES = {
    "extendedcopy4": frozenset([0x00, 0x01, 0x03, 0x04, 0x05, 0x07, 0x0E]),
    "extendedcopy5": frozenset([0x00, 0x01, 0x03, 0x05, 0x0E]),
}
BLOCK_TYPES = frozenset([0x00, 0x04, 0x05, 0x07, 0x0E])
