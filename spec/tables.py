"""Reference: bit layouts of response formats, parameter lists, mode pages and
sense data, in the standards' coordinates (hand-written from
notes/layout-review.md; SPC-4/5, SBC-3, SMC-3, MMC-6, SAT-3).

Each entry binds to one literal table of the library by its origin
(``module:Class.attr`` or ``module:NAME``) and gives, per field name (the key the
library returns to / accepts from callers):

    (byte, msb, lsb) | (first_byte, msb, last_byte, lsb) | ("blob", first_byte, last_byte) | ("bits", ((byte, bit) MSB first))

in coordinates of the *structure* the standard draws (response, descriptor, mode
page ...).  ``anchor`` is the structure byte at which the library applies the
table (it decodes mode-page bodies after slicing the page header off, etc.), so
library offset + anchor = structure byte.  A field mapped to None is left
unconstrained (not confident enough / not reviewed): listed in evidence."""

M = "pyscsi.pyscsi."


def W(first, last):
    return (first, 7, last, 0)


def BLOB(first, last):
    return ("blob", first, last)


def LE16(first):
    """a little-endian 16-bit word (ATA IDENTIFY data): value bits 15..8 in byte first+1, 7..0 in byte first"""
    return ("bits", tuple([(first + 1, b) for b in range(7, -1, -1)] + [(first, b) for b in range(7, -1, -1)]))


TABLES = {}


def T(origin, fields, anchor=0, use="response"):
    TABLES[origin] = {"anchor": anchor, "fields": fields, "use": use}


INQ = M + "scsi_cdb_inquiry:Inquiry."
T(INQ + "_datain_bits", {"peripheral_qualifier": (0, 7, 5), "peripheral_device_type": (0, 4, 0)})
T(INQ + "_standard_bits", {
    "rmb": (1, 7, 7), "version": (2, 7, 0), "normaca": (3, 5, 5), "hisup": (3, 4, 4), "response_data_format": (3, 3, 0),
    "additional_length": (4, 7, 0), "sccs": (5, 7, 7), "acc": (5, 6, 6), "tpgs": (5, 5, 4), "3pc": (5, 3, 3), "protect": (5, 0, 0),
    "encserv": (6, 6, 6), "vs": (6, 5, 5), "multip": (6, 4, 4), "addr16": (6, 0, 0), "wbus16": (7, 5, 5), "sync": (7, 4, 4),
    "cmdque": (7, 1, 1), "vs2": (7, 0, 0), "t10_vendor_identification": BLOB(8, 15), "product_identification": BLOB(16, 31),
    "product_revision_level": BLOB(32, 35), "clocking": (56, 3, 2), "qas": (56, 1, 1), "ius": (56, 0, 0)})
T(INQ + "_pagecode_bits", {"page_code": (1, 7, 0)})
T(INQ + "_block_limits_bits", {
    "wsnz": (4, 0, 0), "max_caw_len": (5, 7, 0), "opt_xfer_len_gran": W(6, 7), "max_xfer_len": W(8, 11), "opt_xfer_len": W(12, 15),
    "max_pfetch_len": W(16, 19), "max_unmap_lba_count": W(20, 23), "max_unmap_bd_count": W(24, 27), "opt_unmap_gran": W(28, 31),
    "ugavalid": (32, 7, 7), "unmap_gran_alignment": (32, 6, 35, 0), "max_ws_len": W(36, 43)})
T(INQ + "_block_dev_char_bits", {
    "medium_rotation_rate": W(4, 5), "product_type": (6, 7, 0), "wabereq": (7, 7, 6), "wacereq": (7, 5, 4),
    "nominal_form_factor": (7, 3, 0), "fuab": (8, 1, 1), "vbuls": (8, 0, 0)})
T(INQ + "_logical_block_provisioning_bits", {
    "threshold_exponent": (4, 7, 0), "lbpu": (5, 7, 7), "lpbws": (5, 6, 6), "lbpws10": (5, 5, 5), "lbprz": (5, 2, 2),
    "anc_sup": (5, 1, 1), "dp": (5, 0, 0), "provisioning_type": (6, 2, 0)})
T(INQ + "_referrals_bits", {"user_data_segment_size": W(8, 11), "user_data_segment_multiplier": W(12, 15)})
T(INQ + "_extended_bits", {
    "activate_microcode": (4, 7, 6), "spt": (4, 5, 3), "grd_chk": (4, 2, 2), "app_chk": (4, 1, 1), "ref_chk": (4, 0, 0),
    "uask_sup": (5, 5, 5), "group_sup": (5, 4, 4), "prior_sup": (5, 3, 3), "headsup": (5, 2, 2), "ordsup": (5, 1, 1), "simpsup": (5, 0, 0),
    "wu_sup": (6, 3, 3), "crd_sup": (6, 2, 2), "nv_sup": (6, 1, 1), "v_sup": (6, 0, 0), "p_i_i_sup": (7, 4, 4), "luiclr": (7, 0, 0),
    "r_sup": (8, 4, 4), "cbcs": (8, 0, 0), "multi_it_nexus_microcode_download": (9, 3, 0),
    "extended_self_test_completion_minutes": W(10, 11), "poa_sup": (12, 7, 7), "hra_sup": (12, 6, 6), "vsa_sup": (12, 5, 5),
    "maximum_supported_sense_data_length": (13, 7, 0)})
T(INQ + "_designator_bits", {
    "protocol_identifier": (0, 7, 4), "code_set": (0, 3, 0), "piv": (1, 7, 7), "association": (1, 5, 4), "designator_type": (1, 3, 0),
    "designator_length": (3, 7, 0)}, use="both")
T(INQ + "_naa_type_bits", {"naa": (0, 7, 4)}, use="both")
T(INQ + "_naa_ieee_extended_bits", {"vendor_specific_identifier_a": (0, 3, 1, 0), "ieee_company_id": W(2, 4),
                                    "vendor_specific_identifier_b": W(5, 7)}, use="both")
T(INQ + "_naa_locally_assigned_bits", {"locally_administered_value": (0, 3, 7, 0)}, use="both")
T(INQ + "_naa_ieee_registered_bits", {"ieee_company_id": (0, 3, 3, 4), "vendor_specific_identifier": (3, 3, 7, 0)}, use="both")
T(INQ + "_naa_ieee_registered_extended_bits", {"ieee_company_id": (0, 3, 3, 4), "vendor_specific_identifier": (3, 3, 7, 0),
                                               "vendor_specific_identifier_extension": W(8, 15)}, use="both")
T(INQ + "_relative_port_bits", {"relative_port": W(2, 3)}, use="both")
T(INQ + "_target_portal_group_bits", {"target_portal_group": W(2, 3)}, use="both")
T(INQ + "_logical_unit_group_bits", {"logical_unit_group": W(2, 3)}, use="both")
T(INQ + "_pci_express_routing_id_bits", {"pci_express_routing_id": W(0, 1)}, use="both")
# ATA Information VPD page (SAT-3 12.4.2): SAT VENDOR IDENTIFICATION 8..15, SAT PRODUCT IDENTIFICATION 16..31, SAT PRODUCT
# REVISION LEVEL 32..35, DEVICE SIGNATURE 36..55 (a Register Device-to-Host FIS: 36 FIS type, 37 PM port / I, 38 STATUS,
# 39 ERROR, 40 LBA(7:0), 41 LBA(15:8), 42 LBA(23:16), 43 DEVICE, 44..46 LBA(47:24), 48 COUNT(7:0), 49 COUNT(15:8)),
# COMMAND CODE 56, IDENTIFY (PACKET) DEVICE data 60..571 (256 little-endian words: word 0 general configuration with
# bit 15 "not an ATA device" and bit 2 "response incomplete", word 2 specific configuration, words 10..19 serial number,
# 23..26 firmware revision, 27..46 model number)
T(INQ + "_ata_information_bits", {"sat_vendor_identification": BLOB(8, 15), "sat_product_identification": BLOB(16, 31),
                                  "sat_product_rev_lvl": BLOB(32, 35)})
T(INQ + "_ata_signature_bits", {"sector_count": (48, 7, 0), "lba_low": (40, 7, 0), "lba_mid": (41, 7, 0), "lba_high": (42, 7, 0),
                                "device": (43, 7, 0)}, anchor=36)
T(INQ + "_ata_identify_bits", {"general_config": None,      # replaced by the decoded flags below before it is returned
                               "specific_config": LE16(64), "serial_number": BLOB(80, 99), "firmware_rev": BLOB(106, 113),
                               "model_number": BLOB(114, 153)}, anchor=60)
T(INQ + "_ata_identify_gen_conf_bits", {"ata_device": (61, 7, 7), "respose_incomplete": (60, 2, 2)}, anchor=60)

PRI = M + "scsi_cdb_persistentreservein:"
T(PRI + "PersistentReserveInReadKeys._header_bits", {"pr_generation": W(0, 3), "additional_length": W(4, 7)})
T(PRI + "PersistentReserveInReadReservation._bits", {"reservation_key": W(8, 15), "scope": (21, 7, 4), "type": (21, 3, 0)})
T(PRI + "PersistentReserveInReportCapabilities._bits", {
    "length": W(0, 1), "ptpl_c": (2, 0, 0), "atp_c": (2, 2, 2), "sip_c": (2, 3, 3), "crh": (2, 4, 4), "rlr_c": (2, 7, 7),
    "ptpl_a": (3, 0, 0), "allow_commands": (3, 6, 4), "tmv": (3, 7, 7), "pr_type_mask": W(4, 5)})
T(PRI + "PersistentReserveInReportCapabilities._pr_type_mask_bits", {
    "wr_ex": (4, 1, 1), "ex_ac": (4, 3, 3), "wr_ex_ro": (4, 5, 5), "ex_ac_ro": (4, 6, 6), "wr_ex_ar": (4, 7, 7), "ex_ac_ar": (5, 0, 0)})
T(PRI + "PersistentReserveInReadFullStatus._full_status_desc_bits", {
    "reservation_key": W(0, 7), "r_holder": (12, 0, 0), "all_tg_pt": (12, 1, 1), "scope": (13, 7, 4), "type": (13, 3, 0),
    "relative_target_port_id": W(18, 19), "additional_desc_length": W(20, 23)})
T(PRI + "PersistentReserveInReadFullStatus._transport_id_bits", {"tpid_format": (0, 7, 6), "protocol_id": (0, 3, 0)}, use="both")

T(M + "scsi_cdb_readcapacity10:ReadCapacity10._datain_bits", {"returned_lba": W(0, 3), "block_length": W(4, 7)}, use="both")
T(M + "scsi_cdb_readcapacity16:ReadCapacity16._datain_bits", {
    "returned_lba": W(0, 7), "block_length": W(8, 11), "p_type": (12, 3, 1), "prot_en": (12, 0, 0), "p_i_exponent": (13, 7, 4),
    "lbppbe": (13, 3, 0), "lbpme": (14, 7, 7), "lbprz": (14, 6, 6), "lowest_aligned_lba": (14, 5, 15, 0)}, use="both")
T(M + "scsi_cdb_getlbastatus:GetLBAStatus._datain_bits", {"lba": W(0, 7), "num_blocks": W(8, 11), "p_status": (12, 3, 0)}, use="both")
T(M + "scsi_cdb_report_luns:ReportLuns._datain_bits", {"lun": W(0, 7)}, use="both")
RT = M + "scsi_cdb_report_target_port_groups:ReportTargetPortGroups."
T(RT + "_tpgd_bits", {
    "asymmetric_access_state": (0, 3, 0), "pref": (0, 7, 7), "ao_sup": (1, 0, 0), "an_sup": (1, 1, 1), "s_sup": (1, 2, 2),
    "u_sup": (1, 3, 3), "o_sup": (1, 6, 6), "t_sup": (1, 7, 7), "target_port_group": W(2, 3), "status_code": (5, 7, 0),
    "vendor": (6, 7, 0), "target_port_count": (7, 7, 0)}, use="both")
T(RT + "_ext_hdr_bits", {"format_type": (4, 6, 4), "implicit_transition_time": (5, 7, 0)}, anchor=4, use="both")
T(M + "scsi_cdb_report_priority:ReportPriority._data_bits", {"current_priority": (0, 3, 0), "rtpi": W(2, 3), "adlen": W(6, 7)})
RE = M + "scsi_cdb_readelementstatus:ReadElementStatus."
T(RE + "_datain_bits", {"first_element_address": W(0, 1), "num_elements": W(2, 3)}, use="both")
T(RE + "_element_status_page_bits", {"element_type": None, "pvoltag": (1, 7, 7), "avoltag": (1, 6, 6)}, use="both")
T(RE + "_element_status_descriptor_bits", {
    "element_address": W(0, 1), "except": (2, 2, 2), "full": (2, 0, 0), "additional_sense_code": (4, 7, 0),
    "additional_sense_code_qualifier": (5, 7, 0), "svalid": (9, 7, 7), "invert": (9, 6, 6), "ed": (9, 3, 3), "medium_type": (9, 2, 0),
    "source_storage_element_address": W(10, 11)}, use="both")
T(RE + "_data_transfer_descriptor_bits", {"access": (2, 3, 3)}, use="both")
T(RE + "_storage_descriptor_bits", {"access": (2, 3, 3)}, use="both")
T(RE + "_import_export_descriptor_bits", {"oir": (2, 7, 7), "cmc": (2, 6, 6), "inenab": (2, 5, 5), "exenab": (2, 4, 4), "access": (2, 3, 3),
                                          "impexp": (2, 1, 1)}, use="both")
RD = M + "scsi_cdb_readdiscinformation:ReadDiscInformation."
T(RD + "_sdi_bits", {
    "disc_information_length": W(0, 1), "disc_information_data_type": (2, 7, 5), "erasable": (2, 4, 4), "state_of_last_session": (2, 3, 2),
    "disc_status": (2, 1, 0), "number_of_first_track_on_disc": (3, 7, 0), "number_of_sessions_lsb": (4, 7, 0),
    "first_track_number_in_last_session_lsb": (5, 7, 0), "last_track_number_in_last_session_lsb": (6, 7, 0), "did_v": (7, 7, 7),
    "dbc_v": (7, 6, 6), "uru": (7, 5, 5), "dac_v": (7, 4, 4), "legacy": (7, 2, 2), "bg_format_status": (7, 1, 0), "disc_type": (8, 7, 0),
    "number_of_sessions_msb": (9, 7, 0), "first_track_number_in_last_session_msb": (10, 7, 0),
    "last_track_number_in_last_session_msb": (11, 7, 0), "disc_identification": W(12, 15),
    "last_session_lead_in_start_address": BLOB(16, 19), "last_possible_lead_out_start_address": BLOB(20, 23),
    "disc_bar_code": BLOB(24, 31), "disc_application_code": (32, 7, 0), "number_of_opc_tables": (33, 7, 0)})
# MMC-6 6.22.3.2 Track Resources Information Block / 6.22.3.3 POW Resources Information Block
T(RD + "_tri_bits", {"disc_information_length": W(0, 1), "disc_information_data_type": (2, 7, 5),
                     "maximum_possible_number_of_the_tracks": W(4, 5), "number_of_the_assigned_tracks": W(6, 7),
                     "maximum_possible_number_of_appendable_tracks": W(8, 9), "current_number_of_appendable_tracks": W(10, 11)})
T(RD + "_pow_bits", {"disc_information_length": W(0, 1), "disc_information_data_type": (2, 7, 5), "remaining_pow_replacements": W(4, 7),
                     "remaining_pow_reallocation_map_entries": W(8, 11), "number_of_remaining_pow_updates": W(12, 15)})
T(M + "scsi_cdb_readcd:ReadCd._sc2_bits", {k: None for k in ("c", "adr", "track-number", "index-number", "min", "sec", "frame", "zero",
                                                              "amin", "asec", "aframe", "crc", "p")})
T(M + "scsi_cdb_readcd:ReadCd._sh_bits", {k: None for k in ("minute", "second", "frame", "mode")})

# mode parameter data (MODESENSE6 / MODESENSE10 bundles in scsi_enum_modesense)
MS = M + "scsi_enum_modesense:"
T(MS + "mode_parameter_header6_bits", {"medium_type": (1, 7, 0), "device_specific_parameter": (2, 7, 0)}, use="both")
T(MS + "mode_parameter_header10_bits", {"medium_type": (2, 7, 0), "device_specific_parameter": (3, 7, 0), "longlba": (4, 0, 0)}, use="both")
T(MS + "page_zero_bits", {"ps": (0, 7, 7), "spf": (0, 6, 6), "page_code": (0, 5, 0)}, use="both")
T(MS + "sub_page_bits", {"ps": (0, 7, 7), "spf": (0, 6, 6), "page_code": (0, 5, 0), "sub_page_code": (1, 7, 0)}, use="both")
T(MS + "control_bits", {
    "tst": (2, 7, 5), "tmf_only": (2, 4, 4), "dpicz": (2, 3, 3), "d_sense": (2, 2, 2), "gltsd": (2, 1, 1), "rlec": (2, 0, 0),
    "queue_algorithm_modifier": (3, 7, 4), "nuar": (3, 3, 3), "qerr": (3, 2, 1), "vs": (4, 7, 7), "rac": (4, 6, 6),
    "ua_intlck_ctrl": (4, 5, 4), "swp": (4, 3, 3), "ato": (5, 7, 7), "tas": (5, 6, 6), "atmpe": (5, 5, 5), "rwwp": (5, 4, 4),
    "autoload_mode": (5, 2, 0), "busy_timeout_period": W(8, 9), "extended_self_test_completion_time": W(10, 11)}, anchor=2, use="both")
T(MS + "control_extension_1_bits", {"tcmos": (4, 2, 2), "scsip": (4, 1, 1), "ialuae": (4, 0, 0), "initial_command_priority": (5, 3, 0),
                                    "maximum_sense_data_length": (6, 7, 0)}, anchor=4, use="both")
T(MS + "disconnect_reconnect_bits", {
    "buffer_full_ratio": (2, 7, 0), "buffer_empty_ratio": (3, 7, 0), "bus_inactivity_limit": W(4, 5), "disconnect_time_limit": W(6, 7),
    "connect_time_limit": W(8, 9), "maximum_burst_size": W(10, 11), "emdp": (12, 7, 7), "fair_arbitration": (12, 6, 4), "dimm": (12, 3, 3),
    "dtdc": (12, 2, 0), "first_burst_size": W(14, 15)}, anchor=2, use="both")
T(MS + "element_address_bits", {
    "first_medium_transport_element_address": W(2, 3), "num_medium_transport_elements": W(4, 5), "first_storage_element_address": W(6, 7),
    "num_storage_elements": W(8, 9), "first_import_element_address": W(10, 11), "num_import_elements": W(12, 13),
    "first_data_transfer_element_address": W(14, 15), "num_data_transfer_elements": W(16, 17)}, anchor=2, use="both")
for _n, _keys in (("power_condition_bits", None), ("power_consumption_bits", None), ("protocol_specific_logical_unit_bits", None),
                  ("modesense6_cdb_bits", None), ("modeselect6_cdb_bits", None)):
    TABLES[MS + _n] = {"anchor": 0, "fields": None, "use": "unused"}   # defined but never applied by the library: unconstrained

# sense data
SN = M + "scsi_sense:SCSICheckCondition."
T(SN + "_fixed_format_sdata_bits", {
    "valid": (0, 7, 7), "response_code": (0, 6, 0), "filemark": (2, 7, 7), "eom": (2, 6, 6), "ili": (2, 5, 5), "sdat_ovfl": (2, 4, 4),
    "sense_key": (2, 3, 0), "information": W(3, 6), "additional_sense_len": (7, 7, 0), "command_specific_information": W(8, 11),
    "additional_sense_code": (12, 7, 0), "additional_sense_code_qualifier": (13, 7, 0), "field_replaceable_unit_code": (14, 7, 0),
    "sksv": (15, 7, 7), "sense_key_specific_information": (15, 6, 17, 0)}, use="sense")
T(SN + "_desc_format_sdata_bits", {
    "response_code": (0, 6, 0), "sense_key": (1, 3, 0), "additional_sense_code": (2, 7, 0), "additional_sense_code_qualifier": (3, 7, 0),
    "sdat_ovfl": (4, 7, 7), "additional_sense_len": (7, 7, 0)}, use="sense")

# parameter lists (data-out)
PO = M + "scsi_cdb_persistentreserveout:PersistentReserveOut."
T(PO + "_basic_parameter_list_bits", {"reservation_key": W(0, 7), "service_action_reservation_key": W(8, 15), "spec_i_pt": (20, 3, 3),
                                      "all_tg_pt": (20, 2, 2), "aptpl": (20, 0, 0)}, use="paramlist")
T(PO + "_ram_parameter_list_bits", {"reservation_key": W(0, 7), "service_action_reservation_key": W(8, 15), "unreg": (17, 1, 1),
                                    "aptpl": (17, 0, 0), "relative_target_port_id": W(18, 19), "transportid_length": W(20, 23)}, use="paramlist")
X4 = M + "scsi_cdb_extended_copy_spc4:ExtendedCopy."
X5 = M + "scsi_cdb_extended_copy_spc5:ExtendedCopy."
T(X4 + "_parameter_list_bits", {"list_identifier": (0, 7, 0), "str": (1, 5, 5), "nrcr": (1, 4, 4), "priority": (1, 2, 0),
                                "target_descriptor_list_length": W(2, 3), "segment_descriptor_list_length": W(8, 11),
                                "inline_data_length": W(12, 15)}, use="paramlist")
T(X5 + "_parameter_list_bits", {"parameter_list_format": (0, 7, 0), "str": (1, 5, 5), "list_id_usage": (1, 4, 3), "priority": (1, 2, 0),
                                "header_cscd_descriptor_list_length": W(2, 3), "g_sense": (15, 1, 1), "immed": (15, 0, 0),
                                "header_cscd_descriptor_type_code": (16, 7, 0), "list_identifier": W(20, 23),
                                "cscd_descriptor_list_length": W(42, 43), "segment_descriptor_list_length": W(44, 45),
                                "inline_data_length": W(46, 47)}, use="paramlist")
for _x, _t, _d in ((X4, "_target_descriptor_bits", "_device_specific_target_descriptor_parameters_"),
                   (X5, "_cscd_descriptor_bits", "_device_specific_cscd_descriptor_parameters_")):
    T(_x + _t, {"descriptor_type_code": (0, 7, 0), "lu_id_type": (1, 7, 6), "peripheral_device_type": (1, 4, 0),
                "relative_initiator_port_identifier": W(2, 3)}, use="paramlist")
    T(_x + _d + "block", {"pad": (28, 2, 2), "disk_block_length": W(29, 31)}, use="paramlist")
    T(_x + _d + "sequential", {"fixed": (28, 0, 0), "pad": (28, 2, 2), "stream_block_length": W(29, 31)}, use="paramlist")
    T(_x + _d + "processor", {"pad": (28, 2, 2)}, use="paramlist")
T(X4 + "_target_designator_bits", {"code_set": (4, 3, 0), "association": (5, 5, 4), "designator_type": (5, 3, 0), "designator_length": (7, 7, 0)},
  anchor=4, use="paramlist")
T(X5 + "_cscd_designator_bits", {"code_set": (4, 3, 0), "association": (5, 5, 4), "designator_type": (5, 3, 0), "designator_length": (7, 7, 0)},
  anchor=4, use="paramlist")
for _x, _s, _dd in ((X4, "source_target_descriptor_id", "destination_target_descriptor_id"),
                    (X5, "source_cscd_descriptor_id", "destination_cscd_descriptor_id")):
    _stream = {"descriptor_type_code": (0, 7, 0), "cat": (1, 0, 0), "descriptor_length": W(2, 3), _s: W(4, 5), _dd: W(6, 7),
               "stream_device_transfer_length": W(9, 11), "block_device_number_of_blocks": W(14, 15),
               "block_device_logical_block_address": W(16, 23)}
    T(_x + "_segment_descriptor_bits_block_to_stream", dict(_stream), use="paramlist")
    _b2b = {"descriptor_type_code": (0, 7, 0), "dc": (1, 1, 1), "cat": (1, 0, 0), "descriptor_length": W(2, 3), _s: W(4, 5), _dd: W(6, 7),
            "block_device_number_of_blocks": W(10, 11), "source_block_device_logical_block_address": W(12, 19),
            "destination_block_device_logical_block_address": W(20, 27)}
    if _x is X5:
        _b2b["fco"] = (1, 2, 2)
        T(_x + "_segment_descriptor_bits_stream_to_block", dict(_stream), use="paramlist")
    T(_x + "_segment_descriptor_bits_block_to_block", _b2b, use="paramlist")

# sense-data descriptor tables are not decoded by any code path of the library
# (only the two format tables are): unconstrained, listed in evidence.
UNUSED_PREFIXES = [SN + "_"]
