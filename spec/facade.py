"""Reference: the 38 facade methods of pyscsi.pyscsi.scsi.SCSI -- which command
class and opcode name each one stands for, how its own parameters map to the
constructor's, whether the response is decoded.  Written from the facade's
documented API (docstrings / README), independent of the method bodies.

  params:  [(facade parameter, constructor parameter)]  -- required/named ones
  kwargs:  optional keyword arguments forwarded through **kwargs (constructor names)
  decode:  the method decodes cmd.datain into cmd.result after execution
  raw_sense: the method asks the transport for raw sense capture
"""
M = "pyscsi.pyscsi."


def f(cls, params=(), kwargs=(), decode=False, raw_sense=False, blocksize=False, extra=None):
    return {"cls": M + cls, "params": list(params), "kwargs": list(kwargs), "decode": decode,
            "raw_sense": raw_sense, "blocksize": blocksize, "extra": extra or {}}


_RD = ["rdprotect", "dpo", "fua", "rarc", "group"]
_WR = ["wrprotect", "dpo", "fua", "group"]
_ATA_P = [(n, n) for n in ("protocal", "t_length", "byte_block", "t_dir", "t_type", "off_line", "fetures", "count", "lba", "command")]
_ATA_K = ["blocksize", "extra_tl", "ck_cond", "device", "control", "data"]

FACADE = {
    "exchangemedium": f("scsi_cdb_exchangemedium:ExchangeMedium",
                        [("xfer", "xfer"), ("source", "source"), ("dest1", "dest1"), ("dest2", "dest2")], ["inv1", "inv2"]),
    "getlbastatus": f("scsi_cdb_getlbastatus:GetLBAStatus", [("lba", "lba")], ["alloclen"], decode=True),
    "inquiry": f("scsi_cdb_inquiry:Inquiry", [], ["evpd", "page_code", "alloclen"], decode=True),
    "initializeelementstatus": f("scsi_cdb_initelementstatus:InitializeElementStatus"),
    "initializeelementstatuswithrange": f("scsi_cdb_initelementstatuswithrange:InitializeElementStatusWithRange",
                                          [("xfer", "xfer"), ("elements", "elements")], ["rng", "fast"]),
    "modeselect6": f("scsi_cdb_modesense6:ModeSelect6", [("data", "data")], ["pf", "sp"]),
    "modesense6": f("scsi_cdb_modesense6:ModeSense6", [("page_code", "page_code")], ["sub_page_code", "dbd", "pc", "alloclen"], decode=True),
    "modesense10": f("scsi_cdb_modesense10:ModeSense10", [("page_code", "page_code")],
                     ["sub_page_code", "llbaa", "dbd", "pc", "alloclen"], decode=True),
    "modeselect10": f("scsi_cdb_modesense10:ModeSelect10", [("data", "data")], ["pf", "sp"]),
    "opencloseimportexportelement": f("scsi_cdb_openclose_exportimport_element:OpenCloseImportExportElement",
                                      [("xfer", "xfer"), ("acode", "acode")]),
    "positiontoelement": f("scsi_cdb_positiontoelement:PositionToElement", [("xfer", "xfer"), ("dest", "dest")], ["invert"]),
    "preventallowmediumremoval": f("scsi_cdb_preventallow_mediumremoval:PreventAllowMediumRemoval", [], ["prevent"]),
    "read10": f("scsi_cdb_read10:Read10", [("lba", "lba"), ("tl", "tl")], _RD, blocksize=True),
    "read12": f("scsi_cdb_read12:Read12", [("lba", "lba"), ("tl", "tl")], _RD, blocksize=True),
    "read16": f("scsi_cdb_read16:Read16", [("lba", "lba"), ("tl", "tl")], _RD, blocksize=True),
    "readcapacity10": f("scsi_cdb_readcapacity10:ReadCapacity10", [], ["alloclen"], decode=True),
    "readcapacity16": f("scsi_cdb_readcapacity16:ReadCapacity16", [], ["alloclen"], decode=True),
    "readcd": f("scsi_cdb_readcd:ReadCd", [("lba", "lba"), ("tl", "tl")], ["est", "dap", "mcsb", "c2ei", "scsb"], decode=True),
    "readdiscinformation": f("scsi_cdb_readdiscinformation:ReadDiscInformation", [("data_type", "data_type")], ["alloc_len"], decode=True),
    "readelementstatus": f("scsi_cdb_readelementstatus:ReadElementStatus", [("start", "start"), ("num", "num")],
                           ["element_type", "voltag", "curdata", "dvcid", "alloclen"], decode=True),
    "movemedium": f("scsi_cdb_movemedium:MoveMedium", [("xfer", "xfer"), ("source", "source"), ("dest", "dest")], ["invert"]),
    "synchronizecache10": f("scsi_cdb_synchronize_cache10:SynchronizeCache10", [("lba", "lba"), ("numblks", "numblks")], ["immed", "group"]),
    "synchronizecache16": f("scsi_cdb_synchronize_cache16:SynchronizeCache16", [("lba", "lba"), ("numblks", "numblks")], ["immed", "group"]),
    "testunitready": f("scsi_cdb_testunitready:TestUnitReady"),
    "write10": f("scsi_cdb_write10:Write10", [("lba", "lba"), ("tl", "tl"), ("data", "data")], _WR, blocksize=True),
    "write12": f("scsi_cdb_write12:Write12", [("lba", "lba"), ("tl", "tl"), ("data", "data")], _WR, blocksize=True),
    "write16": f("scsi_cdb_write16:Write16", [("lba", "lba"), ("tl", "tl"), ("data", "data")], _WR, blocksize=True),
    "writesame10": f("scsi_cdb_writesame10:WriteSame10", [("lba", "lba"), ("nb", "nb"), ("data", "data")],
                     ["wrprotect", "anchor", "unmap", "group"], blocksize=True),
    "writesame16": f("scsi_cdb_writesame16:WriteSame16", [("lba", "lba"), ("nb", "nb"), ("data", "data")],
                     ["wrprotect", "anchor", "unmap", "ndob", "group"], blocksize=True),
    "reportluns": f("scsi_cdb_report_luns:ReportLuns", [], ["report", "alloclen"], decode=True),
    "reportpriority": f("scsi_cdb_report_priority:ReportPriority", [], ["priority", "alloclen"], decode=True),
    "reporttargetportgroups": f("scsi_cdb_report_target_port_groups:ReportTargetPortGroups", [], ["data_format", "alloclen"], decode=True),
    # t_type=0: 512-byte blocks, so that the optional blocksize keyword may be omitted
    "atapassthrough12": f("scsi_cdb_atapassthrough12:ATAPassThrough12", _ATA_P, _ATA_K, raw_sense=True, extra={"pick": {"t_type": 0}}),
    "atapassthrough16": f("scsi_cdb_atapassthrough16:ATAPassThrough16", _ATA_P, _ATA_K + ["extend"], raw_sense=True,
                          extra={"pick": {"t_type": 0}}),
    # persistentreservein(service_action, ...) selects one of four classes by service action
    "persistentreservein": f("scsi_cdb_persistentreservein:PersistentReserveIn", [("service_action", "service_action")], ["alloclen"],
                             decode=True, extra={"by_service_action": {
                                 0x00: "PersistentReserveInReadKeys", 0x01: "PersistentReserveInReadReservation",
                                 0x02: "PersistentReserveInReportCapabilities", 0x03: "PersistentReserveInReadFullStatus"}}),
    "persistentreserveout": f("scsi_cdb_persistentreserveout:PersistentReserveOut",
                              [("service_action", "service_action")], ["scope", "pr_type"]),
    "extendedcopy4": f("scsi_cdb_extended_copy_spc4:ExtendedCopy"),
    "extendedcopy5": f("scsi_cdb_extended_copy_spc5:ExtendedCopy"),
}

# peripheral device type (SPC-4 table 'Peripheral device type') -> command set
DEVICE_TYPE_SET = {0x00: "sbc", 0x04: "sbc", 0x07: "sbc", 0x01: "ssc", 0x05: "mmc", 0x08: "smc"}
PRIMARY_COMMANDS = ["INQUIRY", "TEST_UNIT_READY", "REPORT_LUNS"]
DEFAULT_SET = "spc"


# optional parameters that the documented signatures name explicitly (with defaults), in signature order: a caller may pass
# them by position right after the required ones
POSITIONAL_OPTIONALS = {
    "inquiry": ["evpd", "page_code", "alloclen"],
    "readdiscinformation": ["alloc_len"],
    "persistentreserveout": ["scope", "pr_type"],
    "extendedcopy4": ["list_identifier", "sequential_striped", "nrcr", "priority", "target_descriptor_list", "segment_descriptor_list", "inline_data"],
    "extendedcopy5": ["sequential_striped", "list_id_usage", "priority", "g_sense", "immed", "list_identifier", "cscd_descriptor_list",
                      "segment_descriptor_list", "inline_data"],
}
