"""small AST helpers"""
from __future__ import annotations

import ast


def norm(node):
    """normalised source text of a node (position independent)"""
    try:
        return ast.unparse(node)
    except Exception:
        return type(node).__name__


def dict_key_lines(tree, varname):
    """{key: lineno} of the dict literal assigned to ``varname`` at top level or
    in any class body"""
    out = {}
    for n in ast.walk(tree):
        if isinstance(n, (ast.Assign, ast.AnnAssign)):
            targets = n.targets if isinstance(n, ast.Assign) else [n.target]
            if any(isinstance(t, ast.Name) and t.id == varname for t in targets) and isinstance(n.value, ast.Dict):
                for k in n.value.keys:
                    if isinstance(k, ast.Constant):
                        out[k.value] = k.lineno
    return out


def find_functions(tree):
    """yield (qualname, FunctionDef) for every function in a module"""
    def rec(body, prefix):
        for st in body:
            if isinstance(st, (ast.FunctionDef, ast.AsyncFunctionDef)):
                yield prefix + st.name, st
                yield from rec(st.body, prefix + st.name + ".")
            elif isinstance(st, ast.ClassDef):
                yield from rec(st.body, prefix + st.name + ".")
    yield from rec(tree.body, "")


def own_walk(fnode):
    """walk a function body without entering nested defs/classes/lambdas"""
    stack = list(reversed(fnode.body))
    while stack:
        n = stack.pop()
        yield n
        for c in reversed(list(ast.iter_child_nodes(n))):
            if not isinstance(c, (ast.FunctionDef, ast.AsyncFunctionDef, ast.ClassDef, ast.Lambda)):
                stack.append(c)


def call_name(call):
    """dotted name of a call's callee, e.g. 'self.execute', 'sgio.execute'"""
    f = call.func
    parts = []
    while isinstance(f, ast.Attribute):
        parts.append(f.attr)
        f = f.value
    if isinstance(f, ast.Name):
        parts.append(f.id)
        return ".".join(reversed(parts))
    return None
