"""./check <id> [--tier quick|thorough] [--repo DIR] [--replay PATH] [--selftest]"""
from __future__ import annotations

import argparse
import importlib
import json
import os
import sys
import traceback

from .report import Run, VERIF
from .values import AnalysisError

CLAIMED = ["C01", "C02", "C03", "C04", "C05", "C06", "C07", "C08", "C09", "C10", "C11",
           "C13", "C14", "C15", "C16", "C17", "C18", "C19"]


def tree_has(repo, what):
    """does any module of the library contain an assert statement / a call to warnings.warn (syntactic scan)"""
    import ast
    pkg = os.path.join(repo, "pyscsi")
    for root, dirs, files in os.walk(pkg):
        for f in files:
            if f.endswith(".py"):
                try:
                    tree = ast.parse(open(os.path.join(root, f)).read())
                except (SyntaxError, OSError):
                    continue
                for n in ast.walk(tree):
                    if what == "assert" and isinstance(n, ast.Assert):
                        return True
                    if what == "warn" and isinstance(n, ast.Call) and isinstance(n.func, ast.Attribute) and n.func.attr == "warn":
                        return True
    return False


def check_floors(pid, run):
    """a rule that generated far fewer obligations than on the confirmed tree, with nothing reported, has lost its instances"""
    path = os.path.join(VERIF, "floors.json")
    if not os.path.isfile(path) or os.environ.get("PYSCSI_SA_NO_FLOORS"):
        return
    with open(path) as f:
        floors = json.load(f).get(pid, {})
    known = set(k for k in run.known)
    if any((run.pid, v["rule"], v["construct"]) not in known for v in run.violations):
        return          # something is reported: the run is not a silent pass
    low = ["%s: %d < %d" % (r, run.rules.get(r, 0), n) for r, n in sorted(floors.items()) if run.rules.get(r, 0) < n]
    run.extra["rule_floors"] = {"checked": len(floors), "below": low}
    if low:
        raise AnalysisError("rule-coverage-floor", "; ".join(low[:6]))


def run_property(pid, tier="quick", repo="/repo", quiet=False, evidence=True, out_dir=None):
    """returns (exit_code, Run)"""
    run = Run(pid, tier=tier, repo=repo, quiet=quiet, out_dir=out_dir,
              evidence_path=None if evidence else "")
    try:
        mod = importlib.import_module("pyscsi_sa.props.%s" % pid.lower())
        from .model import Program
        prog = Program(repo)
        mod.check(prog, run)
        check_floors(pid, run)
        # the same check under the interpreter flags that change what the library's own statements do -- only when the tree
        # contains such statements (an assert, a warnings.warn, a bytes/str comparison): `python -O`, `-W error`, `-bb`
        modes = []
        if getattr(prog.I, "saw_assert", False) or tree_has(repo, "assert"):
            modes.append("-O")
        if getattr(prog.I, "saw_warn", False) or tree_has(repo, "warn"):
            modes.append("-W error")
        if getattr(prog.I, "saw_bytes_str_compare", False):
            modes.append("-bb")
        for mode in modes:
            sub = Run(pid, tier=tier, repo=repo, quiet=True, evidence_path="")
            sub_err = None
            os.environ["PYSCSI_SA_MODE"] = mode        # programs the check builds itself (C19's binding combinations) inherit it
            try:
                mod.check(Program(repo, mode=mode), sub)
            except AnalysisError as e:
                sub_err = e
            finally:
                os.environ.pop("PYSCSI_SA_MODE", None)
            have = set((v["rule"], v["construct"]) for v in run.violations)
            for v in sub.violations:
                if (v["rule"], v["construct"]) not in have:
                    run.violation(v["rule"], "%s [under python %s]" % (v["construct"], mode),
                                  "when the interpreter runs with %s: %s" % (mode, v["message"]), v.get("file"), v.get("line"), v.get("function"))
            if sub_err is not None and not sub.violations:
                raise AnalysisError(sub_err.reason, "[under python %s] %s" % (mode, sub_err.detail))
            run.notes.append("re-evaluated under python %s: %d obligations, %d violations" % (mode, sub.obligations, len(sub.violations)))
        run.extra["interpreter_modes"] = ["default"] + modes
        if tier == "thorough":
            if hasattr(mod, "thorough"):
                mod.thorough(prog, run)
            from . import selftest
            if selftest.has_variants(pid):
                sc = selftest.main(pid, repo, run=run, verbose=not quiet)
                if sc != 0:
                    raise AnalysisError("selftest-failed", repr(run.extra.get("selftest")))
        code = run.finish()
    except AnalysisError as e:
        code = run.finish(error=e)
    except RecursionError as e:
        code = run.finish(error=AnalysisError("internal-recursion", str(e)[:200]))
    except Exception as e:  # a traceback is a broken check, not a violation
        if not quiet:
            traceback.print_exc()
        code = run.finish(error=AnalysisError("internal-error", "%s: %s" % (type(e).__name__, str(e)[:300])))
    return code, run


def main(argv=None):
    ap = argparse.ArgumentParser()
    ap.add_argument("pid")
    ap.add_argument("--tier", default=os.environ.get("VERIF_TIER", "quick"))
    ap.add_argument("--repo", default=os.environ.get("PYSCSI_REPO", "/repo"))
    ap.add_argument("--replay")
    ap.add_argument("--selftest", action="store_true")
    ap.add_argument("--no-evidence", action="store_true")
    a = ap.parse_args(argv)
    pid = a.pid.upper()
    sys.setrecursionlimit(10000)
    if a.tier not in ("quick", "thorough"):
        a.tier = "quick"
    # every abstract-interpreter instance has a wall-clock budget (interp.call_function): generous, but finite
    os.environ.setdefault("PYSCSI_SA_TIME_LIMIT", "600" if a.tier == "quick" else "14400")
    if a.replay:
        with open(a.replay) as f:
            rep = json.load(f)
        code, run = run_property(pid, a.tier, a.repo, quiet=True, evidence=False)
        hit = [v for v in run.violations if v["rule"] == rep.get("rule") and v["construct"] == rep.get("construct")]
        if hit:
            print("VIOLATION property=%s replay=%s" % (pid, a.replay))
            print("  %s: %s %s" % (hit[0]["rule"], hit[0]["construct"], hit[0]["message"]))
            return 1
        print("replay: obligation %s / %s holds on the current tree" % (rep.get("rule"), rep.get("construct")))
        return 0 if code != 2 else 2
    if a.selftest:
        from . import selftest
        return selftest.main(pid, a.repo)
    code, run = run_property(pid, a.tier, a.repo, evidence=not a.no_evidence)
    return code


if __name__ == "__main__":
    sys.exit(main())
