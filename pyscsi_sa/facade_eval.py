"""Abstract evaluation of the facade (pyscsi.pyscsi.scsi.SCSI) over stand-in
transports: shared by C07, C13, C17."""
from __future__ import annotations

import copy

from .cmdeval import *
from .cmdeval import _F
from .props.c03 import make_scsi_device, make_iscsi_device, slot, put
from .rt import *
from .standin import StandIn
from .values import *
from spec import cdb as refcdb
from spec import facade as reffacade

SCSI_MOD = "pyscsi.pyscsi.scsi"


def facade_methods(prog):
    """public command methods of SCSI, from the source"""
    cls = prog.cls(SCSI_MOD, "SCSI")
    out = {}
    # (the class's own methods and those it gets from the classes it is assembled from)
    for c in reversed([c for c in cls.mro() if isinstance(c, ClassVal) and not c.builtin]):
        for k, v in c.attrs.items():
            if isinstance(v, FuncVal) and not k.startswith("_") and k not in ("execute",):
                out[k] = v
    return out


def pick(name, dom):
    kind = dom[0]
    if kind == "bits":
        return Sym.param(name, dom[1])
    if kind == "nz":
        return Sym.param(name, dom[1], nonzero=True)
    if kind == "enum":
        return dom[1][-1]
    if kind == "data":
        return SymBytes(name)
    if kind == "dict":
        return copy.deepcopy(dom[1])
    if kind == "choice":
        return pick(name, dom[1][-1])
    if kind == "const":
        return dom[1]
    raise AnalysisError("spec-domain", repr(dom))


class FacadePath:
    def __init__(self, method, setname, kwmode, args, path, sa=None):
        self.method = method
        self.setname = setname
        self.kwmode = kwmode
        self.args = args        # by constructor parameter name
        self.path = path
        self.sa = sa
        self.after_all = False
        self.history = []
        self.start = 0

    @property
    def faulted(self):
        return any(c and "raises" in d for d, c, _, _ in self.path.path)

    def events(self, kind):
        return [(i, e) for i, e in enumerate(self.path.events) if e["kind"] == kind and i >= self.start]

    def label(self):
        return "%s() on %s, kwargs=%s%s%s" % (self.method, self.setname, self.kwmode,
                                              ((" sa=%s" % self.sa) if self.sa is not None else "")
                                              + ((" after %s(every option)" % "(), ".join(self.history + [self.method])) if self.after_all else ""),
                                              (" [" + self.path.cond_str() + "]") if self.path.path else "")


def decode_stub(I, f, locs, node, frame):
    marker = SymDict("decoded-response")        # what the decoder returns: a dictionary whose content is the device's
    names = [p.arg for p in f.node.args.args if p.arg not in ("cls", "self")]
    dname = names[0] if names else None
    kw = {k: v for k, v in locs.items() if k not in ("cls", "self", dname)}
    if f.node.args.kwarg is not None:
        extra = kw.pop(f.node.args.kwarg.arg, {})
        if isinstance(extra, dict):
            kw.update(extra)
    I.event("decode", func=f.qualname, data=locs.get(dname), kwargs=kw, marker=marker)
    return marker


def install_decoder_stubs(prog, stub):
    """a command class may get its unmarshall_datain from a descriptor or an assignment (a closure under another name): whatever
    `Class.unmarshall_datain` evaluates to is the decoder, and is stubbed like a method of that name"""
    memo = getattr(prog, "_decoder_stub_names", None)
    if memo is None:
        memo = prog._decoder_stub_names = []
        for c in prog.command_classes():
            v = prog.read_class_attr(c, "unmarshall_datain")
            f = v.func if isinstance(v, BoundMethod) else v
            if isinstance(f, FuncVal) and f.name != "unmarshall_datain":
                memo.append(f.qualname)
    for q in memo:
        prog.I.stubs[q] = stub


def eval_facade(prog, method, fspec, setname, kwmode, check_condition="fork", transport="sgio", sa=None, other_error="never",
                after_all=False, history=(), positional=False):
    """after_all: the evaluated call is the last of a sequence on one facade -- first each (method, fspec, sa) of
    ``history`` and then the same method, every one passing every optional argument (its own values); then the call
    described by kwmode; only that last one is reported"""
    I = prog.I
    scsi_cls = prog.cls(SCSI_MOD, "SCSI")
    entry = refcdb.CDB[fspec["cls"]]
    doms = dict(entry["args"])
    enum = prog.module(ENUM_MOD).env[setname]
    si = StandIn(prog, check_condition=check_condition, other_sgio_error=other_error).install()
    I.stubs["*.unmarshall_datain"] = decode_stub
    install_decoder_stubs(prog, decode_stub)
    out = []
    try:
        def thunk():
            dev = make_scsi_device(prog) if transport == "sgio" else make_iscsi_device(prog)
            put(prog, dev, "opcodes", enum)
            s = Instance(scsi_cls)
            s.attrs["device"] = dev
            put(prog, s, "blocksize", Sym.param("blocksize", 32, nonzero=True))
            if after_all:
                for hm, hspec, hsa in list(history) + [(method, fspec, sa)]:
                    hdoms = dict(refcdb.CDB[hspec["cls"]]["args"])
                    kw0 = {}
                    for fname, cname in hspec["params"]:
                        if hsa is not None and cname == "service_action":
                            kw0[fname] = hsa
                        elif cname in hspec["extra"].get("pick", {}):
                            kw0[fname] = hspec["extra"]["pick"][cname]
                        else:
                            kw0[fname] = pick("prev_" + cname, hdoms[cname]) if cname in hdoms else Sym.param("prev_" + cname, 8)
                    for cname in hspec["kwargs"]:
                        kw0[cname] = pick("prev_" + cname, hdoms[cname])
                    I.call(I.get_attr(s, hm, None, _F("facade")), [], kw0, None, _F("facade %s (earlier call)" % hm))
                I.event("second-call-starts")
            byctor = {}
            kw = {}
            for fname, cname in fspec["params"]:
                if sa is not None and cname == "service_action":
                    v = sa
                elif cname in fspec["extra"].get("pick", {}):
                    v = fspec["extra"]["pick"][cname]
                else:
                    v = pick(cname, doms[cname]) if cname in doms else Sym.param(cname, 8)
                kw[fname] = v
                byctor[cname] = v
            if kwmode == "all":
                for cname in fspec["kwargs"]:
                    v = pick(cname, doms[cname])
                    kw[cname] = v
                    byctor[cname] = v
            if fspec["blocksize"]:
                byctor["blocksize"] = slot(prog, s, "blocksize")
            bm = I.get_attr(s, method, None, _F("facade"))
            pos = []
            if positional:
                # the leading parameters by position, in the order of the method's signature (as far as they are supplied)
                # (the documented order -- spec/facade.py -- not whatever the current signature happens to name)
                for fname in [f_ for f_, c_ in fspec["params"]] + list(reffacade.POSITIONAL_OPTIONALS.get(method, ())):
                    if fname in kw:
                        pos.append(kw.pop(fname))
                    else:
                        break
            r = I.call(bm, pos, kw, None, _F("facade %s" % method))
            return (r, byctor, dev, pub_view(I, r))

        for p in I.explore(thunk, max_paths=256):
            args = p.value[1] if p.returned else {}
            fp = FacadePath(method, setname, kwmode if not positional else kwmode + ", leading arguments by position", args, p, sa)
            if after_all:
                fp.after_all = True
                fp.history = [h[0] for h in history]
                marks = [i for i, e in enumerate(p.events) if e["kind"] == "second-call-starts"]
                if not marks:
                    continue        # the first call failed: that is the isolated evaluation's finding
                fp.start = marks[0]
            out.append(fp)
    finally:
        si.remove()
        I.stubs.pop("*.unmarshall_datain", None)
        for q_ in getattr(prog, "_decoder_stub_names", ()):
            I.stubs.pop(q_, None)
    return out


def sets_offering(prog, fspec):
    entry = refcdb.CDB[fspec["cls"]]
    return sorted(set(s for s, k, o in opcode_entries(prog, entry["names"])), key=SETS.index)
