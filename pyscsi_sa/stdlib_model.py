"""Models of the standard-library pieces ordinary refactorings of the library reach for: typing.NamedTuple /
collections.namedtuple, enum.IntEnum / enum.Enum, dataclasses.dataclass, functools.partial, the operator module,
the itertools building blocks, types.new_class and three-argument type().

Everything here follows the documented behaviour of the real thing; what is not followed is refused
(AnalysisError `unmodelled-stdlib`), never guessed.
"""
import ast

from .rt import *
from .values import *

_NO = object()
COUNT_ITEMS = 160          # how much of an endless iterator is laid out (a 64-bit mask needs at most 64 steps)

OPERATOR_BINOPS = {"add": "+", "sub": "-", "mul": "*", "floordiv": "//", "mod": "%", "lshift": "<<", "rshift": ">>",
                   "and_": "&", "or_": "|", "xor": "^", "pow": "**", "concat": "+"}
OPERATOR_CMP = {"eq": ast.Eq, "ne": ast.NotEq, "lt": ast.Lt, "le": ast.LtE, "gt": ast.Gt, "ge": ast.GtE,
                "is_": ast.Is, "is_not": ast.IsNot}


class StdlibMixin:
    # ------------------------------------------------------------------
    # classes
    # ------------------------------------------------------------------
    def stdlib_bases(self, s, bases, frame):
        """(kind, bases without the standard-library one) for a class statement"""
        kind = None
        out = []
        for b in bases:
            if isinstance(b, External) and b.name in ("typing.NamedTuple",):
                kind = "ntuple"
                out.append(self.bclasses["tuple"])
            elif isinstance(b, External) and b.name in ("enum.IntEnum",):
                kind = "intenum"
                out.append(self.bclasses["int"])
            elif isinstance(b, External) and b.name in ("enum.Enum",):
                kind = "enum"
            else:
                out.append(b)
        return kind, out

    def finish_stdlib_class(self, cls, kind, s, ns, frame):
        if kind == "ntuple":
            fields = [st.target.id for st in s.body if isinstance(st, ast.AnnAssign) and isinstance(st.target, ast.Name)]
            cls.ntuple_fields = fields
            cls.ntuple_defaults = {}
            for f in fields:
                if f in ns:
                    cls.ntuple_defaults[f] = ns.pop(f)
            return
        # enum members: the names of the class body that are not dunder / sunder names, functions or descriptors
        members = {}
        unique = []
        last = 0
        for name, v in list(ns.items()):
            if name.startswith("_") or isinstance(v, (FuncVal, PropertyVal, ClassVal, BoundMethod, Builtin)):
                continue
            if isinstance(v, AutoVal):
                v = last + 1
            if kind == "intenum":
                v = norm_int(v)
                if isinstance(v, bool) or not isinstance(v, int):
                    raise AnalysisError("unmodelled-stdlib", "IntEnum member %s.%s with a value that is not a constant integer at %s"
                                        % (cls.name, name, frame.where(s)))
                last = int(v)
                m = next((u for u in unique if int(u) == int(v)), None)
                if m is None:
                    m = IntEnumMember(int(v), name, cls)
                    unique.append(m)
            else:
                if not self.is_static(v):
                    raise AnalysisError("unmodelled-stdlib", "Enum member %s.%s with a dynamic value at %s" % (cls.name, name, frame.where(s)))
                if isinstance(v, int):
                    last = v
                m = next((u for u in unique if u.evalue == v and type(u.evalue) is type(v)), None)
                if m is None:
                    m = EnumMember(v, name, cls)
                    unique.append(m)
            members[name] = m
            ns[name] = m
        cls.std_enum = kind
        cls.enum_members = members
        cls.enum_unique = unique

    def enum_class_of(self, cls):
        for c in cls.mro():
            if getattr(c, "std_enum", None):
                return c
        return None

    def ntuple_class_of(self, cls):
        for c in cls.mro():
            if getattr(c, "ntuple_fields", None) is not None:
                return c
        return None

    def stdlib_instantiate(self, cls, args, kwargs, node, frame):
        nt = self.ntuple_class_of(cls)
        if nt is not None:
            fields = nt.ntuple_fields
            if len(args) > len(fields):
                raise PyRaise(Instance(self.bclasses["TypeError"], ("%s.__new__() takes %d positional arguments but %d were given"
                                                                   % (cls.name, len(fields) + 1, len(args) + 1),)), node, frame.where(node))
            vals = dict(zip(fields, args))
            for k, v in kwargs.items():
                if k not in fields or k in vals:
                    raise PyRaise(Instance(self.bclasses["TypeError"], ("%s.__new__() got an unexpected keyword argument '%s'" % (cls.name, k),)),
                                  node, frame.where(node))
                vals[k] = v
            for f in fields:
                if f not in vals:
                    if f in nt.ntuple_defaults:
                        vals[f] = nt.ntuple_defaults[f]
                    else:
                        raise PyRaise(Instance(self.bclasses["TypeError"], ("%s.__new__() missing required argument: '%s'" % (cls.name, f),)),
                                      node, frame.where(node))
            return NTuple([vals[f] for f in fields], cls)
        en = self.enum_class_of(cls)
        if en is not None:
            if len(args) != 1 or kwargs:
                raise AnalysisError("unmodelled-stdlib", "functional enum API %s(...) at %s" % (cls.name, frame.where(node)))
            v = norm_int(args[0])
            if isinstance(v, (IntEnumMember, EnumMember)) and v.ecls is en:
                return v
            if isinstance(v, Sym) and len(en.enum_unique) <= 64 and all(isinstance(m, IntEnumMember) or isinstance(m.evalue, int) for m in en.enum_unique):
                # a number known only symbolically: the member whose value it equals (one equality decision per member, each
                # with its path fact), ValueError when it equals none
                for m in en.enum_unique:
                    if self.compare(ast.Eq(), v, int(m) if isinstance(m, IntEnumMember) else m.evalue, node, frame):
                        return m
                raise PyRaise(Instance(self.bclasses["ValueError"], ("%s is not a valid %s" % (self.name_of(v), cls.name),)), node, frame.where(node))
            if isinstance(v, (Sym, Unknown, SymAny)):
                raise AnalysisError("unmodelled-stdlib", "%s(<dynamic value>) at %s" % (cls.name, frame.where(node)))
            for m in en.enum_unique:
                mv = int(m) if isinstance(m, IntEnumMember) else m.evalue
                if self.is_static(v) and mv == v and isinstance(v, bool) == isinstance(mv, bool):
                    return m
            raise PyRaise(Instance(self.bclasses["ValueError"], ("%r is not a valid %s" % (v, cls.name),)), node, frame.where(node))
        return _NO

    def make_dataclass(self, cls, opts, node, frame):
        fields = []
        defaults = {}
        for c in reversed(cls.mro()):
            if not isinstance(c, ClassVal) or c.node is None or not (c is cls or getattr(c, "dc_fields", None) is not None):
                continue
            for st in c.node.body:
                if isinstance(st, ast.AnnAssign) and isinstance(st.target, ast.Name):
                    ann = ast.unparse(st.annotation)
                    if ann.startswith(("ClassVar", "typing.ClassVar", "'ClassVar", '"ClassVar')):
                        continue
                    n = st.target.id
                    if n in fields:
                        fields.remove(n)
                    fields.append(n)
                    if st.value is not None and n in c.attrs:
                        defaults[n] = c.attrs[n]
        cls.dc_fields = fields
        cls.dc_frozen = bool(opts.get("frozen"))
        seen_default = False
        params = []
        for n in fields:
            if n in defaults:
                seen_default = True
                params.append("%s=_dc_default_%s" % (n, n))
            else:
                if seen_default:
                    raise PyRaise(Instance(self.bclasses["TypeError"], ("non-default argument %r follows default argument" % n,)), node, frame.where(node))
                params.append(n)
        src = []
        if opts.get("init", True):
            body = ["    object.__setattr__(self, %r, %s)" % (n, n) for n in fields] or ["    pass"]
            if cls.lookup("__post_init__")[0] is not None:
                body.append("    self.__post_init__()")
            src.append("def __init__(self%s):\n%s" % ("".join(", " + p for p in params), "\n".join(body)))
        if opts.get("eq", True) and "__eq__" not in cls.attrs:
            tup = lambda who: "(" + "".join("%s.%s, " % (who, n) for n in fields) + ")"
            src.append("def __eq__(self, other):\n    if other.__class__ is self.__class__:\n        return %s == %s\n    return False"
                       % (tup("self"), tup("other")))
        from .interp import Frame
        from .ops import _DUMMY_FUNC
        tf = Frame(self, cls.module if cls.module is not None else frame.module, func=_DUMMY_FUNC,
                   locals_={"_dc_default_%s" % n: v for n, v in defaults.items()})
        tree = ast.parse("\n".join(src))
        for st in ast.walk(tree):
            if hasattr(st, "lineno"):
                st.lineno = getattr(cls.node, "lineno", 1)
                st.end_lineno = st.lineno
        for st in tree.body:
            self.exec_stmt(st, tf)
            fv = tf.locals.get(st.name)
            if isinstance(fv, FuncVal):
                fv.cls = cls
                fv.qualname = "%s:%s.%s" % (cls.module.name if cls.module else "?", cls.name, st.name)
                fv.synthetic = True
                cls.attrs[st.name] = fv
        return cls

    def dataclass_fields(self, obj, node, frame):
        cls = obj.cls if isinstance(obj, Instance) else obj
        if not isinstance(cls, ClassVal) or getattr(cls, "dc_fields", None) is None:
            raise PyRaise(Instance(self.bclasses["TypeError"], ("must be called with a dataclass type or instance",)), node, frame.where(node))
        fcls = getattr(self, "_dc_field_class", None)
        if fcls is None:
            fcls = self._dc_field_class = ClassVal("Field", None, [])
        out = []
        for n in cls.dc_fields:
            f = Instance(fcls)
            f.attrs["name"] = n
            out.append(f)
        return tuple(out)

    def make_class(self, name, bases, ns, node, frame):
        """type(name, bases, namespace) / types.new_class: a class object like a class statement would give"""
        bs = self.iterate(bases, node, frame)
        if not isinstance(name, str) or bs is None or not isinstance(ns, dict):
            raise AnalysisError("unmodelled-builtin", "type() building a class from dynamic parts at %s" % frame.where(node))
        bs = [b for b in bs if not (isinstance(b, ClassVal) and b.builtin and b.name == "object")]
        for b in bs:
            if isinstance(b, ClassVal) and b.metaclass is not None and isinstance(b.metaclass, ClassVal):
                raise AnalysisError("unmodelled-metaclass", "type(%r, ...) over a base with a metaclass at %s" % (name, frame.where(node)))
        c = ClassVal(name, frame.module, bs)
        c.attrs = dict(ns)
        for k, v in c.attrs.items():
            if isinstance(v, FuncVal) and v.cls is None:
                pass               # a function stored in a class namespace is a method of it (bound on lookup)
        return c

    # ------------------------------------------------------------------
    # attributes
    # ------------------------------------------------------------------
    def bind_class_member(self, v, obj, cls, name, node, frame):
        if isinstance(v, FuncVal):
            if v.kind == "staticmethod":
                return v
            if v.kind == "classmethod":
                return BoundMethod(v, cls)
            return BoundMethod(v, obj)
        if isinstance(v, PropertyVal):
            if v.fget is None:
                return self.attr_error(obj, name, node, frame)
            return self.call_function(v.fget, [obj], {}, node, frame)
        return v

    def stdlib_attr(self, obj, name, node, frame):
        if isinstance(obj, NTuple):
            nt = self.ntuple_class_of(obj.ntcls)
            fields = nt.ntuple_fields
            if name in fields:
                return obj[fields.index(name)]
            if name == "_fields":
                return tuple(fields)
            if name == "__class__":
                return obj.ntcls
            if name == "_asdict":
                return Builtin("_asdict", lambda a, k, n, f: dict(zip(fields, obj)))
            if name == "_replace":
                def replace(a, k, n, f):
                    bad = [x for x in k if x not in fields]
                    if bad or a:
                        raise PyRaise(Instance(self.bclasses["ValueError"], ("Got unexpected field names: %r" % bad,)), n, f.where(n))
                    return NTuple([k.get(fl, obj[i]) for i, fl in enumerate(fields)], obj.ntcls)
                return Builtin("_replace", replace)
            v, owner = obj.ntcls.lookup(name)
            if owner is not None and not owner.builtin:
                return self.bind_class_member(v, obj, obj.ntcls, name, node, frame)
            return _NO                                  # the tuple methods (index, count ...)
        if isinstance(obj, (IntEnumMember, EnumMember)):
            if name in ("name", "_name_"):
                return obj.ename
            if name in ("value", "_value_"):
                return int(obj) if isinstance(obj, IntEnumMember) else obj.evalue
            if name == "__class__":
                return obj.ecls
            v, owner = obj.ecls.lookup(name)
            if owner is not None and not owner.builtin:
                return self.bind_class_member(v, obj, obj.ecls, name, node, frame)
            if isinstance(obj, EnumMember):
                return self.attr_error(obj, name, node, frame)
            return _NO
        if isinstance(obj, ClassVal):
            if getattr(obj, "std_enum", None) or (name in ("__members__",) and self.enum_class_of(obj) is not None):
                en = self.enum_class_of(obj)
                if name == "__members__":
                    return dict(en.enum_members)
                if name == "_member_names_":
                    return [m.ename for m in en.enum_unique]
                if name == "_value2member_map_":
                    return {(int(m) if isinstance(m, IntEnumMember) else m.evalue): m for m in en.enum_unique}
            nt = self.ntuple_class_of(obj) if name in ("_fields", "_make", "_field_defaults") else None
            if nt is not None:
                if name == "_fields":
                    return tuple(nt.ntuple_fields)
                if name == "_field_defaults":
                    return dict(nt.ntuple_defaults)

                def make(a, k, n, f):
                    items = self.iterate(a[0], n, f)
                    if items is None:
                        raise AnalysisError("unmodelled-stdlib", "%s._make over a dynamic iterable at %s" % (obj.name, f.where(n)))
                    return self.stdlib_instantiate(obj, items, {}, n, f)
                return Builtin("_make", make)
            return _NO
        if isinstance(obj, ChainMapVal):
            I = self

            def merged():
                out = {}
                for m in reversed(obj.maps):
                    out.update(m)
                return out
            if name == "maps":
                return obj.maps
            if name == "parents":
                return ChainMapVal(obj.maps[1:])
            if name == "new_child":
                return Builtin("ChainMap.new_child", lambda a, k, n, f: ChainMapVal([a[0] if a else (k.get("m") or {})] + obj.maps))
            if name in ("get", "keys", "values", "items", "copy"):
                if name == "copy":
                    return Builtin("ChainMap.copy", lambda a, k, n, f: ChainMapVal([dict(obj.maps[0])] + obj.maps[1:]))
                return self.method_of(merged(), name, node, frame)          # read-only views of the merged mapping
            raise AnalysisError("unmodelled-stdlib", "ChainMap.%s used at %s" % (name, frame.where(node)))
        if isinstance(obj, PartialVal):
            if name == "func":
                return obj.fn
            if name == "args":
                return tuple(obj.args)
            if name == "keywords":
                return dict(obj.kwargs)
            if name in ("__name__", "__qualname__"):
                return self.attr_error(obj, name, node, frame)
            return _NO
        return _NO

    # ------------------------------------------------------------------
    # calls
    # ------------------------------------------------------------------
    def need_items(self, v, what, node, frame):
        items = self.iterate(v, node, frame)
        if items is None:
            raise AnalysisError("unmodelled-stdlib", "%s over an iterable the analysis cannot lay out at %s" % (what, frame.where(node)))
        return items

    def stdlib_call(self, fn, args, kwargs, node, frame):
        if isinstance(fn, PartialVal):
            kw = dict(fn.kwargs)
            kw.update(kwargs)
            return self.call(fn.fn, list(fn.args) + list(args), kw, node, frame)
        if not isinstance(fn, External):
            return _NO
        name = fn.name
        top, _, leaf = name.partition(".")
        I = self
        if name == "functools.partial":
            if not args:
                raise PyRaise(Instance(self.bclasses["TypeError"], ("partial() takes at least one argument",)), node, frame.where(node))
            return PartialVal(args[0], args[1:], kwargs)
        if top == "operator":
            if leaf in OPERATOR_BINOPS and len(args) == 2:
                return self.binop(OPERATOR_BINOPS[leaf], args[0], args[1], node, frame)
            if leaf in OPERATOR_CMP and len(args) == 2:
                return self.compare(OPERATOR_CMP[leaf](), args[0], args[1], node, frame)
            if leaf == "getitem" and len(args) == 2:
                return self.get_item(args[0], args[1], node, frame)
            if leaf == "setitem" and len(args) == 3:
                self.set_item(args[0], args[1], args[2], node, frame)
                return None
            if leaf == "contains" and len(args) == 2:
                return self.contains(args[0], args[1], node, frame)
            if leaf in ("not_", "truth") and len(args) == 1:
                t = self.truth(args[0], node, frame)
                return (not t) if leaf == "not_" else t
            if leaf == "index" and len(args) == 1 and isinstance(norm_int(args[0]), (int, Sym)):
                return args[0]
            if leaf in ("neg", "invert", "inv") and len(args) == 1:
                if leaf == "neg":
                    return self.binop("-", 0, args[0], node, frame)
                return self.binop("-", self.binop("-", 0, args[0], node, frame), 1, node, frame)
            if leaf == "methodcaller" and args and isinstance(args[0], str):
                mname, margs, mkw = args[0], list(args[1:]), dict(kwargs)
                return Builtin("methodcaller(%s)" % mname,
                               lambda a, k, n, f: I.call(I.get_attr(a[0], mname, n, f), margs, mkw, n, f))
            if leaf == "itemgetter" and args and not kwargs:
                keys = list(args)
                if len(keys) == 1:
                    return Builtin("itemgetter(%r)" % (keys[0],), lambda a, k, n, f: I.get_item(a[0], keys[0], n, f))
                return Builtin("itemgetter%r" % (tuple(keys),), lambda a, k, n, f: tuple(I.get_item(a[0], x, n, f) for x in keys))
            if leaf == "attrgetter" and args and not kwargs and all(isinstance(x, str) for x in args):
                def one(o, path, n, f):
                    for part in path.split("."):
                        o = I.get_attr(o, part, n, f)
                    return o
                keys = list(args)
                if len(keys) == 1:
                    return Builtin("attrgetter(%s)" % keys[0], lambda a, k, n, f: one(a[0], keys[0], n, f))
                return Builtin("attrgetter%r" % (tuple(keys),), lambda a, k, n, f: tuple(one(a[0], x, n, f) for x in keys))
            return _NO
        if top == "itertools":
            if leaf == "count":
                start = norm_int(args[0]) if args else norm_int(kwargs.get("start", 0))
                step = norm_int(args[1]) if len(args) > 1 else norm_int(kwargs.get("step", 1))
                if isinstance(start, int) and isinstance(step, int):
                    return CountVal(start, step)
                raise AnalysisError("unmodelled-stdlib", "itertools.count from a dynamic value at %s" % frame.where(node))
            if leaf == "repeat":
                if len(args) == 2 and isinstance(norm_int(args[1]), int):
                    return GenVal([args[0]] * max(0, norm_int(args[1])))
                if len(args) == 1:
                    g = GenVal(TruncList([args[0]] * COUNT_ITEMS))
                    g.truncated = True
                    return g
                return _NO
            if leaf == "islice" and len(args) in (2, 3, 4):
                nums = [norm_int(x) for x in args[1:]]
                if not all(x is None or (isinstance(x, int) and not isinstance(x, bool)) for x in nums):
                    return _NO       # a dynamic bound: refused below
                lo, hi, step = (0, nums[0], 1) if len(nums) == 1 else (nums[0] or 0, nums[1], (nums[2] if len(nums) > 2 else 1) or 1)
                items = self.need_items(args[0], "itertools.islice", node, frame)
                trunc = isinstance(items, TruncList)
                if trunc and (hi is None or hi > len(items)):
                    raise AnalysisError("unmodelled-stdlib", "islice of an endless iterator beyond the model at %s" % frame.where(node))
                return GenVal(list(items)[lo:hi:step])
            if leaf == "accumulate" and args:
                items = self.need_items(args[0], "itertools.accumulate", node, frame)
                f = args[1] if len(args) > 1 else kwargs.get("func")
                out = []
                has_init = "initial" in kwargs and kwargs["initial"] is not None
                acc = kwargs.get("initial")
                if has_init:
                    out.append(acc)
                for x in items:
                    if not out:
                        acc = x
                    elif f is None:
                        acc = self.binop("+", acc, x, node, frame)
                    else:
                        acc = self.call(f, [acc, x], {}, node, frame)
                    out.append(acc)
                return GenVal(out)
            if leaf == "compress" and len(args) == 2:
                data = self.need_items(args[0], "itertools.compress", node, frame)
                sel = self.need_items(args[1], "itertools.compress", node, frame)
                return GenVal([d for d, s in zip(data, sel) if self.truth(s, node, frame)])
            if leaf in ("filterfalse", "takewhile", "dropwhile") and len(args) == 2:
                pred = args[0]
                items = self.need_items(args[1], "itertools." + leaf, node, frame)

                def ok(x):
                    return self.truth(x if pred is None else self.call(pred, [x], {}, node, frame), node, frame)
                if leaf == "filterfalse":
                    if isinstance(items, TruncList):
                        raise AnalysisError("unmodelled-stdlib", "filterfalse over an endless iterator at %s" % frame.where(node))
                    return GenVal([x for x in items if not ok(x)])
                out = []
                if leaf == "takewhile":
                    for x in items:
                        if not ok(x):
                            return GenVal(out)
                        out.append(x)
                    if isinstance(items, TruncList):
                        raise AnalysisError("unmodelled-stdlib", "takewhile did not stop within the first %d items of an endless iterator at %s"
                                            % (len(items), frame.where(node)))
                    return GenVal(out)
                dropping = True
                for x in items:
                    if dropping and ok(x):
                        continue
                    dropping = False
                    out.append(x)
                g = GenVal(TruncList(out) if isinstance(items, TruncList) else out)
                g.truncated = isinstance(items, TruncList)
                return g
            if leaf == "starmap" and len(args) == 2:
                items = self.need_items(args[1], "itertools.starmap", node, frame)
                return GenVal([self.call(args[0], self.need_items(x, "itertools.starmap", node, frame), {}, node, frame) for x in items])
            if leaf == "zip_longest" and args:
                cols = [self.need_items(a, "itertools.zip_longest", node, frame) for a in args]
                fill = kwargs.get("fillvalue")
                n = max(len(c) for c in cols)
                return GenVal([tuple(c[i] if i < len(c) else fill for c in cols) for i in range(n)])
            return _NO
        if name == "types.new_class":
            nm = args[0] if args else kwargs.get("name")
            bases = args[1] if len(args) > 1 else kwargs.get("bases", ())
            kwds = args[2] if len(args) > 2 else kwargs.get("kwds")
            body = args[3] if len(args) > 3 else kwargs.get("exec_body")
            if kwds:
                raise AnalysisError("unmodelled-stdlib", "types.new_class with class keywords at %s" % frame.where(node))
            ns = {}
            if body is not None:
                self.call(body, [ns], {}, node, frame)
            return self.make_class(nm, bases, ns, node, frame)
        if name == "dataclasses.dataclass":
            if len(args) == 1 and isinstance(args[0], ClassVal) and not kwargs:
                return self.make_dataclass(args[0], {}, node, frame)
            if not args:
                opts = dict(kwargs)
                bad = [k for k in opts if k not in ("frozen", "eq", "init", "repr", "order", "slots", "unsafe_hash", "kw_only", "match_args")]
                if bad or opts.get("order") or opts.get("kw_only"):
                    raise AnalysisError("unmodelled-stdlib", "dataclass(%s) at %s" % (", ".join(sorted(opts)), frame.where(node)))
                return Builtin("dataclass(...)", lambda a, k, n, f: I.make_dataclass(a[0], opts, n, f))
            return _NO
        if name == "dataclasses.fields" and len(args) == 1:
            return self.dataclass_fields(args[0], node, frame)
        if name == "collections.ChainMap":
            maps = list(args)
            if not all(isinstance(m, (dict, ChainMapVal)) and "**" not in (m if isinstance(m, dict) else {}) for m in maps):
                raise AnalysisError("unmodelled-stdlib", "collections.ChainMap over a mapping the analysis does not lay out at %s" % frame.where(node))
            flat = []
            for m in maps:
                flat.extend(m.maps if isinstance(m, ChainMapVal) else [m])
            return ChainMapVal(flat)
        if name == "collections.defaultdict":
            d = DefaultDictVal()
            d.factory = args[0] if args else None
            if len(args) > 1:
                src = args[1]
                if not isinstance(src, dict):
                    raise AnalysisError("unmodelled-stdlib", "defaultdict from a non-dict at %s" % frame.where(node))
                d.update(src)
            d.update(kwargs)
            return d
        if name == "contextlib.suppress":
            return SuppressVal(args)
        if top == "inspect" and len(args) == 1 and leaf in ("isclass", "isfunction", "ismethod", "isabstract", "ismodule"):
            v = args[0]
            if isinstance(v, (Unknown, SymAny)):
                return _NO
            if leaf == "isclass":
                return isinstance(v, (ClassVal, EnumVal))
            if leaf == "isfunction":
                return isinstance(v, FuncVal)
            if leaf == "ismethod":
                return isinstance(v, BoundMethod)
            if leaf == "ismodule":
                return isinstance(v, ModuleVal)
            if not isinstance(v, ClassVal):
                return False
            # abstract: a method marked @abstractmethod that no class further down the MRO overrides (only for classes with
            # ABCMeta behaviour: derived from abc.ABC)
            if not any(isinstance(b, External) and b.name in ("abc.ABC",) for c in v.mro() if isinstance(c, ClassVal) for b in c.bases):
                return False
            for c in v.mro():
                if not isinstance(c, ClassVal) or c.node is None:
                    continue
                for st in c.node.body:
                    if isinstance(st, (ast.FunctionDef,)) and any("abstractmethod" in ast.unparse(d) for d in st.decorator_list):
                        impl, owner = v.lookup(st.name)
                        if owner is c:
                            return True
            return False
        if name == "collections.deque":
            if len(args) > 1 or kwargs.get("maxlen") is not None:
                raise AnalysisError("unmodelled-stdlib", "collections.deque with a maximum length at %s" % frame.where(node))
            return DequeVal(self.need_items(args[0], "collections.deque", node, frame) if args else [])
        if name == "enum.auto" and not args:
            return AutoVal()
        if name == "enum.unique" and len(args) == 1:
            return args[0]
        if name == "collections.namedtuple" and len(args) >= 2 and isinstance(args[0], str):
            fl = args[1]
            fields = fl.replace(",", " ").split() if isinstance(fl, str) else self.iterate(fl, node, frame)
            if fields is None or not all(isinstance(x, str) for x in fields):
                return _NO
            c = ClassVal(args[0], frame.module, [self.bclasses["tuple"]])
            c.ntuple_fields = list(fields)
            c.ntuple_defaults = {}
            d = kwargs.get("defaults")
            if d is not None:
                dv = self.need_items(d, "namedtuple defaults", node, frame)
                c.ntuple_defaults = dict(zip(fields[len(fields) - len(dv):], dv))
            return c
        return _NO
