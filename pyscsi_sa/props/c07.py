"""C07 -- a command that did not complete with GOOD status never looks
successful."""
from __future__ import annotations

from ..astutil import norm
from ..cmdeval import *
from ..cmdeval import _F
from ..facade_eval import *
from ..rt import *
from ..standin import StandIn
from ..values import *
from .c03 import make_scsi_device, make_iscsi_device, marker_cmd
from spec import facade as reffacade
from spec import transports as reft

SENSE_INIT = "pyscsi.pyscsi.scsi_sense:SCSICheckCondition.__init__"


def sense_stub(I, f, locs, node, frame):
    inst = locs.get("self")
    if isinstance(inst, Instance):
        params = [a.arg for a in f.node.args.args]
        inst.attrs["__sense_arg__"] = locs.get(params[1] if len(params) > 1 else "sense")     # what the error is built from
    return None


def sense_init_name(prog):
    """the constructor a CheckCondition error is built through, in whichever class of its hierarchy it is written"""
    cls = prog.cls("pyscsi.pyscsi.scsi_sense", "SCSICheckCondition")
    init = cls.lookup("__init__")[0]
    return init.qualname if isinstance(init, FuncVal) else SENSE_INIT


def believed_missing(fn):
    """attribute names the function itself expects to be absent on some binding objects: those it reads inside a
    ``try`` whose handler catches AttributeError (a stated belief -- Engler et al.)"""
    import ast
    out = set()
    for n in ast.walk(fn.node):
        if isinstance(n, ast.Try):
            for h in n.handlers:
                names = []
                if isinstance(h.type, ast.Name):
                    names = [h.type.id]
                elif isinstance(h.type, ast.Tuple):
                    names = [e.id for e in h.type.elts if isinstance(e, ast.Name)]
                if "AttributeError" in names:
                    for st in n.body:
                        for a in ast.walk(st):
                            if isinstance(a, ast.Attribute) and isinstance(a.ctx, ast.Load):
                                out.add(a.attr)
    return out


def sense_less_outcome(prog):
    """what building the CheckCondition error from 'no sense data' (None) does: None if it can be built, else the error"""
    I = prog.I
    cls = prog.cls("pyscsi.pyscsi.scsi_sense", "SCSICheckCondition")
    key = sense_init_name(prog)
    saved = I.stubs.pop(key, None)
    try:
        ps = I.explore(lambda: I.instantiate(cls, [None], {}, None, _F()), max_paths=8)
    finally:
        if saved is not None:
            I.stubs[key] = saved
    bad = [p for p in ps if not p.returned]
    return bad[0].raised.describe() if bad else None


def _public(I, cmd, name):
    """what the caller reads: cmd.<name> through the class's own property (not the private attribute)"""
    try:
        return I.get_attr(cmd, name, None, _F())
    except PyRaise:
        return None


def exc_name(p):
    c = p.raised.exc_class() if not p.returned else None
    if c is not None:
        return c.name
    if not p.returned and isinstance(p.raised.exc, External):
        return p.raised.exc.name
    return None


def discarded_exceptions(prog, p):
    out = []
    for e in p.events:
        if e["kind"] == "expr-stmt-call":
            v = e.get("value")
            if isinstance(v, Instance) and v.cls.is_subclass(prog.I.bclasses["BaseException"]):
                out.append(e)
    return out


def check(prog, run):
    from .c03 import prime_layouts
    prime_layouts(prog)
    I = prog.I
    run.explanation = ("both transports' execute() and the facade are abstractly interpreted over stand-in bindings that fork on "
                       "every outcome the real binding may have (sgio.execute returns / raises CheckConditionError / raises another "
                       "error; iscsi Task.status compared with each constant, with equality refinement so the paths partition all "
                       "256 status values); each path's outcome (normal return vs raise, exception class, its argument, "
                       "cmd.raw_sense_data) is compared with the reference status table; exception objects constructed and "
                       "discarded are reported; through the facade a faulted path must raise and never reach a decoder")
    run.rule_text = "one obligation per (transport, raw-sense flag, path) and per (facade method, set, path with a fault)"
    run.trusted += ["spec/transports.py", "stand-in model: sgio raises CheckConditionError with .sense; libiscsi Task has .status/.raw_sense"]
    run.assumptions += ["cython-sgio raises for every non-GOOD completion (its own behaviour is not decided)"]
    key = sense_init_name(prog)
    I.stubs[key] = sense_stub
    try:
        check_classes(prog, run)
        check_sgio(prog, run)
        check_iscsi(prog, run)
        check_facade(prog, run)
        check_with_block(prog, run)
    finally:
        I.stubs.pop(key, None)


def check_with_block(prog, run):
    """an error raised inside `with SCSI(dev) as s:` (or `with dev:`) leaves the block: __exit__ must not return anything
    that could be true -- with an error in flight, and whatever the transport's close() hands back"""
    I = prog.I
    from ..facade_eval import SCSI_MOD
    scsi_cls = prog.cls(SCSI_MOD, "SCSI")
    for label, mk in (("SCSI over SG_IO", lambda: _facade(prog, scsi_cls, make_scsi_device(prog))),
                      ("SCSI over iSCSI", lambda: _facade(prog, scsi_cls, make_iscsi_device(prog))),
                      ("SCSIDevice", lambda: make_scsi_device(prog)), ("ISCSIDevice", lambda: make_iscsi_device(prog))):
        si = StandIn(prog).install()
        try:
            def t(mk=mk):
                o = mk()
                f = I.get_attr(o, "__exit__", None, _F())
                _cc = prog.read_class_attr(o.cls, "CheckCondition")
                err = Instance(_cc) if isinstance(_cc, ClassVal) else Instance(I.bclasses["RuntimeError"])
                return I.call(f, [err.cls, err, None], {}, None, _F())
            ps = I.explore(t, max_paths=16)
        finally:
            si.remove()
        fn = mk().cls.lookup("__exit__")[0]
        for p in ps:
            c = "%s.__exit__ with a failed command's error in flight" % label
            if p.returned and I.static_truth(p.value) is False:
                run.ok("error-leaves-the-with-block", c)
            elif p.returned:
                run.violation("error-leaves-the-with-block", c,
                              "__exit__ returns %r: when that is true python discards the error raised inside the with block and the "
                              "failed command looks like a successful one" % (p.value,), prog.rel(fn.module), fn.node.lineno, fn.qualname)
            else:
                run.ok("error-leaves-the-with-block", c + " (close itself raises %s)" % exc_name(p), nontrivial=False)


def _facade(prog, scsi_cls, dev):
    s = Instance(scsi_cls)
    s.attrs["device"] = dev
    return s


def check_classes(prog, run):
    for modname, clsname in reft.DEVICE_CLASSES:
        cls = prog.cls(modname, clsname)
        for name in sorted(set(reft.STATUS_EXCEPTION.values())):
            v = prog.read_class_attr(cls, name)
            c = "%s.%s" % (clsname, name)
            if isinstance(v, ClassVal) and v.is_subclass(prog.I.bclasses["Exception"]):
                run.ok("status-exception-class-exists", c)
            else:
                run.violation("status-exception-class-exists", c, "%s has no exception class %s" % (clsname, name),
                              prog.rel(cls.module), cls.node.lineno)
        cc = prog.read_class_attr(cls, "CheckCondition")
        base = prog.cls("pyscsi.pyscsi.scsi_sense", "SCSICheckCondition")
        if isinstance(cc, ClassVal) and not cc.is_subclass(base):
            run.violation("check-condition-decodes-sense", "%s.CheckCondition" % clsname,
                          "CheckCondition does not derive from SCSICheckCondition (no sense key / ASC / ASCQ)", prog.rel(cls.module), cls.node.lineno)


def check_sgio(prog, run):
    I = prog.I
    ex = prog.func("pyscsi.pyscsi.scsi_device", "SCSIDevice", "execute")
    file = prog.rel(ex.module)
    npaths = 0
    nfault = 0
    # (the flag in every form callers use for the library's 0/1 style flags: False / True, 0 / 1, an explicit None)
    for raw, prior in ((False, None), (True, None), (False, "reused"), (True, "reused"), (0, None), (1, None), (None, None)):
        si = StandIn(prog, check_condition="fork", other_sgio_error="fork").install()
        try:
            def t(raw=raw, prior=prior):
                dev = make_scsi_device(prog)
                cmd, cdb, dout, din = marker_cmd(prog, 0, 8)
                if prior:
                    # the same command object is executed again after an earlier CHECK CONDITION (a retry loop)
                    set_pub(I, cmd, "sense", External("sense-of-the-previous-failure"))
                    set_pub(I, cmd, "raw_sense_data", External("sense-of-the-previous-failure") if raw else None)
                try:
                    I.call_function(ex, [dev, cmd], {"en_raw_sense": raw}, None, _F())
                finally:
                    I.event("final", cmd=cmd, raw=_public(I, cmd, "raw_sense_data"))
                return cmd
            paths = I.explore(t, max_paths=64)
        finally:
            si.remove()
        for p in paths:
            npaths += 1
            conds = [d for d, c, _, _ in p.path if c]
            cc = any("CheckConditionError" in d for d in conds)
            other = any("another error" in d for d in conds)
            final = [e for e in p.events if e["kind"] == "final"][-1]
            rawv = final["raw"]
            label = "SCSIDevice.execute en_raw_sense=%s%s [%s]" % (raw, " (command object reused)" if prior else "", p.cond_str())
            for e in discarded_exceptions(prog, p):
                run.violation("exception-constructed-not-raised", "%s %s" % (ex.qualname, norm(e["node"])),
                              "an exception object is built and discarded: `%s` is an expression statement, not `raise`"
                              % norm(e["node"]), file, e["node"].lineno, ex.qualname,
                              facts={"path": p.cond_str(), "handler": "except sgio.CheckConditionError"})
            if cc:
                nfault += 1
                name = exc_name(p)
                c = "SCSIDevice.execute CHECK CONDITION en_raw_sense=%s%s" % (raw, " on a reused command object" if prior else "")
                if not p.returned:
                    arg = p.raised.exc.attrs.get("__sense_arg__") if isinstance(p.raised.exc, Instance) else None
                    if name != "CheckCondition":
                        run.violation("check-condition-raises", c, "CHECK CONDITION raises %s, not CheckCondition" % name, file, ex.node.lineno, ex.qualname)
                    elif not (isinstance(arg, External) and arg.name == "sgio.CheckConditionError.sense"):
                        run.violation("check-condition-carries-sense", c, "CheckCondition is built from %r, not from the binding's sense bytes" % (arg,),
                                      file, ex.node.lineno, ex.qualname)
                    elif not raw and rawv is not None and not prior:
                        run.violation("raw-sense-only-on-request", c, "cmd.raw_sense_data is set although raw sense was not requested",
                                      file, ex.node.lineno, ex.qualname)
                    else:
                        run.ok("check-condition-raises", c, {"path": p.cond_str()})
                else:
                    if raw and isinstance(rawv, External) and rawv.name == "sgio.CheckConditionError.sense":
                        run.ok("check-condition-raises", c, {"path": p.cond_str(), "note": "raw sense attached on request"})
                    else:
                        run.violation("check-condition-raises", c,
                                      "a CHECK CONDITION returns normally from SCSIDevice.execute (en_raw_sense=%s, raw_sense_data=%r): "
                                      "the failed command is indistinguishable from a successful one" % (raw, rawv),
                                      file, ex.node.lineno, ex.qualname, facts={"path": p.cond_str()})
            elif other:
                nfault += 1
                c = "SCSIDevice.execute binding error en_raw_sense=%s" % raw
                if p.returned:
                    run.violation("binding-error-propagates", c, "an error raised by sgio.execute is swallowed", file, ex.node.lineno, ex.qualname)
                else:
                    run.ok("binding-error-propagates", c)
            else:
                c = "SCSIDevice.execute GOOD en_raw_sense=%s" % raw
                if prior:
                    if p.returned:
                        run.ok("good-returns", c + " (reused command)")
                    else:
                        run.violation("good-returns", c + " (reused command)", "a successful command raises %s" % exc_name(p), file, ex.node.lineno, ex.qualname)
                    continue
                if p.returned and rawv is None:
                    run.ok("good-returns", c)
                else:
                    run.violation("good-returns", c, "a successful command does not return normally / leaves raw sense %r" % (rawv,),
                                  file, ex.node.lineno, ex.qualname)
    # two commands through one device object: what the caller asked for the first command (raw sense, and however that
    # command ended) must not change what happens to the second
    for first_raw in (True, 1):
        si = StandIn(prog, check_condition="fork", other_sgio_error="fork").install()
        try:
            def t2(first_raw=first_raw):
                dev = make_scsi_device(prog)
                cmd1 = marker_cmd(prog, 0, 8)[0]
                cmd2 = marker_cmd(prog, 0, 8)[0]
                try:
                    I.call_function(ex, [dev, cmd1], {"en_raw_sense": first_raw}, None, _F())
                    first = "returned"
                except PyRaise:
                    first = "raised"
                n0 = len(I.path)
                try:
                    I.call_function(ex, [dev, cmd2], {}, None, _F())
                    second = ("returned", None)
                except PyRaise as e2:
                    ec2 = e2.exc_class()
                    second = ("raised", ec2.name if ec2 is not None else getattr(e2.exc, "name", "?"))
                return first, second, [d for d, c_, _w, _l in I.path[n0:] if c_], _public(I, cmd2, "raw_sense_data")
            paths2 = I.explore(t2, max_paths=128)
        finally:
            si.remove()
        for p in paths2:
            if not p.returned:
                continue
            first, second, later, raw2 = p.value
            if not any("CheckConditionError" in d for d in later):
                continue
            nfault += 1
            c = "SCSIDevice.execute CHECK CONDITION on the command after one run with en_raw_sense=%r (which %s)" % (first_raw, first)
            if second == ("raised", "CheckCondition"):
                run.ok("check-condition-raises", c)
            else:
                run.violation("check-condition-raises", c,
                              "the second command's CHECK CONDITION %s: what an earlier command on the same device asked for still applies"
                              % ("returns normally (raw_sense_data=%r)" % (raw2,) if second[0] == "returned" else "raises %s" % second[1]),
                              file, ex.node.lineno, ex.qualname, facts={"path": p.cond_str()})
    run.count("sgio_paths", npaths)
    run.floor("SG_IO fault paths", nfault, 4)


def check_iscsi(prog, run):
    I = prog.I
    ex = prog.func("pyscsi.pyiscsi.iscsi_device", "ISCSIDevice", "execute")
    file = prog.rel(ex.module)
    skey = ("ext", "iscsi.Task().status")
    seen_eq = set()
    npaths = 0
    missing = believed_missing(ex)
    run.notes.append("ISCSIDevice.execute reads %s under `except AttributeError`: the stand-in forks on their absence" % sorted(missing))
    no_sense = sense_less_outcome(prog) if missing else None
    # (the flag in every form callers use for the library's 0/1 style flags: False / True, 0 / 1, an explicit None)
    for raw, prior in ((False, None), (True, None), (False, "reused"), (True, "reused"), (0, None), (1, None), (None, None)):
        si = StandIn(prog, maybe_missing=missing).install()
        try:
            def t(raw=raw, prior=prior):
                dev = make_iscsi_device(prog)
                cmd, cdb, dout, din = marker_cmd(prog, 0, 8)
                if prior:
                    set_pub(I, cmd, "sense", External("sense-of-the-previous-failure"))
                try:
                    I.call_function(ex, [dev, cmd], {"en_raw_sense": raw}, None, _F())
                finally:
                    I.event("final", cmd=cmd, raw=_public(I, cmd, "raw_sense_data"), sense=_public(I, cmd, "sense"))
                return cmd
            paths = I.explore(t, max_paths=128)
        finally:
            si.remove()
        for p in paths:
            npaths += 1
            fact = p.facts.get(skey)
            final = [e for e in p.events if e["kind"] == "final"][-1]
            for e in discarded_exceptions(prog, p):
                run.violation("exception-constructed-not-raised", "%s %s" % (ex.qualname, norm(e["node"])),
                              "an exception object is built and discarded: `%s`" % norm(e["node"]), file, e["node"].lineno, ex.qualname)
            name = exc_name(p)
            if fact is not None and fact[0] == "eq":
                st = fact[1]
                seen_eq.add(st)
                c = "ISCSIDevice.execute status %#04x en_raw_sense=%s%s" % (st, raw, " on a reused command object" if prior else "")
                if st == reft.GOOD:
                    if p.returned and (final["raw"] is None or prior):
                        run.ok("status-dispatch", c, {"outcome": "return"})
                    else:
                        run.violation("status-dispatch", c, "GOOD status does not return normally (%s)" % name, file, ex.node.lineno, ex.qualname)
                    continue
                want = reft.STATUS_EXCEPTION.get(st)
                if p.returned:
                    run.violation("status-dispatch", c, "status %#04x returns normally: the failure looks like success" % st,
                                  file, ex.node.lineno, ex.qualname)
                elif want is None:
                    run.ok("status-dispatch", c, {"outcome": "raise %s" % name})
                elif name != want:
                    run.violation("status-dispatch", c, "status %#04x raises %s, the error named after it is %s" % (st, name, want),
                                  file, ex.node.lineno, ex.qualname)
                else:
                    if st == 0x02:
                        arg = p.raised.exc.attrs.get("__sense_arg__") if isinstance(p.raised.exc, Instance) else None
                        if isinstance(arg, External) and arg.name == "sense-of-the-previous-failure":
                            run.violation("check-condition-carries-sense", c,
                                          "the CheckCondition reports the sense data of an EARLIER failure of the same command object, not "
                                          "what the target sent now (cmd.sense is only filled in when it is still empty)",
                                          file, ex.node.lineno, ex.qualname)
                            continue
                        if not (isinstance(arg, External) and arg.name in ("iscsi.Task().raw_sense",)):
                            absent = any(cc_ and "has no attribute" in str(d) for d, cc_, _, _ in p.path)
                            if arg is None and absent:
                                # the binding handed over no sense data: the failure must still surface as CheckCondition
                                if no_sense is not None:
                                    run.violation("check-condition-raises", c + " (binding without sense data)",
                                                  "when the task object has no raw_sense (the case the code itself provides for with `except "
                                                  "AttributeError`) the CheckCondition error is built from None, which raises %s: the caller "
                                                  "sees that error, not a CheckCondition" % no_sense, file, ex.node.lineno, ex.qualname)
                                    continue
                            else:
                                run.violation("check-condition-carries-sense", c, "CheckCondition is built from %r, not the task's sense" % (arg,),
                                              file, ex.node.lineno, ex.qualname)
                                continue
                        if raw and final["raw"] is not arg:
                            run.violation("raw-sense-on-request", c, "raw sense requested but cmd.raw_sense_data is %r" % (final["raw"],),
                                          file, ex.node.lineno, ex.qualname)
                            continue
                        if not raw and final["raw"] is not None:
                            run.violation("raw-sense-only-on-request", c, "cmd.raw_sense_data set without request", file, ex.node.lineno, ex.qualname)
                            continue
                    run.ok("status-dispatch", c, {"outcome": "raise %s" % name})
            else:
                c = "ISCSIDevice.execute any other status en_raw_sense=%s%s" % (raw, " (reused)" if prior else "")
                if p.returned:
                    run.violation("unknown-status-raises", c,
                                  "a status that equals none of the tested constants (%s) returns normally" % (sorted(fact[1]) if fact else "?"),
                                  file, ex.node.lineno, ex.qualname)
                else:
                    run.ok("unknown-status-raises", c, {"outcome": "raise %s" % name, "excluded": sorted(fact[1]) if fact else None})
    for st, want in sorted(reft.STATUS_EXCEPTION.items()):
        if st not in seen_eq:
            run.violation("status-dispatch", "ISCSIDevice.execute status %#04x" % st,
                          "status %#04x (%s) is not distinguished: it raises the catch-all error instead of %s" % (st, want, want),
                          file, ex.node.lineno, ex.qualname)
    if reft.GOOD not in seen_eq:
        run.violation("status-dispatch", "ISCSIDevice.execute status 0x00", "GOOD is never recognised", file, ex.node.lineno, ex.qualname)
    run.count("iscsi_paths", npaths)
    run.count("iscsi_status_values_distinguished", len(seen_eq))


def check_facade(prog, run):
    I = prog.I
    methods = facade_methods(prog)
    file = prog.rel(prog.module(SCSI_MOD))
    # SCSI.execute itself
    ex = prog.func(SCSI_MOD, "SCSI", "execute")
    scsi_cls = prog.cls(SCSI_MOD, "SCSI")
    si = StandIn(prog, check_condition="fork", other_sgio_error="fork").install()
    try:
        def t():
            dev = make_scsi_device(prog)
            s = Instance(scsi_cls)
            s.attrs["device"] = dev
            cmd, cdb, dout, din = marker_cmd(prog, 0, 8)
            return I.call_function(ex, [s, cmd], {}, None, _F())
        for p in I.explore(t, max_paths=32):
            fault = any(c and "raises" in d for d, c, _, _ in p.path)
            if fault and p.returned:
                run.violation("facade-passes-error-on", "SCSI.execute", "SCSI.execute swallows a transport error (%s)" % p.cond_str(),
                              file, ex.node.lineno, ex.qualname)
            elif fault:
                run.ok("facade-passes-error-on", "SCSI.execute", {"path": p.cond_str()})
    finally:
        si.remove()
    nfault = 0
    for name, fspec in reffacade.FACADE.items():
        if name not in methods:
            raise AnalysisError("anchor-missing", "SCSI.%s" % name)
        line = methods[name].node.lineno
        sets = sets_offering(prog, fspec)
        sas = sorted(fspec["extra"]["by_service_action"]) if "by_service_action" in fspec["extra"] else [None]
        for setname in sets[:1]:
            for sa in sas[:1]:
                for fp in eval_facade(prog, name, fspec, setname, "all", sa=sa, other_error="fork"):
                    if not fp.faulted:
                        continue
                    nfault += 1
                    p = fp.path
                    kind = "CHECK CONDITION" if any(cc_ and "CheckConditionError" in d for d, cc_, _, _ in p.path) else "a binding error"
                    c = "SCSI.%s on %s" % (name, kind)
                    sg = [i for i, e in fp.events("external-call") if e["name"] == "sgio.execute"]
                    dec_after = [i for i, e in fp.events("decode") if sg and i > sg[-1]]
                    if dec_after:
                        run.violation("no-decode-after-failure", c, "the untouched data-in buffer is decoded after the command failed",
                                      file, line, "pyscsi.pyscsi.scsi:SCSI.%s" % name)
                    elif p.returned:
                        cmd = p.value[0]
                        rawv = p.value[3].get("raw_sense_data") if isinstance(cmd, Instance) else None
                        if fspec["raw_sense"] and isinstance(rawv, External) and kind == "CHECK CONDITION":
                            run.ok("facade-passes-error-on", c, {"note": "raw sense requested and attached"})
                        else:
                            run.violation("facade-passes-error-on", c,
                                          "%s returns normally although the transport reported %s" % (fp.label(), kind), file, line,
                                          "pyscsi.pyscsi.scsi:SCSI.%s" % name)
                    else:
                        run.ok("facade-passes-error-on", c, {"raises": exc_name(p)})
    # the facade over the iSCSI transport (transport-agnostic code: three methods)
    for name in ("inquiry", "read10", "testunitready"):
        fspec = reffacade.FACADE[name]
        for fp in eval_facade(prog, name, fspec, sets_offering(prog, fspec)[0], "none", transport="iscsi"):
            p = fp.path
            fact = p.facts.get(("ext", "iscsi.Task().status"))
            good = fact is not None and fact[0] == "eq" and fact[1] == 0
            c = "SCSI.%s over iSCSI" % name
            if p.returned and not good:
                run.violation("facade-passes-error-on", c, "returns normally with status fact %r" % (fact,), file, methods[name].node.lineno)
            elif not p.returned and good:
                run.violation("facade-call-succeeds-on-good", c, "raises %s on GOOD" % exc_name(p), file, methods[name].node.lineno)
            else:
                run.ok("facade-passes-error-on", c, {"status": repr(fact)})
    run.count("facade_fault_paths", nfault)
    run.floor("facade fault paths", nfault, 38)
