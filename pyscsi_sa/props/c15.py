"""C15 -- commands never go through a stale device handle; handles are released."""
from __future__ import annotations

from ..cmdeval import *
from ..cmdeval import _F
from ..facade_eval import SCSI_MOD
from ..rt import *
from ..standin import StandIn
from ..values import *
from .c03 import make_scsi_device, make_iscsi_device, marker_cmd, slot, put, ident_leaves

DEV_MOD = "pyscsi.pyscsi.scsi_device"
ISCSI_MOD = "pyscsi.pyiscsi.iscsi_device"


def ext_calls(events):
    return [e for e in events if e["kind"] == "external-call"]


def replug_compare_verdict(cmp_):
    """("operands", names) when something other than same-field (recorded, fresh stat) pairs incl. the inode number is
    compared; ("ok", replaced?) otherwise; None when nothing was compared"""
    if not cmp_:
        return None

    def field(x):
        return getattr(x, "stat_field", None) if isinstance(x, External) else None
    names2 = [sorted(x.name if isinstance(x, External) else repr(x) for x in (e["a"], e["b"])) for e in cmp_]
    same_pair = all(n[0].startswith("recorded-") and n[1].startswith("stat#") and field(e["a"]) == field(e["b"]) is not None
                    for n, e in zip(names2, cmp_))
    replaced = any(not e["equal"] for e in cmp_)
    if same_pair and not replaced and not any(field(e["a"]) == "st_ino" for e in cmp_):
        same_pair = False
    if not same_pair:
        return ("operands", names2)
    return ("ok", replaced)


def check(prog, run):
    from .c03 import prime_layouts
    prime_layouts(prog)
    I = prog.I
    run.explanation = ("SCSIDevice.execute / open / close / __exit__, ISCSIDevice.close / __exit__ and SCSI.__exit__ are abstractly "
                       "interpreted over stand-ins for open(), os.stat(), file.close() and sgio.execute that fork on every outcome "
                       "(inode changed or not, stat fails, close fails); per path the ordered list of external calls is inspected: "
                       "which handle object reaches sgio.execute, whether close/open happened and in which order, whether an OS "
                       "error surfaces, how often the handle is closed")
    run.rule_text = "one obligation per (entry point, detection flag, path); paths are distinct by their fork decisions"
    run.trusted += ["stand-in model of open()/os.stat()/file.close()"]
    run.assumptions += ["OS semantics (an inode change means the node was replaced) are not decided"]
    dcls = prog.cls(DEV_MOD, "SCSIDevice")
    ex = prog.func(DEV_MOD, "SCSIDevice", "execute")
    file = prog.rel(ex.module)
    npaths = 0
    from .c03 import scsi_layout
    if scsi_layout(prog)["ident"] is None:
        run.violation("inode-recorded", "SCSIDevice.open records the node", "constructing the device (which opens it) keeps no value taken "
                      "from a stat of the device path: a node that is replaced later cannot be told from the one that was opened",
                      file, None, DEV_MOD + ":SCSIDevice.open")
    else:
        run.ok("inode-recorded", "SCSIDevice.open records the node")
    for detect, rw in ((True, False), (True, True), (False, False)):
        si = StandIn(prog, check_condition="never", close_fails="fork", stat_fails="fork").install()
        try:
            def t(detect=detect, rw=rw):
                si.vanished = False
                dev = make_scsi_device(prog)
                put(prog, dev, "detect", detect)
                put(prog, dev, "read_write", rw)
                old = slot(prog, dev, "handle")
                old_ino = slot(prog, dev, "ident")
                cmd, cdb, dout, din = marker_cmd(prog, 0, 8)
                try:
                    I.call_function(ex, [dev, cmd], {}, None, _F())
                finally:
                    I.event("final", dev=dev, old=old, old_ino=old_ino)
                return dev
            paths = I.explore(t, max_paths=64)
        finally:
            si.remove()
        for p in paths:
            npaths += 1
            final = [e for e in p.events if e["kind"] == "final"][-1]
            dev, old = final["dev"], final["old"]
            calls = ext_calls(p.events)
            names = [c["name"] for c in calls]
            stat_failed = any(c and "os.stat raises" in d for d, c, _, _ in p.path)
            close_failed = any(c and "close() raises" in d for d, c, _, _ in p.path)
            closes = [c for c in calls if c["name"].endswith(".close")]
            opens = [c for c in calls if c["name"] == "open"]
            sg = [c for c in calls if c["name"] == "sgio.execute"]
            c = "SCSIDevice.execute detect=%s [%s]" % (detect, p.cond_str())
            where = (file, ex.node.lineno, ex.qualname)
            if not detect:
                if "os.stat" in names or closes or opens:
                    run.violation("detection-off-keeps-handle", "SCSIDevice.execute detect=False",
                                  "with replug detection disabled the device node is still probed / re-opened: %s" % names, *where)
                elif len(sg) != 1 or sg[0]["args"][0] is not old:
                    run.violation("detection-off-keeps-handle", "SCSIDevice.execute detect=False",
                                  "the command does not go through the original handle", *where)
                else:
                    run.ok("detection-off-keeps-handle", "SCSIDevice.execute detect=False")
                continue
            if stat_failed:
                # the node at the device path is gone (os.stat fails): that must surface as an error, whatever the open mode
                if p.returned or sg:
                    run.violation("vanished-node-is-an-error", "SCSIDevice.execute vanished node",
                                  "os.stat fails (node vanished, read_write=%s) but execute %s%s" % (rw, "returns normally" if p.returned else "still sends the command",
                                  "; open() with a creating mode made a new plain file at the device path" if opens else ""), *where)
                else:
                    run.ok("vanished-node-is-an-error", "SCSIDevice.execute vanished node", {"raises": p.raised.describe()[:60]})
                continue
            if "os.stat" not in names:
                run.violation("detection-on-probes-node", "SCSIDevice.execute detect=True", "replug detection never stats the device node", *where)
                continue
            # the replug test as execute() performs it (wherever the class keeps it): the device path itself is examined, what
            # is compared is the recorded identity with a fresh stat, field by field, the inode number among them, and the
            # node counts as replaced exactly when a compared field differs
            first_stat = [c_ for c_ in calls if c_["name"] == "os.stat"][0]
            if first_stat["args"][:1] != [slot(prog, dev, "file_name")] or len(first_stat["args"]) > 1 \
                    or any(k != "follow_symlinks" or v is not True for k, v in first_stat["kwargs"].items()):
                run.violation("replug-test-stats-device-path", "SCSIDevice.execute os.stat arguments",
                              "the replug test examines os.stat(%s): that is not the node the device path currently leads to"
                              % ", ".join([repr(a_) for a_ in first_stat["args"]] + ["%s=%r" % kv for kv in first_stat["kwargs"].items()]), *where)
            else:
                run.ok("replug-test-stats-device-path", "SCSIDevice.execute detect=True rw=%s" % rw, nontrivial=False)
            cmp_ = [e for e in p.events if e["kind"] == "ext-compare"]
            verdict = replug_compare_verdict(cmp_)
            if verdict is not None:
                acted = bool(closes or opens)
                if verdict[0] == "operands":
                    run.violation("replug-test-compares-inode", "SCSIDevice.execute replug test operands",
                                  "compares %s, not the node's current inode with the recorded one" % verdict[1], *where)
                elif verdict[1] is not acted:
                    run.violation("replug-test-compares-inode", "SCSIDevice.execute replug test polarity",
                                  "the handle is %s when the compared identity %s" % ("replaced" if acted else "kept",
                                                                                       "differs" if verdict[1] else "is unchanged"), *where)
                else:
                    run.ok("replug-test-compares-inode", "SCSIDevice.execute identity %s rw=%s" % ("changed" if verdict[1] else "same", rw))
            if closes or opens:
                # replug path
                ok = True
                if len(closes) != 1 or closes[0]["name"] != old.name + ".close":
                    run.violation("stale-handle-closed", "SCSIDevice.execute replug", "the stale handle is closed %d times (%s)" % (len(closes), names), *where)
                    ok = False
                if len(opens) != 1:
                    run.violation("fresh-handle-opened", "SCSIDevice.execute replug close_failed=%s" % close_failed,
                                  "after a replug the node is re-opened %d times on path [%s]" % (len(opens), p.cond_str()), *where)
                    ok = False
                elif closes and "open" in names and names.index("open") < names.index(closes[0]["name"]):
                    run.violation("fresh-handle-opened", "SCSIDevice.execute replug order", "open happens before the stale handle is closed", *where)
                    ok = False
                new = slot(prog, dev, "handle")
                if sg:
                    if sg[0]["args"][0] is old or sg[0]["args"][0] is not new:
                        run.violation("no-stale-handle", "SCSIDevice.execute replug",
                                      "after a replug the command is sent through %r (stale handle %r, current handle %r)" % (sg[0]["args"][0], old, new),
                                      *where)
                        ok = False
                    if "open" in names and names.index("sgio.execute") < names.index("open"):
                        run.violation("no-stale-handle", "SCSIDevice.execute replug order", "the command is sent before the node is re-opened", *where)
                        ok = False
                if opens and (new is old or not isinstance(new, External)):
                    run.violation("fresh-handle-opened", "SCSIDevice.execute replug handle", "self._file still holds the stale handle", *where)
                    ok = False
                if opens and slot(prog, dev, "ident") is final["old_ino"] and not stat_failed:
                    run.violation("inode-recorded", "SCSIDevice.execute replug", "the inode of the re-opened node is not recorded", *where)
                    ok = False
                if ok:
                    run.ok("no-stale-handle", "SCSIDevice.execute replug close_failed=%s stat_failed=%s" % (close_failed, stat_failed))
            else:
                if len(sg) == 1 and sg[0]["args"][0] is old and p.returned:
                    run.ok("unchanged-node-keeps-handle", "SCSIDevice.execute same inode")
                else:
                    run.violation("unchanged-node-keeps-handle", "SCSIDevice.execute same inode", "calls: %s" % names, *where)
    # sequences of commands with the node replaced between them and open() failing at any point: whatever happened before,
    # a command is only ever sent through a handle that is still open and was opened on the node that exists now
    nseq = 0
    for ncmd in (2, 3):
        si = StandIn(prog, check_condition="never", open_fails="fork", node_model=True).install()
        try:
            def tseq(ncmd=ncmd):
                si.node_gen = 0
                si.closed = set()
                dev = make_scsi_device(prog)
                put(prog, dev, "detect", True)
                for leaf in ident_leaves(slot(prog, dev, "ident")):
                    leaf.inode_gen = 0
                slot(prog, dev, "handle").opened_on_gen = 0
                log = []
                for i in range(ncmd):
                    if I.decide("the node is replaced before command %d" % (i + 1), None, _F()):
                        si.node_gen += 1
                    cmd, cdb, dout, din = marker_cmd(prog, 0, 8)
                    n0 = len(I.events)
                    try:
                        I.call_function(ex, [dev, cmd], {}, None, _F())
                        out = "returns"
                    except PyRaise as e_:
                        out = "raises " + e_.describe()[:60]
                    sent = [e for e in I.events[n0:] if e["kind"] == "external-call" and e["name"] == "sgio.execute"]
                    for e in sent:
                        h = e["args"][0]
                        log.append((i + 1, out, getattr(h, "name", repr(h)), getattr(h, "opened_on_gen", None), si.node_gen,
                                    getattr(h, "name", None) in si.closed))
                    if not sent:
                        log.append((i + 1, out, None, None, si.node_gen, False))
                return log
            paths = I.explore(tseq, max_paths=512)
        finally:
            si.remove()
        for p in paths:
            nseq += 1
            if not p.returned:
                run.violation("no-stale-handle", "SCSIDevice.execute sequence of %d commands" % ncmd, "the scenario raises %s" % p.raised.describe(), *where)
                continue
            bad = None
            for (i, out, h, hgen, gen, closed) in p.value:
                if h is None:
                    if out == "returns":
                        bad = "command %d returns normally without having been sent" % i
                    continue
                if closed:
                    bad = "command %d is sent through %s, which was closed before" % (i, h)
                elif hgen != gen:
                    bad = "command %d is sent through %s, opened on an earlier node at the device path (the node was replaced since)" % (i, h)
                if bad:
                    break
            c = "SCSIDevice.execute sequence of %d commands" % ncmd
            if bad:
                run.violation("no-stale-handle", c, "on the history [%s]: %s" % (p.cond_str(), bad), *where)
            else:
                run.ok("no-stale-handle", "%s [%s]" % (c, p.cond_str()))
    run.count("execute_sequences", nseq)
    run.count("execute_paths", npaths)
    run.floor("execute paths", npaths, 3)
    run.floor("execute sequences (node replaced / open fails)", nseq, 20)
    # the same test where the class keeps it in a method of its own (the pinned tree: SCSIDevice._is_replugged)
    try:
        isr = prog.func(DEV_MOD, "SCSIDevice", "_is_replugged")
    except AnalysisError:
        isr = None
        run.notes.append("SCSIDevice has no _is_replugged method: the replug test is decided through execute() only")
    if isr is not None:
        check_is_replugged(prog, run, isr, file)
    # open(): mode and bookkeeping
    op = prog.func(DEV_MOD, "SCSIDevice", "open")
    for rw, mode in ((False, "rb"), (True, "w+b")):
        if rw and scsi_layout(prog).get("read_write") is None:
            # the object keeps no copy of the readwrite argument (something derived from it instead): a read-write device can
            # only be made through the constructor -- the constructor-arguments rule below decides the mode it opens with
            continue
        si = StandIn(prog).install()
        try:
            def t3(rw=rw):
                dev = make_scsi_device(prog)
                put(prog, dev, "read_write", rw)
                I.call_function(op, [dev], {}, None, _F())
                return dev, [e for e in I.events if e["kind"] == "external-call"]
            ps = I.explore(t3, max_paths=8)
        finally:
            si.remove()
        for p in ps:
            c = "SCSIDevice.open read_write=%s" % rw
            if not p.returned:
                run.violation("open-bookkeeping", c, "raises %s" % p.raised.describe(), file, op.node.lineno, op.qualname)
                continue
            dev, calls = p.value
            o = [x for x in calls if x["name"] == "open"]
            st = [x for x in calls if x["name"] == "os.stat"]
            fname, handle, ident = slot(prog, dev, "file_name"), slot(prog, dev, "handle"), slot(prog, dev, "ident")
            good = (len(o) == 1 and o[0]["args"][0] is fname and (o[0]["args"][1:2] == [mode] or o[0]["kwargs"].get("mode") == mode)
                    and isinstance(handle, External) and handle.name.startswith("file-handle#")
                    and len(st) == 1 and st[0]["args"][0] is fname
                    and any(l.name.startswith("stat#") and l.name.endswith(".st_ino") for l in ident_leaves(ident)))
            if good:
                run.ok("open-bookkeeping", c, {"mode": mode})
            else:
                run.violation("open-bookkeeping", c, "open() must open self._file_name with mode %r, keep the handle and record the node's inode; calls %s"
                              % (mode, [(x["name"], x["args"]) for x in calls]), file, op.node.lineno, op.qualname)
    # the constructor as documented -- SCSIDevice(device, readwrite, detect_replugged, buffering) -- by position and by keyword:
    # "detection disabled" must mean that, however the caller says it
    for label, a_, k_, want in (("SCSIDevice(dev, False, False)", ["/dev/sg0", False, False], {}, (False, False, -1)),
                                ("SCSIDevice(dev, True, False, 0)", ["/dev/sg0", True, False, 0], {}, (True, False, 0)),
                                ("SCSIDevice(dev, detect_replugged=False)", ["/dev/sg0"], {"detect_replugged": False}, (False, False, -1)),
                                ("SCSIDevice(dev)", ["/dev/sg0"], {}, (False, True, -1)),
                                ("SCSIDevice(dev, True)", ["/dev/sg0", True], {}, (True, True, -1))):
        si = StandIn(prog).install()
        try:
            ps = I.explore(lambda a_=a_, k_=k_: I.instantiate(dcls, list(a_), dict(k_), None, _F()), max_paths=8)
        finally:
            si.remove()
        for p in ps:
            if not p.returned:
                run.violation("constructor-arguments", label, "raises %s" % p.raised.describe(), file, dcls.node.lineno, dcls.qualname)
                continue
            d = p.value
            # (an argument the object keeps no copy of -- only something derived from it, the mode string say -- is judged by
            # what open() was called with)
            Ld = scsi_layout(prog)
            got = tuple(slot(prog, d, role) if Ld.get(role) is not None else want[i] for i, role in enumerate(("read_write", "detect", "buffering")))
            opens = [e for e in p.events if e["kind"] == "external-call" and e["name"] == "open"]
            mode = opens[0]["args"][1] if opens and len(opens[0]["args"]) > 1 else None
            if got == want and mode == ("w+b" if want[0] else "rb"):
                run.ok("constructor-arguments", label)
            else:
                run.violation("constructor-arguments", label,
                              "gives read_write=%r, detect_replugged=%r, buffering=%r (opened with mode %r); the documented signature "
                              "(device, readwrite, detect_replugged, buffering) means %r" % (got + (mode, want)), file, dcls.node.lineno, dcls.qualname)
    # close / __exit__ : released exactly once, on every path, exceptions not suppressed
    def release_paths(cls_mod, cls_name, fname, mk, args, expect_call):
        f = prog.func(cls_mod, cls_name, fname)
        si = StandIn(prog).install()
        try:
            def t4():
                obj = mk()
                r = I.call_function(f, [obj] + list(args), {}, None, _F())
                return r, [e for e in I.events if e["kind"] == "external-call"], obj
            ps = I.explore(t4, max_paths=8)
        finally:
            si.remove()
        c = "%s.%s" % (cls_name, fname)
        for p in ps:
            if not p.returned:
                run.violation("handle-released-once", c, "raises %s" % p.raised.describe(), prog.rel(f.module), f.node.lineno, f.qualname)
                continue
            r, calls, obj = p.value
            rel = [x for x in calls if x["name"].endswith(expect_call)]
            if len(rel) != 1:
                run.violation("handle-released-once", c, "releases the handle %d times (calls %s)" % (len(rel), [x["name"] for x in calls]),
                              prog.rel(f.module), f.node.lineno, f.qualname)
            elif fname == "__exit__" and I.static_truth(r) is not False:
                run.violation("exit-does-not-suppress", c, "__exit__ returns %r: an exception inside the with block would be swallowed" % (r,),
                              prog.rel(f.module), f.node.lineno, f.qualname)
            else:
                run.ok("handle-released-once", c)

    exc_args = [None, None, None]
    release_paths(DEV_MOD, "SCSIDevice", "close", lambda: make_scsi_device(prog), [], ".close")
    release_paths(DEV_MOD, "SCSIDevice", "__exit__", lambda: make_scsi_device(prog), exc_args, ".close")
    release_paths(ISCSI_MOD, "ISCSIDevice", "close", lambda: make_iscsi_device(prog), [], ".disconnect")
    release_paths(ISCSI_MOD, "ISCSIDevice", "__exit__", lambda: make_iscsi_device(prog), exc_args, ".disconnect")

    def mk_scsi():
        s = Instance(prog.cls(SCSI_MOD, "SCSI"))
        s.attrs["device"] = make_scsi_device(prog)
        return s
    release_paths(SCSI_MOD, "SCSI", "__exit__", mk_scsi, exc_args, ".close")

    def mk_scsi_iscsi():
        s = Instance(prog.cls(SCSI_MOD, "SCSI"))
        s.attrs["device"] = make_iscsi_device(prog)
        return s
    # the same facade over the other transport (what close() returns there comes from the binding)
    release_paths(SCSI_MOD, "SCSI", "__exit__", mk_scsi_iscsi, exc_args, ".disconnect")
    # ... and with an exception in flight
    exc_live = [prog.I.bclasses["RuntimeError"], Instance(prog.I.bclasses["RuntimeError"]), None]
    release_paths(SCSI_MOD, "SCSI", "__exit__", mk_scsi_iscsi, exc_live, ".disconnect")
    release_paths(SCSI_MOD, "SCSI", "__exit__", mk_scsi, exc_live, ".close")
    release_paths(DEV_MOD, "SCSIDevice", "__exit__", lambda: make_scsi_device(prog), exc_live, ".close")
    release_paths(ISCSI_MOD, "ISCSIDevice", "__exit__", lambda: make_iscsi_device(prog), exc_live, ".disconnect")
    # __enter__ returns the object itself
    for mod, cn, mk in ((DEV_MOD, "SCSIDevice", lambda: make_scsi_device(prog)), (ISCSI_MOD, "ISCSIDevice", lambda: make_iscsi_device(prog)),
                        (SCSI_MOD, "SCSI", mk_scsi)):
        f = prog.func(mod, cn, "__enter__")
        res = []

        def t5():
            o = mk()
            res.append((o, I.call_function(f, [o], {}, None, _F())))
        I.explore(t5, max_paths=4)
        if res and res[0][0] is res[0][1]:
            run.ok("enter-returns-self", "%s.__enter__" % cn)
        else:
            run.violation("enter-returns-self", "%s.__enter__" % cn, "__enter__ does not return the object", prog.rel(f.module), f.node.lineno, f.qualname)


def check_is_replugged(prog, run, isr, file):
    I = prog.I
    si = StandIn(prog).install()
    try:
        def t2():
            dev = make_scsi_device(prog)
            r = I.call_function(isr, [dev], {}, None, _F())
            I.event("result", value=r)
            return dev, [e for e in I.events if e["kind"] == "external-call"]
        ps = I.explore(t2, max_paths=8)
    finally:
        si.remove()
    outcomes = set()
    for p in ps:
        if p.returned:
            dev, calls = p.value
            r = p.path and None
            cmp_ = [e for e in p.events if e["kind"] == "ext-compare"]
            val = None
            # the value returned on this path
            val = getattr(p, "retval", None)
            st = [c for c in calls if c["name"] == "os.stat"]
            if len(st) != 1 or st[0]["args"][0] is not slot(prog, dev, "file_name"):
                run.violation("replug-test-stats-device-path", "SCSIDevice._is_replugged", "does not stat self._file_name", file, isr.node.lineno, isr.qualname)
            elif len(st[0]["args"]) > 1 or any(k != "follow_symlinks" or v is not True for k, v in st[0]["kwargs"].items()):
                # os.stat(path, *, dir_fd=None, follow_symlinks=True): anything else looks at something other than the node
                # the path leads to (a symbolic link's own inode never changes when the device behind it is replaced)
                run.violation("replug-test-stats-device-path", "SCSIDevice._is_replugged os.stat arguments",
                              "the device path is examined with os.stat(%s): that is not the node the path currently leads to"
                              % ", ".join(["path"] + ["%s=%r" % kv for kv in st[0]["kwargs"].items()]), file, isr.node.lineno, isr.qualname)
    for p in ps:
        if not p.returned:
            continue
        cmp_ = [e for e in p.events if e["kind"] == "ext-compare"]
        res = [e for e in p.events if e["kind"] == "result"]
        if cmp_ and res:
            # every comparison pairs a field of the recorded identity with the same field of a fresh stat of the path; the
            # inode number is among them unless an earlier field already differed
            def field(x):
                return getattr(x, "stat_field", None) if isinstance(x, External) else None
            names2 = [sorted(x.name if isinstance(x, External) else repr(x) for x in (e["a"], e["b"])) for e in cmp_]
            same_pair = all(n[0].startswith("recorded-") and n[1].startswith("stat#") and field(e["a"]) == field(e["b"]) is not None
                            for n, e in zip(names2, cmp_))
            replaced = any(not e["equal"] for e in cmp_)
            if same_pair and not replaced and not any(field(e["a"]) == "st_ino" for e in cmp_):
                same_pair = False
            said = I.static_truth(res[-1]["value"])
            if not same_pair:
                run.violation("replug-test-compares-inode", "SCSIDevice._is_replugged operands",
                              "compares %s, not the node's current inode with the recorded one" % names2, file, isr.node.lineno, isr.qualname)
            elif said is not replaced:
                run.violation("replug-test-compares-inode", "SCSIDevice._is_replugged polarity",
                              "reports %r when the inode %s" % (said, "changed" if replaced else "is unchanged"), file, isr.node.lineno, isr.qualname)
            else:
                run.ok("replug-test-compares-inode", "SCSIDevice._is_replugged inode %s" % ("changed" if replaced else "same"))
    decided = [p.path for p in ps]
    if len(ps) >= 2 and any("!=" in d[0][0] or "==" in d[0][0] for d in decided if d):
        run.ok("replug-test-stats-device-path", "SCSIDevice._is_replugged")
    elif len(ps) < 2:
        run.violation("replug-test-compares-inode", "SCSIDevice._is_replugged", "the result does not depend on the inode comparison", file,
                      isr.node.lineno, isr.qualname)
