"""C19 -- the transport bindings are optional; a missing one is refused, not
half-used."""
from __future__ import annotations

import ast
import sys

from ..cmdeval import *
from ..cmdeval import _F
from ..model import Program
from ..rt import *
from ..standin import StandIn
from ..values import *
from spec import cdb as refcdb

BINDINGS = {"sgio": ("pyscsi.pyscsi.scsi_device", "_has_sgio", "SCSIDevice", "/dev/sg1"),
            "iscsi": ("pyscsi.pyiscsi.iscsi_device", "_has_iscsi", "ISCSIDevice", "iscsi://host/iqn.x/0")}
STDLIB = set(getattr(sys, "stdlib_module_names", ())) | {"typing"}


def import_sites(tree):
    """(node, top-module names, enclosing chain) for every import statement"""
    out = []

    def rec(node, chain):
        for child in ast.iter_child_nodes(node):
            if isinstance(child, ast.Import):
                out.append((child, [a.name.split(".")[0] for a in child.names], chain))
            elif isinstance(child, ast.ImportFrom):
                if child.level == 0 and child.module:
                    out.append((child, [child.module.split(".")[0]], chain))
            rec(child, chain + [child])
    rec(tree, [])
    return out


def check(prog, run):
    I = prog.I
    run.explanation = ("who-may-import rule over every module of pyscsi/ (ast); the package is loaded into the abstract interpreter "
                       "four times, with neither / either / both bindings importable, and must import without error each time; the "
                       "device constructors and init_device are interpreted over stand-in open()/iscsi for every presence "
                       "combination x device-string class: the refusal must come before any file or connection is opened, the "
                       "accepted case must open exactly the requested path / URL; all 42 commands are constructed with both "
                       "bindings absent")
    run.rule_text = "one obligation per import statement, per (presence combination, module), per (combination, device string)"
    run.trusted += ["python import semantics as modelled (a missing module raises ModuleNotFoundError, a subclass of ImportError)"]
    nimports = 0
    # (a) who may import the bindings; no third-party imports
    for name, m in prog.modules.items():
        for node, tops, chain in import_sites(m.tree):
            nimports += 1
            for top in tops:
                c = "%s imports %s" % (name, top)
                if top in BINDINGS:
                    home, flag, _, _ = BINDINGS[top]
                    tries = [x for x in chain if isinstance(x, ast.Try)]
                    # `with contextlib.suppress(ImportError): import x` guards the import like try / except ImportError: pass
                    suppressed = any(isinstance(x, ast.With) and any(
                        isinstance(it.context_expr, ast.Call) and ast.unparse(it.context_expr.func).split(".")[-1] == "suppress"
                        and any(ast.unparse(a_).split(".")[-1] in ("ImportError", "ModuleNotFoundError", "Exception", "BaseException") for a_ in it.context_expr.args)
                        for it in x.items) for x in chain)
                    in_func = any(isinstance(x, (ast.FunctionDef, ast.ClassDef)) for x in chain)
                    good = False
                    why = ""
                    if name != home:
                        why = "only %s may import the %s binding" % (home, top)
                    elif in_func or suppressed or any(isinstance(x, ast.If) for x in chain):
                        # imported on demand inside a function, or under a condition (a presence test such as
                        # importlib.util.find_spec): whether the module still imports without the binding is decided below (b)
                        good = True
                    elif not tries:
                        why = "the import of the optional binding is not guarded (no try/except ImportError, no presence test)"
                    else:
                        t = tries[-1]
                        catches = False
                        for h in t.handlers:
                            names = []
                            if h.type is None:
                                names = ["BaseException"]
                            elif isinstance(h.type, ast.Name):
                                names = [h.type.id]
                            elif isinstance(h.type, ast.Tuple):
                                names = [e.id for e in h.type.elts if isinstance(e, ast.Name)]
                            if any(n in ("ImportError", "ModuleNotFoundError", "Exception", "BaseException") for n in names):
                                catches = True
                        if not catches:
                            why = "the guarding try has no handler for ImportError"
                        else:
                            good = True
                    if good:
                        run.ok("binding-import-guarded", c)
                    else:
                        run.violation("binding-import-guarded", c, why, prog.rel(m), node.lineno)
                elif top == "pyscsi" or top in STDLIB:
                    run.ok("import-is-local-or-stdlib", c, nontrivial=False)
                else:
                    run.violation("import-is-local-or-stdlib", c,
                                  "the library imports third-party module %s: it would not import without it" % top, prog.rel(m), node.lineno)
    stmt_bindings = set(top for name, m in prog.modules.items() for node, tops, chain in import_sites(m.tree) for top in tops if top in BINDINGS)
    for b in sorted(set(BINDINGS) - stmt_bindings):
        # no import statement names this binding (it is imported by a call -- importlib.import_module and the like -- or not
        # at all): there is nothing for the statement rule to guard; that every module still imports without it is (b)
        run.ok("binding-import-guarded", "no import statement names %s: presence handled dynamically, decided by module-imports" % b)
    run.count("import_statements", nimports)
    run.floor("import statements", nimports, 100)
    # (b) every module imports under all four presence combinations
    combos = [(), ("sgio",), ("iscsi",), ("sgio", "iscsi")]
    progs = {}
    for missing in combos:
        p2 = prog if not missing else Program(prog.repo, missing=missing)
        progs[missing] = p2
        label = "missing=%s" % (",".join(missing) or "none")
        for name, m in p2.modules.items():
            c = "%s imports (%s)" % (name, label)
            if m.import_errors:
                ln, desc = m.import_errors[0]
                run.violation("module-imports", "%s %s" % (name, label), "importing %s raises %s" % (name, desc), p2.rel(m), ln)
            else:
                run.ok("module-imports", c)
        for e in p2.load_events:
            if e["kind"] == "import-unresolved":
                run.violation("import-resolves", "%s.%s" % (e["module"], e["name"]), "unresolved import at %s" % e["where"])
            if e["kind"] == "name-error":
                run.violation("module-level-names-defined", "%s %s" % (e["where"], e["name"]), "undefined name %s at import time" % e["name"])
        # flags follow presence
        for b, (home, flag, cname, devstr) in BINDINGS.items():
            val = p2.module(home).env.get(flag)
            want = b not in missing
            c = "%s.%s (%s)" % (home, flag, label)
            if flag not in p2.module(home).env:
                # the module keeps its presence test under another name (or none): what matters -- refusal when the binding
                # is missing, the device opened when it is there -- is decided by the constructor scenarios below
                run.ok("presence-flag", c + " [no such name: decided through the constructors]", nontrivial=False)
            elif val is want:
                run.ok("presence-flag", c)
            else:
                run.violation("presence-flag", c, "%s is %r when the %s binding is %s" % (flag, val, b, "present" if want else "missing"),
                              p2.rel(p2.module(home)), None)
    run.count("module_loads", sum(len(p.modules) for p in progs.values()))
    # (c) device constructors and init_device
    strings = {"sgio": ["/dev/sg1", "/dev/", "/dev/bsg/0:0:0:0", "/dev/disk/by-id/scsi-3600 a@b", "/dev/SG_Mixed/Case"],
               "iscsi": ["iscsi://host/iqn.x/0", "iscsi://user%secret@10.0.0.1:3260/iqn.2003-01.org.example:disk0/2",
                         "iscsi://[fe80::1]:3260/iqn.x/0", "iscsi://Admin%PassWord@Host.Example.ORG/iqn.2003-01.org.Example:Disk0/2"], "other": ["foo", "", "/devx/sg1", "ISCSI://h/t/0", "iscsi:/h"]}
    for missing, p2 in progs.items():
        I2 = p2.I
        label = "missing=%s" % (",".join(missing) or "none")
        initdev = p2.func("pyscsi.utils", None, "init_device")
        for kind, devs in strings.items():
            for dev in devs:
                for extra in ({}, {"read_write": True}, {"initiator_name": "iqn.me"}):
                    si = StandIn(p2).install()
                    try:
                        def th(dev=dev, extra=extra):
                            return I2.call_function(initdev, [dev], dict(extra), None, _F())
                        ps = I2.explore(th, max_paths=32)
                    finally:
                        si.remove()
                    c = "init_device(%r%s) %s" % (dev, "".join(", %s=%r" % kv for kv in extra.items()), label)
                    for p in ps:
                        calls = [e for e in p.events if e["kind"] == "external-call"]
                        ec = p.raised.exc_class() if not p.returned else None
                        expect_ok = kind in ("sgio", "iscsi") and kind not in missing
                        where = (p2.rel(initdev.module), initdev.node.lineno, initdev.qualname)
                        if not expect_ok:
                            if p.returned or ec is None or ec.name != "NotImplementedError":
                                run.violation("unsupported-device-refused", c, "%s" % ("a device object is returned" if p.returned else "raises " + p.raised.describe()), *where)
                            elif calls:
                                run.violation("refused-before-open", c, "%s is called before the refusal" % calls[0]["name"], *where)
                            else:
                                run.ok("unsupported-device-refused", c)
                            continue
                        cname = BINDINGS[kind][2]
                        if not p.returned:
                            run.violation("supported-device-opened", c, "raises %s" % p.raised.describe(), *where)
                            continue
                        d = p.value
                        if not isinstance(d, Instance) or d.cls.name != cname:
                            run.violation("supported-device-opened", c, "returns %r, expected a %s" % (d, cname), *where)
                            continue
                        if kind == "sgio":
                            o = [x for x in calls if x["name"] == "open"]
                            mode = "w+b" if extra.get("read_write") else "rb"
                            if len(o) == 1 and o[0]["args"][0] == dev and o[0]["args"][1] == mode:
                                run.ok("supported-device-opened", c, {"open": [dev, mode]})
                            else:
                                run.violation("supported-device-opened", c, "open() calls: %s; expected exactly open(%r, %r)"
                                              % ([(x["args"]) for x in o], dev, mode), *where)
                        else:
                            url = [x for x in calls if x["name"] == "iscsi.URL"]
                            ctx = [x for x in calls if x["name"] == "iscsi.Context"]
                            conn = [x for x in calls if x["name"].endswith(".connect")]
                            okurl = len(url) == 1 and url[0]["args"][1] == dev
                            okctx = len(ctx) == 1 and ("initiator_name" not in extra or ctx[0]["args"][0] == extra["initiator_name"])
                            if okurl and okctx and len(conn) == 1:
                                run.ok("supported-device-opened", c)
                            else:
                                run.violation("supported-device-opened", c, "iscsi calls %s; expected one Context, one URL(ctx, %r), one connect"
                                              % ([(x["name"], x["args"]) for x in calls], dev), *where)
        # direct constructors: wrong prefix / missing binding refused before open
        for b, (home, flag, cname, good) in BINDINGS.items():
            cls = p2.cls(home, cname)
            # the path a transport handles is "/dev/..." / "iscsi://...": pieces of the prefix, the other transport's prefix, the
            # prefix elsewhere in the string and the empty string are not
            near = {"sgio": ["/dev", "dev/", "/de", "/", "", "ev/", "/devx/sg1", "x/dev/sg1", "iscsi://h/t/0", "/DEV/sg1"],
                    "iscsi": ["iscsi:/", "iscsi:", "iscsi", "scsi://h/t/0", "://", "", "/dev/sg1", "xiscsi://h/t/0", "ISCSI://h/t/0"]}[b]
            # without the binding nothing is a device this transport can serve, whatever the caller passes (a file descriptor,
            # None ...): the refusal does not depend on being able to look into the argument
            odd = [3, None] if b in missing else []
            for dev in [good, "bogus://x"] + near + odd:
                si = StandIn(p2).install()
                try:
                    ps = I2.explore(lambda dev=dev: I2.instantiate(cls, [dev], {}, None, _F()), max_paths=32)
                finally:
                    si.remove()
                expect_ok = dev == good and b not in missing
                c = "%s(%r) %s" % (cname, dev, label)
                for p in ps:
                    calls = [e for e in p.events if e["kind"] == "external-call"]
                    ec = p.raised.exc_class() if not p.returned else None
                    where = (p2.rel(cls.module), cls.node.lineno, cls.qualname)
                    if expect_ok:
                        if p.returned:
                            run.ok("constructor-guard", c)
                        else:
                            run.violation("constructor-guard", c, "raises %s although the binding is present and the path matches" % p.raised.describe(), *where)
                    elif p.returned or ec is None or ec.name != "NotImplementedError":
                        run.violation("constructor-guard", c, "not refused with NotImplementedError: %s" % ("constructed" if p.returned else p.raised.describe()), *where)
                    elif calls:
                        run.violation("refused-before-open", c, "%s is called before the refusal" % calls[0]["name"], *where)
                    else:
                        run.ok("constructor-guard", c)
    # (d) with both bindings absent every command can still be built
    p0 = progs[("sgio", "iscsi")]
    n = 0
    for key, entry in refcdb.CDB.items():
        cons = construct_all(p0, key, entry, sets=[s for s, k, o in opcode_entries(p0, entry["names"])][:1], max_combos=600)
        good = [c for c in cons if c.path.returned]
        n += 1
        if good:
            run.ok("commands-build-without-bindings", key.split(":")[1])
        else:
            run.violation("commands-build-without-bindings", key.split(":")[1],
                          "cannot be constructed with the bindings absent: %s" % (cons[0].path.raised.describe() if cons else "no opcode"),
                          None, None, key)
    run.count("commands_built_without_bindings", n)
