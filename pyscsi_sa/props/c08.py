"""C08 -- sense data is always decodable and printable, with the right
key/ASC/ASCQ."""
from __future__ import annotations

import ast
import re

from ..astutil import norm
from ..decoders import cond_facts
from ..rt import *
from ..tablecheck import check_tables
from ..values import *

SENSE = "pyscsi.pyscsi.scsi_sense"


class _F:
    def where(self, node=None):
        return "c08"


def key_range(sym, facts):
    """(lo, hi, excluded) of a dynamic dictionary key"""
    sym = norm_int(sym)
    if isinstance(sym, int):
        return sym, sym, set()
    lo, hi = sym.lo, sym.hi
    ex = set()
    f = facts.get(("sym", sym.key()))
    if f is not None:
        if f[0] == "eq" and isinstance(f[1], int):
            return f[1], f[1], set()
        if f[0] == "range":
            lo = max(lo, f[1][0])
            hi = f[1][1] if hi is None else (hi if f[1][1] is None else min(hi, f[1][1]))
        if f[0] == "ne":
            ex = set(f[1])
    return lo, hi, ex


def check(prog, run):
    I = prog.I
    run.explanation = ("SCSICheckCondition(sense) followed by str() (and print_data) is abstractly interpreted on a sense buffer of "
                       "unknown content: the response-code dispatch forks with equality refinement so the paths partition all 128 "
                       "response codes; a path that ends in an exception (an attribute or key read before assignment) is a violation; "
                       "every subscript of a literal dictionary by a device-derived key must be total over the key's value range "
                       "(bit width refined by the path's guards) or be a .get(); %-format directives must receive values of the "
                       "kind they format; the two sense-format tables are compared with SPC's positions; literal dictionaries "
                       "have no duplicate keys")
    run.rule_text = "one obligation per (path, clause), per dictionary lookup site, per table field, per dictionary literal"
    run.trusted += ["spec/tables.py sense positions", "python %-format semantics as modelled"]
    run.assumptions += ["the T10 text of each assigned ASC/ASCQ is not decided (no copy of asc-num.txt in the sandbox)"]
    check_tables(prog, run, {"sense"}, rule_prefix="table")
    cls = prog.cls(SENSE, "SCSICheckCondition")
    mod = prog.module(SENSE)
    file = prog.rel(mod)
    init = cls.lookup("__init__")[0]
    strf = cls.lookup("__str__")[0]
    if not isinstance(init, FuncVal) or not isinstance(strf, FuncVal):
        raise AnalysisError("anchor-missing", "SCSICheckCondition.__init__/__str__")
    # T10's texts are plain ASCII; a character outside it (a typographic dash pasted from the PDF) makes the text differ from
    # T10's and makes print() raise UnicodeEncodeError on a stream that cannot encode it
    smod = cls.module
    ntext = 0
    for dname, dval in sorted(smod.env.items()):
        if isinstance(dval, dict):
            for k, v in dval.items():
                if isinstance(v, str):
                    ntext += 1
                    badch = [ch for ch in v if not (32 <= ord(ch) < 127)]
                    if badch:
                        run.violation("text-is-plain-ascii", "%s[%s]" % (dname, ("%#06x" % k) if isinstance(k, int) else repr(k)),
                                      "the text %r contains %s: not T10's text, and printing it fails on an ASCII / Latin-1 stream"
                                      % (v, ", ".join("U+%04X" % ord(ch) for ch in badch[:3])), file, None, cls.qualname)
    run.ok("text-is-plain-ascii", "%d texts in %s" % (ntext, smod.name), {"texts": ntext})
    run.require(ntext > 500, "anchor-missing", "sense text dictionaries (%d texts)" % ntext)
    npaths = 0
    lookups = {}
    # a transport that has no sense data to pass on (an empty buffer from the driver, None from a binding without sense
    # propagation) must still be able to raise the error
    for label, mk in (("an empty sense buffer", lambda: Buf(cells=[])), ("no sense buffer (None)", lambda: None)):
        for show in (False, True):
            def th0(mk=mk, show=show):
                e = I.instantiate(cls, [mk()], {"print_data": show} if show else {}, None, _F())
                return I.call_function(strf, [e], {}, None, _F())
            bad = [p for p in I.explore(th0, max_paths=16) if not p.returned]
            if bad:
                run.violation("sense-error-constructible-and-printable", "SCSICheckCondition from %s" % label,
                              "constructing / printing the CheckCondition error from %s raises %s" % (label, bad[0].raised.describe()),
                              file, getattr(bad[0].raised.node, "lineno", init.node.lineno), cls.qualname)
            else:
                run.ok("sense-error-constructible-and-printable", "SCSICheckCondition from %s print_data=%s" % (label, show))
    # ... and a target (or an HBA that truncates) can return a sense buffer of any length: every length from 1 byte up, for
    # each defined response code, with all other bytes arbitrary
    nshort = 0
    for rc in (0x70, 0x71, 0x72, 0x73):
        for ln in list(range(1, 20)) + [24, 32]:
            for show in (False, True):
                nshort += 1

                def th1(rc=rc, ln=ln, show=show):
                    buf = Buf(cells=[rc] + [mem_byte("sense", (None, i)) for i in range(1, ln)])
                    e = I.instantiate(cls, [buf], {"print_data": show} if show else {}, None, _F())
                    return I.call_function(strf, [e], {}, None, _F())
                bad = [p for p in I.explore(th1, max_paths=64) if not p.returned]
                c = "SCSICheckCondition response code %#x, %d byte sense" % (rc, ln)
                if bad:
                    run.violation("sense-error-constructible-and-printable", c,
                                  "a %d-byte sense buffer with response code %#x%s: constructing / printing the error raises %s"
                                  % (ln, rc, " (print_data=True)" if show else "", bad[0].raised.describe()),
                                  file, getattr(bad[0].raised.node, "lineno", init.node.lineno), cls.qualname)
                else:
                    run.ok("sense-error-constructible-and-printable", c + (" print_data" if show else ""), nontrivial=False)
    run.count("short_sense_cases", nshort)
    # two errors alive at once (one kept from an earlier command, one raised now): what the first reports must be its own --
    # no mutable object may be common to both (they would show each other's sense key), nor come from import time
    for rc_a, rc_b in ((0x70, 0x70), (0x70, 0x71), (0x72, 0x72), (0x72, 0x73), (0x70, 0x72)):
        def th2(rc_a=rc_a, rc_b=rc_b):
            ea = I.instantiate(cls, [Buf(cells=[rc_a] + [mem_byte("senseA", (None, i)) for i in range(1, 32)])], {}, None, _F())
            eb = I.instantiate(cls, [Buf(cells=[rc_b] + [mem_byte("senseB", (None, i)) for i in range(1, 32)])], {}, None, _F())
            return ea, eb
        ps2 = [p for p in I.explore(th2, max_paths=64) if p.returned]
        c = "two SCSICheckCondition objects, response codes %#x and %#x" % (rc_a, rc_b)
        shared = None
        for p in ps2:
            ea, eb = p.value
            if isinstance(ea, Instance) and isinstance(eb, Instance):
                for ka, va in ea.attrs.items():
                    if isinstance(va, (dict, list, set, Buf)):
                        if id(va) in I.static_ids:
                            continue            # a class- or module-level table both refer to (layouts, texts): not per-error state
                        for kb, vb in eb.attrs.items():
                            if va is vb:
                                shared = (ka, kb, "one object for both errors")
        if shared:
            run.violation("errors-do-not-share-state", c,
                          "the first error's .%s and the second error's .%s are %s: an error kept from an earlier command shows "
                          "what a later one decoded" % shared, file, init.node.lineno, cls.qualname)
        elif ps2:
            run.ok("errors-do-not-share-state", c)
    stale_prints, fresh_prints = {}, set()
    for show in (False, True):
        def th(show=show):
            e = I.instantiate(cls, [View("sense")], {"print_data": show} if show else {}, None, _F())
            s = I.call_function(strf, [e], {}, None, _F())
            return e, s
        paths = I.explore(th, max_paths=200)
        for p in paths:
            npaths += 1
            conds = cond_facts(I, p.facts)
            rc = [c for c in conds if c[0] and c[0][0] == "bytes" and c[0][1] == ("abs", 0)]
            label = "response code %s, print_data=%s" % (describe_rc(rc), show)
            if not p.returned:
                run.violation("sense-error-constructible-and-printable", "SCSICheckCondition %s" % describe_rc(rc),
                              "constructing / printing the CheckCondition error itself raises %s for sense data with %s"
                              % (p.raised.describe(), label), file,
                              getattr(p.raised.node, "lineno", init.node.lineno), cls.qualname, facts={"path": p.cond_str()})
            else:
                e, s = p.value
                if not isinstance(s, (str, SymStr)):
                    run.violation("sense-error-constructible-and-printable", "SCSICheckCondition.__str__ result",
                                  "__str__ returns %r (not a string)" % (s,), file, strf.node.lineno, strf.qualname)
                else:
                    run.ok("sense-error-constructible-and-printable", "SCSICheckCondition %s print_data=%s" % (describe_rc(rc), show))
                    # the reported key / asc / ascq are the decoded fields of the format
                    for attr, field in (("asc", "additional_sense_code"), ("ascq", "additional_sense_code_qualifier")):
                        data = e.attrs.get("data")
                        if isinstance(data, dict) and field in data:
                            if e.attrs.get(attr) is data[field] or (isinstance(e.attrs.get(attr), Sym) and e.attrs[attr].same_value(data[field])):
                                run.ok("reported-code-is-decoded-field", "SCSICheckCondition.%s (%s)" % (attr, describe_rc(rc)), nontrivial=False)
                            else:
                                run.violation("reported-code-is-decoded-field", "SCSICheckCondition.%s" % attr,
                                              "exc.%s is %r, not the %s field of the sense format" % (attr, e.attrs.get(attr), field),
                                              file, init.node.lineno, init.qualname)
            for ev in p.events:
                if ev["kind"] == "print":
                    f = ev.get("file")
                    c = "print() at %s" % (ev["where"],)
                    if f is not None and getattr(f, "at_import", False):
                        stale_prints.setdefault(c, (f, ev))
                    else:
                        fresh_prints.add(c)
                if ev["kind"] == "dynamic-dict-lookup" and ev.get("origin") and not ev.get("guarded"):
                    k = (ev["origin"], norm(ev["node"]))
                    lo, hi, ex = key_range(ev["key"], p.facts)
                    rec = lookups.setdefault(k, {"node": ev["node"], "obj": ev["obj"], "ranges": [], "where": ev["where"]})
                    rec["ranges"].append((lo, hi, frozenset(ex), p.cond_str()))
                if ev["kind"] == "str-format":
                    check_format(run, ev, file)
    # what is printed goes to the stream that is current when it is printed: a stream object captured when the module was
    # imported (a default argument, a module-level alias of sys.stdout) is closed or replaced by the time an application that
    # redirects its output sees the error, and print() to it raises ValueError
    for c, (f, ev) in sorted(stale_prints.items()):
        run.violation("prints-to-the-current-stream", c,
                      "the text is written to %r as it was when the module was imported, not to the stream current at the time "
                      "of printing: after the application closes or replaces that stream, printing the sense data raises" % (f,),
                      file, getattr(ev.get("node"), "lineno", None), cls.qualname)
    for c in sorted(fresh_prints - set(stale_prints)):
        run.ok("prints-to-the-current-stream", c)
    for (origin, text), rec in lookups.items():
        d = rec["obj"]
        missing = set()
        span = 0
        for lo, hi, ex, cond in rec["ranges"]:
            if hi is None or hi - lo > (1 << 20):
                missing.add("unbounded")
                continue
            span = max(span, hi - lo + 1)
            for v in range(lo, hi + 1):
                if v not in ex and v not in d:
                    missing.add(v)
                    if len(missing) > 4096:
                        break
        c = "%s in %s" % (text, rec["where"].split("@")[0])
        if missing:
            ms = sorted(x for x in missing if isinstance(x, int))
            run.violation("dictionary-lookup-total", c,
                          "%s is subscripted by a value the device controls (range size %d) but %d possible value(s) are not keys "
                          "(e.g. %s): printing the error raises KeyError" % (origin.split(":")[-1], span, len(missing),
                                                                             ", ".join("%#x" % x for x in ms[:5]) or "unbounded"),
                          file, rec["node"].lineno, rec["where"].split("@")[0])
        else:
            run.ok("dictionary-lookup-total", c, {"keys": len(d), "range": span})
    # the reported key / ASC / ASCQ sit at SPC's positions, for each of the four defined response codes
    SPC = {0x70: ((2, 3, 0), 12, 13), 0x71: ((2, 3, 0), 12, 13), 0x72: ((1, 3, 0), 2, 3), 0x73: ((1, 3, 0), 2, 3)}
    for rc, (keypos, ascpos, ascqpos) in SPC.items():
        # (the sense buffer as a bytearray, and -- with the VALID bit clear -- as the bytes / memoryview a binding may hand over)
        for valid, form in ((0x00, None), (0x80, None), (0x00, "bytes"), (0x00, "memoryview")):
            def th2(rc=rc, valid=valid, form=form):
                buf = Buf(cells=[rc | valid] + [mem_byte("sense", (None, i)) for i in range(1, 32)])
                buf.pytype = form
                e = I.instantiate(cls, [buf], {}, None, _F())
                s_ = I.call_function(strf, [e], {}, None, _F())
                fm = [ev for ev in I.events if ev["kind"] == "str-format"]
                return e, fm
            ps = I.explore(th2, max_paths=16)
            c = "response code %#x%s" % (rc | valid, (" (sense given as %s)" % form) if form else "")
            for p in ps:
                if not p.returned:
                    run.violation("sense-error-constructible-and-printable", "SCSICheckCondition %s" % c, "raises %s" % p.raised.describe(),
                                  file, init.node.lineno, cls.qualname)
                    continue
                e, fm = p.value
                want_asc = mem_byte("sense", (None, ascpos))
                want_ascq = mem_byte("sense", (None, ascqpos))
                kb = mem_byte("sense", (None, keypos[0]))
                want_key = tuple(kb.bits[keypos[2]:keypos[1] + 1])
                got_asc, got_ascq = norm_int(e.attrs.get("asc")), norm_int(e.attrs.get("ascq"))
                data = e.attrs.get("data")
                got_key = norm_int(data.get("sense_key")) if isinstance(data, dict) else None
                okk = (isinstance(got_asc, Sym) and got_asc.bits == want_asc.bits and isinstance(got_ascq, Sym) and got_ascq.bits == want_ascq.bits
                       and isinstance(got_key, Sym) and got_key.bits == want_key)
                if not okk:
                    run.violation("reported-codes-at-spc-positions", "SCSICheckCondition %s" % ("fixed format" if rc < 0x72 else "descriptor format"),
                                  "for %s the error reports sense key %r, ASC %r, ASCQ %r; SPC places them at byte %d bits %d..%d, byte %d, byte %d"
                                  % (c, repr(got_key)[:90], repr(got_asc)[:90], repr(got_ascq)[:90], keypos[0], keypos[1], keypos[2], ascpos, ascqpos),
                                  file, init.node.lineno, init.qualname)
                    continue
                # and str() shows those very values
                # (the text may be put together in one step or in several: what matters is that both values are printed)
                vals = [norm_int(a) for ev in fm for a in ev["args"]]
                has_key = any(isinstance(v, Sym) and v.bits == want_key for v in vals)
                comb = sym_binop("+", sym_binop("<<", want_asc, 8), want_ascq)
                has_code = any(isinstance(v, Sym) and v.bits == comb.bits for v in vals)
                shown = has_key and has_code
                if shown:
                    run.ok("reported-codes-at-spc-positions", "SCSICheckCondition %s" % c)
                else:
                    run.violation("reported-codes-at-spc-positions", "SCSICheckCondition.__str__ %s" % ("fixed format" if rc < 0x72 else "descriptor format"),
                                  "str() of the error does not show the decoded sense key and ASC/ASCQ for %s" % c, file, strf.node.lineno, strf.qualname)
    # literal dictionaries: no duplicate keys
    ndict = 0
    # (the sense module and the modules of the library it takes its tables and texts from)
    dict_mods = [mod] + [m for m in prog.modules.values() if m is not mod and getattr(m, "tree", None) is not None
                         and (any(v is mv for v in mod.env.values() for mv in m.env.values() if isinstance(mv, dict) and len(mv) >= 8)
                              or any(isinstance(b, ClassVal) and b.module is m for b in cls.mro()))]
    for dmod in dict_mods:
      file_d = prog.rel(dmod)
      for n in ast.walk(dmod.tree):
        if isinstance(n, ast.Dict):
            keys = [k.value for k in n.keys if isinstance(k, ast.Constant)]
            if len(keys) < 8:
                continue
            ndict += 1
            dup = sorted(set(k for k in keys if keys.count(k) > 1), key=repr)
            if dup:
                run.violation("no-duplicate-keys", "dict literal at first key %r" % (keys[0],),
                              "duplicate keys %s: the later entry silently replaces the earlier" % (dup[:5],), file_d, n.lineno)
            else:
                run.ok("no-duplicate-keys", "dict literal with %d keys starting %r" % (len(keys), keys[0]))
    run.count("paths", npaths)
    run.count("dict_literals", ndict)
    run.count("lookup_sites", len(lookups))
    run.floor("paths through __init__/__str__", npaths, 4)
    run.floor("large literal dictionaries", ndict, 2)


def describe_rc(rc):
    if not rc:
        return "any"
    out = []
    for d, f in rc:
        if f[0] == "eq":
            out.append("== %#x" % f[1])
        elif f[0] == "ne":
            out.append("not in {%s}" % ", ".join("%#x" % x for x in f[1]))
        else:
            out.append(repr(f))
    return " ".join(out)


def check_format(run, ev, file):
    fmt = ev["fmt"]
    args = ev["args"]
    dirs = re.findall(r"%[-+ #0]*\d*(?:\.\d+)?([sdxXrif%])", fmt)
    dirs = [d for d in dirs if d != "%"]
    node = ev["node"]
    c = "format %r" % fmt
    # the literal text of everything the error prints or returns is plain ASCII, like T10's texts: anything else makes
    # print() raise UnicodeEncodeError on a stream that cannot encode it (an ASCII / Latin-1 terminal, a redirected log)
    odd = sorted(set(ch for ch in fmt if ord(ch) > 126 or (ord(ch) < 32 and ch not in "\n\t")))
    if odd:
        run.violation("text-is-plain-ascii", c, "the format string contains %s: printing the error fails on an ASCII / Latin-1 stream"
                      % ", ".join("U+%04X" % ord(ch) for ch in odd), file, node.lineno)
    else:
        run.ok("text-is-plain-ascii", c, nontrivial=False)
    if len(dirs) != len(args):
        run.violation("format-arguments-fit", c, "%d directives but %d arguments" % (len(dirs), len(args)), file, node.lineno)
        return
    for d, a in zip(dirs, args):
        a = norm_int(a)
        if d in "dxXi" and not isinstance(a, (int, Sym)):
            run.violation("format-arguments-fit", c, "directive %%%s receives %r" % (d, a), file, node.lineno)
            return
    run.ok("format-arguments-fit", c, nontrivial=False)
