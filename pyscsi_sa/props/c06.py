"""C06 -- parameter data survives a build/parse round trip and read-modify-write."""
from __future__ import annotations

import copy

from ..cmdeval import cell_bits
from ..images import *
from ..rt import *
from ..values import *
from spec import roundtrip as refrt


class _F:
    def where(self, node=None):
        return "c06"


def canonical(buf):
    """the same byte string with every symbolic bit replaced by a fresh device bit:
    a canonical response of that shape with arbitrary field contents"""
    cells = []
    for i, c in enumerate(buf.cells):
        cb = cell_bits(c)
        if cb is None:
            raise AnalysisError("canonical", "byte %d of the built structure has no bit view: %r" % (i, c))
        bits = [b if b in (0, 1) else frozenset([("m", "canon", (None, i), j)]) for j, b in enumerate(cb)]
        cells.append(norm_int(Sym(bits=bits)))
    return Buf(cells=cells)


def thorough(prog, run):
    """deeper shapes: more descriptors, every designator kind in one page, every iSCSI name length 5..44"""
    check(prog, run, cases=refrt.MORE_CASES, floors=False)


def check(prog, run, cases=None, floors=True):
    I = prog.I
    run.explanation = ("for every structure with both directions and every enumerated shape (descriptor counts, designator / page / "
                       "TransportID kinds) the library's marshaller is abstractly interpreted on a value dictionary whose leaves are "
                       "symbolic (one symbol per bit), the parser is interpreted on the resulting byte image, and the parsed "
                       "dictionary must return every original leaf bit for bit (all values of that shape at once); conversely the "
                       "image with fresh device bits at every field position is parsed and re-marshalled and must reproduce itself "
                       "byte for byte (read-modify-write)")
    run.rule_text = "one obligation per (structure, shape, direction); shapes are listed in spec/roundtrip.py"
    run.trusted += ["spec/roundtrip.py (value dictionaries as documented / returned by the parsers), spec/tables.py (leaf widths)"]
    run.assumptions += ["shapes outside the enumerated ones (more descriptors, block descriptors in mode data) are not decided"]
    ncase = 0
    for case in (cases if cases is not None else refrt.CASES):
        ncase += 1
        modname, clsname = case["cls"].split(":")
        cls = prog.cls(modname, clsname)
        fm = prog.func(modname, clsname, case["marshall"])
        fu = prog.func(modname, clsname, case["unmarshall"])
        file = prog.rel(fm.module)
        c = case["name"]

        def th(case=case, cls=cls):
            d = case["build"]()
            d0 = copy.deepcopy(d)
            m = I.get_attr(cls, case["marshall"], None, _F())
            u = I.get_attr(cls, case["unmarshall"], None, _F())
            b = I.call(m, [d], {}, None, _F())
            if not isinstance(b, (Buf, bytes)):
                I.event("built", value=b)
                return ("not-bytes", b, d0)
            if isinstance(b, bytes):
                b = Buf(cells=list(b))
            if b.cells is None:
                return ("dynamic", b, d0)
            img = Buf(cells=list(b.cells))
            # the marshaller must leave the dictionary it was given intact, and building it again gives the same bytes
            again = I.call(m, [d], {}, None, _F())
            I.event("rebuild", first=img, again=again, intact=same_value(d, d0), diff=first_difference(d0, d, ""))
            d1 = I.call(u, [Buf(cells=list(b.cells))], dict(case["ukw"]), None, _F())
            # read-modify-write direction
            bc = canonical(img)
            d2 = I.call(u, [Buf(cells=list(bc.cells))], dict(case["ukw"]), None, _F())
            b2 = I.call(m, [d2], {}, None, _F()) if isinstance(d2, dict) else None
            return ("ok", d0, img, d1, bc, d2, b2)
        try:
            ps = I.explore(th, max_paths=64)
        except AnalysisError as e:
            if e.reason == "canonical":
                run.violation("marshaller-returns-bytes", c, e.detail, file, fm.node.lineno, fm.qualname)
                continue
            raise
        if len(ps) != 1:
            # a fork means the code branched on a symbolic leaf: report the first failing path, accept if all agree
            pass
        for p in ps:
            if not p.returned:
                which = "build" if not any(e["kind"] == "external-call" for e in p.events) else "?"
                run.violation("roundtrip-total", c, "%s: building / parsing this shape raises %s%s"
                              % (c, p.raised.describe(), (" [when %s]" % p.cond_str()[:160]) if p.path else ""),
                              file, getattr(p.raised.node, "lineno", fm.node.lineno), fm.qualname)
                continue
            v = p.value
            if v[0] == "not-bytes":
                run.violation("marshaller-returns-bytes", c, "%s returns %r, not a byte buffer" % (case["marshall"], v[1]), file, fm.node.lineno, fm.qualname)
                continue
            if v[0] == "dynamic":
                raise AnalysisError("shape-not-static", c)
            _, d0, img, d1, bc, d2, b2 = v
            for ev in p.events:
                if ev["kind"] == "rebuild":
                    if not ev["intact"]:
                        run.violation("build-leaves-input-intact", c,
                                      "%s: building modifies the caller's dictionary (%s): a second build, or a read-modify-write, "
                                      "no longer sees the values that were parsed" % (c, ev["diff"]), file, fm.node.lineno, fm.qualname)
                    elif not same_value(ev["first"], ev["again"]):
                        run.violation("build-repeatable", c, "%s: building the same dictionary twice gives different bytes" % c,
                                      file, fm.node.lineno, fm.qualname)
                    else:
                        run.ok("build-leaves-input-intact", c, nontrivial=False)
            if not isinstance(d1, dict):
                run.violation("parse-after-build", c, "parsing the built structure returns %r" % (d1,), file, fu.node.lineno, fu.qualname)
                continue
            # every original leaf must come back (the parser may add derived keys such as lengths)
            diff = first_subset_difference(d0, d1, "")
            if diff:
                run.violation("parse-after-build", c, "%s: parse(build(d)) differs from d: %s" % (c, diff), file, fm.node.lineno, fm.qualname)
            else:
                run.ok("parse-after-build", c, {"bytes": len(img.cells)})
            if not isinstance(b2, Buf) or b2.cells is None:
                run.violation("build-after-parse", c, "re-building the parsed canonical response gives %r" % (b2,), file, fm.node.lineno, fm.qualname)
                continue
            bad = []
            if len(b2.cells) != len(bc.cells):
                bad.append("length %d became %d" % (len(bc.cells), len(b2.cells)))
            for i in range(min(len(b2.cells), len(bc.cells))):
                if cell_bits(b2.cells[i]) != cell_bits(bc.cells[i]):
                    bad.append("byte %d: %s became %s" % (i, show_byte(cell_bits(bc.cells[i])), show_byte(cell_bits(b2.cells[i]) or [])))
                    if len(bad) > 3:
                        break
            if bad:
                run.violation("build-after-parse", c,
                              "%s: build(parse(b)) does not reproduce the canonical response: %s" % (c, "; ".join(bad)), file, fm.node.lineno, fm.qualname)
            else:
                run.ok("build-after-parse", c, {"bytes": len(bc.cells)})
    # read-modify-write from images that do NOT come from the library's own marshaller: the reference TransportID
    # images of spec/paramlists.py (all protocol kinds, iSCSI names of every length residue)
    from spec import paramlists as refpl
    fs = prog.cls(*refpl.FS.split(":"))
    fm = prog.func(fs.module.name, fs.name, "marshall_transport_id")
    for kind in refpl.TID_KINDS + [("iscsi", "iqn.abcdefgh"), ("iscsi", "iqn.1993-08.org.debian:01:90c27cf89279abcdef"), ("iscsi", "iqn.ab", "0000000001")]:
        ncase += 1
        c = "TransportID reference image %r" % (kind,)

        def th2(kind=kind):
            d, img = refpl.transport_id(kind)
            b = img.to_buf()
            d2 = I.call(I.get_attr(fs, "unmarshall_transport_id", None, _F()), [Buf(cells=list(b.cells))], {}, None, _F())
            b2 = I.call(I.get_attr(fs, "marshall_transport_id", None, _F()), [d2], {}, None, _F())
            return img, d, d2, b2
        for p in I.explore(th2, max_paths=16):
            if not p.returned:
                run.violation("roundtrip-total", c, "parsing / rebuilding the standard's image raises %s" % p.raised.describe(),
                              prog.rel(fm.module), fm.node.lineno, fm.qualname)
                continue
            img, d, d2, b2 = p.value
            diff = img.diff(b2 if isinstance(b2, Buf) else Buf(cells=list(b2)) if isinstance(b2, bytes) else b2)
            miss = first_subset_difference({k: v for k, v in d.items() if k != "tpid_format"}, d2, "") if isinstance(d2, dict) else "not a dict"
            if miss:
                run.violation("parse-of-standard-image", c, "parsing the standard's TransportID image does not return the values in it: %s" % miss,
                              prog.rel(fm.module), fm.node.lineno, fm.qualname)
            elif diff:
                run.violation("build-after-parse", c, "build(parse(b)) does not reproduce the standard's image: %s"
                              % "; ".join("byte %s: expected %s got %s" % x for x in diff[:3]), prog.rel(fm.module), fm.node.lineno, fm.qualname)
            else:
                run.ok("build-after-parse", c, {"bytes": len(img)})
    run.count("cases", ncase)
    if floors:
        run.floor("round-trip cases", ncase, 60)


def first_subset_difference(a, b, path):
    """every leaf of a must be in b with the same value (b may have more keys)"""
    a, b = norm_int(a), norm_int(b)
    if isinstance(a, dict) and isinstance(b, dict):
        for k in a:
            if k not in b:
                return "%s[%r] is lost" % (path, k)
            d = first_subset_difference(a[k], b[k], "%s[%r]" % (path, k))
            if d:
                return d
        return None
    if isinstance(a, (list, tuple)) and isinstance(b, (list, tuple)):
        if len(a) != len(b):
            return "%s: %d elements became %d" % (path, len(a), len(b))
        for i, (x, y) in enumerate(zip(a, b)):
            d = first_subset_difference(x, y, "%s[%d]" % (path, i))
            if d:
                return d
        return None
    if same_value(a, b):
        return None
    return "%s: %r became %r" % (path, a, b)
