"""C18 -- enumerations map names to values and back consistently under
add/remove (structural part: per-operation contracts and the keys filter)."""
from __future__ import annotations

from ..cmdeval import _F
from ..rt import *
from ..values import *

ENUM = "pyscsi.utils.enum"


def check(prog, run):
    I = prog.I
    run.explanation = ("Enum.__new__, keys, __getitem__, add and remove are abstractly interpreted (type.__new__ modelled as "
                       "'a new class whose namespace is a copy of the mapping') on enumerations whose member values range over "
                       "every value kind the library and the property name (int, str, None, list, dict, nested dict, OpCode "
                       "object, Enum, class, function, bound method): the keys filter must keep exactly the supplied names -- "
                       "this is its truth table over (callable?, dunder?, method?) -- and each operation must satisfy its "
                       "contract (first-match reverse lookup, refusal of duplicate add / missing remove with KeyError before any "
                       "effect, effects on the receiver only, independence of enumerations built from one mapping)")
    run.rule_text = "one obligation per (operation, state, value kind); equivalence with a dict model over long histories is not decided"
    run.trusted += ["model of type.__new__/vars() (namespace copy; __module__, __dict__, __weakref__, __doc__ added by type)"]
    ecls = prog.cls(ENUM, "Enum")
    file = prog.rel(ecls.module)
    opcls = prog.cls("pyscsi.pyscsi.scsi_opcode", "OpCode")
    conv = prog.module("pyscsi.utils.converter")
    kinds = {
        "int": lambda: 7, "str": lambda: "s", "none": lambda: None, "list": lambda: [1, 2], "dict": lambda: {"k": 1},
        "nested_dict": lambda: {"k": {"j": 2}}, "float": lambda: 1.5, "bool": lambda: True,
        "opcode_object": lambda: I.instantiate(opcls, ["N", 0x12, {}], {}, None, _F()),
        "enum": lambda: I.instantiate(ecls, [{"x": 1}], {}, None, _F()),
        "class": lambda: prog.I.bclasses["int"], "function": lambda: conv.env["scsi_ba_to_int"],
        "bound_method": lambda: BoundMethod(conv.env["scsi_ba_to_int"], None),
    }
    fkeys = ecls.lookup("keys")[0]
    line_keys = fkeys.fget.node.lineno if isinstance(fkeys, PropertyVal) and fkeys.fget else None

    def ev(thunk, what):
        ps = I.explore(thunk, max_paths=16)
        if len(ps) != 1:
            raise AnalysisError("enum-forked", "%s: %d paths" % (what, len(ps)))
        return ps[0]

    # keys filter truth table: one member per value kind, dict form
    for kname, mk in kinds.items():
        for form in ("dict", "kwargs"):
            def t(mk=mk, form=form):
                v = mk()
                if form == "dict":
                    e = I.instantiate(ecls, [{"first": 1, "name": v, "last": 2}], {}, None, _F())
                else:
                    e = I.instantiate(ecls, [], {"first": 1, "name": v, "last": 2}, None, _F())
                return I.get_attr(e, "keys", None, _F()), I.get_attr(e, "name", None, _F()) is v, I.get_item(e, v, None, _F())
            p = ev(t, "keys %s" % kname)
            c = "Enum.keys value kind %s (%s form)" % (kname, form)
            if not p.returned:
                run.violation("keys-are-supplied-names", c, "raises %s" % p.raised.describe(), file, line_keys, "pyscsi.utils.enum:Enum.keys")
            elif p.value[0] == ["first", "name", "last"] and p.value[1] and p.value[2] not in ("name", "first" if kname == "bool" else "name"):
                run.violation("reverse-lookup-first-match", "Enum[<%s>]" % kname,
                              "reverse lookup of the %s supplied under 'name' returns %r" % (kname, p.value[2]), file,
                              ecls.lookup("__getitem__")[0].node.lineno, "pyscsi.utils.enum:Enum.__getitem__")
            elif p.value[0] != ["first", "name", "last"] or not p.value[1]:
                run.violation("keys-are-supplied-names", "Enum.keys value kind %s" % kname,
                              "an enumeration built from {'first': 1, 'name': <%s>, 'last': 2} reports keys %r: a supplied name whose "
                              "value is a %s is not a key (reverse lookup and duplicate detection in add() miss it)"
                              % (kname, p.value[0], kname), file, line_keys, "pyscsi.utils.enum:Enum.keys")
            else:
                run.ok("keys-are-supplied-names", c)
    # name kinds: a supplied name is a key whatever it looks like (names starting with a double underscore are
    # reserved by the implementation -- type() adds __module__ etc. -- and are not part of the contract)
    # (the enumeration's own API names -- keys, add, remove -- are attributes of the metaclass and cannot be member names; every
    # other identifier can, including the words a mapping-like API might be tempted to claim later)
    name_kinds = ["plain", "UPPER_CASE", "_leading_underscore", "_X", "trailing_", "trailing__", "inner__double", "a", "with9digits", "keys_", "add_",
                  "values", "items", "get", "update", "pop", "copy", "clear", "mro", "name", "value", "type", "index", "count", "members", "names"]
    run.unconstrained += ["member names 'keys', 'add', 'remove' (the Enum API itself)"]
    for nm in name_kinds:
        for form in ("dict", "kwargs"):
            def tn(nm=nm, form=form):
                if form == "dict":
                    e = I.instantiate(ecls, [{"first": 1, nm: 5, "last": 2}], {}, None, _F())
                else:
                    e = I.instantiate(ecls, [], {"first": 1, nm: 5, "last": 2}, None, _F())
                return I.get_attr(e, "keys", None, _F()), I.get_item(e, 5, None, _F())
            p = ev(tn, "name %s" % nm)
            c = "Enum.keys name kind %r" % nm
            if p.returned and p.value[0] == ["first", nm, "last"] and p.value[1] == nm:
                run.ok("keys-are-supplied-names", "%s (%s form)" % (c, form))
            else:
                run.violation("keys-are-supplied-names", c,
                              "an enumeration built with the name %r reports keys %r and reverse lookup %r"
                              % (nm, p.value[0] if p.returned else p.raised.describe(), p.value[1] if p.returned else None),
                              file, line_keys, "pyscsi.utils.enum:Enum.keys")
    # constructor refusals
    nsae = prog.cls("pyscsi.utils.exception", "NotSupportedArgumentError")
    for label, a, k in (("no arguments", [], {}), ("a list", [[1, 2]], {}), ("two mappings", [{"a": 1}, {"b": 2}], {})):
        p = ev(lambda a=a, k=k: I.instantiate(ecls, list(a), dict(k), None, _F()), label)
        ec = p.raised.exc_class() if not p.returned else None
        c = "Enum(%s)" % label
        if ec is nsae:
            run.ok("constructor-refuses-unsupported", c)
        else:
            run.violation("constructor-refuses-unsupported", c, "not refused with NotSupportedArgumentError: %s"
                          % ("constructed" if p.returned else p.raised.describe()), file, ecls.node.lineno, ecls.qualname)
    # a mapping together with keyword arguments (a form the documentation does not promise): either refused, or the
    # mapping's names are all there with their values -- never silently dropped
    for label, a, k in (("a mapping and one keyword", [{"first": 1, "second": 2}], {"third": 3}),
                        ("a mapping and a keyword repeating one of its names", [{"first": 1, "second": 2}], {"second": 2})):
        def tm(a=a, k=k):
            e = I.instantiate(ecls, [dict(a[0])], dict(k), None, _F())
            return [(n, I.get_attr(e, n, None, _F())) for n in a[0]], list(I.get_attr(e, "keys", None, _F()))
        p = ev(tm, label)
        c = "Enum(%s)" % label
        if not p.returned:
            ec = p.raised.exc_class()
            if ec is not None and ec.name in ("NotSupportedArgumentError", "TypeError", "ValueError", "AttributeError") and "first" not in str(p.raised.describe()):
                run.ok("mapping-names-kept", c, {"refused": ec.name})
            else:
                run.violation("mapping-names-kept", c, "the names of the mapping are not exposed: %s" % p.raised.describe(),
                              file, ecls.node.lineno, ecls.qualname)
        elif all(norm_int(v) == a[0][n] for n, v in p.value[0]) and all(n in p.value[1] for n in a[0]):
            run.ok("mapping-names-kept", c)
        else:
            run.violation("mapping-names-kept", c, "the enumeration reports keys %r: names of the mapping are missing" % (p.value[1],),
                          file, ecls.node.lineno, ecls.qualname)
    base = {"a": 1, "b": 2, "c": 1}

    def fresh():
        return I.instantiate(ecls, [dict(base)], {}, None, _F())
    # reverse lookup
    # (absent values include those type() itself puts in a class namespace: __doc__ is None, __module__ is the
    # name of the module that built the class)
    for val, want in ((1, "a"), (2, "b"), (3, ""), ("1", ""), (None, ""), (ENUM, ""), ("Enum", ""), ("", ""), (0, ""), (1.5, ""), ((), "")):
        p = ev(lambda val=val: I.get_item(fresh(), val, None, _F()), "getitem")
        c = "Enum[%r] over %r" % (val, base)
        if p.returned and p.value == want:
            run.ok("reverse-lookup-first-match", c)
        else:
            run.violation("reverse-lookup-first-match", c, "returns %r, expected %r" % (p.value if p.returned else p.raised.describe(), want),
                          file, ecls.lookup("__getitem__")[0].node.lineno, "pyscsi.utils.enum:Enum.__getitem__")
    # enumerations of other sizes (one name, two names; int and str values; built from a mapping, from keywords, or reached by
    # removing names): the lookup must not depend on how many names there are
    sizes = (("one int member", lambda: I.instantiate(ecls, [{"only": 7}], {}, None, _F()), ((7, "only"), (8, ""), ("only", ""))),
             ("one member by keyword", lambda: I.instantiate(ecls, [], {"only": 7}, None, _F()), ((7, "only"), (0, ""))),
             ("one str member", lambda: I.instantiate(ecls, [{"s": "Ax"}], {}, None, _F()), (("Ax", "s"), ("A", ""), ("x", ""))),
             ("two members", lambda: I.instantiate(ecls, [{"x": 1, "y": "1"}], {}, None, _F()), ((1, "x"), ("1", "y"), (2, ""))),
             ("one member left after remove", None, ((2, "b"), (1, ""))))
    for label, mk, probes in sizes:
        for val, want in probes:
            def t_sz(mk=mk, val=val):
                if mk is None:
                    e = fresh()
                    I.call_function(ecls.lookup("remove")[0], [e, "a"], {}, None, _F())
                    I.call_function(ecls.lookup("remove")[0], [e, "c"], {}, None, _F())
                else:
                    e = mk()
                return I.get_item(e, val, None, _F())
            p = ev(t_sz, "getitem by size")
            c = "Enum[%r] on an enumeration with %s" % (val, label)
            if p.returned and p.value == want:
                run.ok("reverse-lookup-first-match", c)
            else:
                run.violation("reverse-lookup-first-match", c, "returns %r, expected %r" % (p.value if p.returned else p.raised.describe(), want),
                              file, ecls.lookup("__getitem__")[0].node.lineno, "pyscsi.utils.enum:Enum.__getitem__")
    # a value is found by equality, not by being the very same object (small ints and literals are shared objects in
    # CPython, which hides an identity comparison): equal values built separately
    for label, stored, probe in (("70000", lambda: int("70000"), lambda: int("7") * 10000), ("'abcd'", lambda: "".join(["ab", "cd"]), lambda: "".join(["a", "bcd"])),
                                 ("(1, 2)", lambda: tuple([1, 2]), lambda: tuple([1, 2])), ("2**40", lambda: 2 ** 40, lambda: 4 ** 20)):
        def t_eq(stored=stored, probe=probe):
            e = I.instantiate(ecls, [{"first": 1, "name": stored(), "last": 2}], {}, None, _F())
            return I.get_item(e, probe(), None, _F())
        p = ev(t_eq, "lookup by equality")
        c = "Enum[%s] with an equal value that is a different object" % label
        if p.returned and p.value == "name":
            run.ok("reverse-lookup-first-match", c)
        else:
            run.violation("reverse-lookup-first-match", c, "returns %r although the name 'name' carries an equal value (values are compared by identity?)"
                          % (p.value if p.returned else p.raised.describe(),), file, ecls.lookup("__getitem__")[0].node.lineno, "pyscsi.utils.enum:Enum.__getitem__")
    # add
    fadd = ecls.lookup("add")[0]
    frem = ecls.lookup("remove")[0]

    def t_add_new():
        e = fresh()
        I.call_function(fadd, [e, "d", 4], {}, None, _F())
        return e, I.get_attr(e, "keys", None, _F()), I.get_item(e, 4, None, _F()), [x for x in I.events if x["kind"] == "setattr-call"]
    p = ev(t_add_new, "add new")
    if p.returned and p.value[1] == ["a", "b", "c", "d"] and p.value[2] == "d" and all(x["obj"] is p.value[0] for x in p.value[3]) and p.value[3]:
        run.ok("add-contract", "Enum.add new name")
    else:
        run.violation("add-contract", "Enum.add new name", "after add('d', 4): %r" % ((p.value[1:3] if p.returned else p.raised.describe()),),
                      file, fadd.node.lineno, fadd.qualname)

    # a new name that happens to be spelled like something every class object has anyway (type's own methods and
    # attributes): it is not a member, so it is added like any other name
    for newname in ("mro", "register", "d_", "copy", "items"):
        def t_add_named(newname=newname):
            e = fresh()
            I.call_function(fadd, [e, newname, 4], {}, None, _F())
            return I.get_attr(e, "keys", None, _F()), I.get_attr(e, newname, None, _F()), I.get_item(e, 4, None, _F())
        p = ev(t_add_named, "add %s" % newname)
        c = "Enum.add new name %r" % newname
        if p.returned and p.value[0] == ["a", "b", "c", newname] and norm_int(p.value[1]) == 4 and p.value[2] == newname:
            run.ok("add-contract", c)
        else:
            run.violation("add-contract", c, "add(%r, 4) on an enumeration without that name: %s (a dictionary accepts it)"
                          % (newname, (p.value if p.returned else "refused: " + p.raised.describe())), file, fadd.node.lineno, fadd.qualname)

    def t_add_same_value():
        e = fresh()
        I.call_function(fadd, [e, "d", 1], {}, None, _F())       # a new name for a value another name already carries
        return I.get_attr(e, "keys", None, _F()), I.get_attr(e, "d", None, _F()), I.get_item(e, 1, None, _F())
    p = ev(t_add_same_value, "add new name, existing value")
    if p.returned and p.value == (["a", "b", "c", "d"], 1, "a"):
        run.ok("add-contract", "Enum.add new name with a value that is already used")
    else:
        run.violation("add-contract", "Enum.add new name with a value that is already used",
                      "add('d', 1) while 'a' is 1: %r (a dictionary accepts it; reverse lookup of 1 stays 'a')"
                      % ((p.value if p.returned else p.raised.describe()),), file, fadd.node.lineno, fadd.qualname)

    def t_add_dup():
        e = fresh()
        try:
            I.call_function(fadd, [e, "a", 9], {}, None, _F())
        finally:
            I.event("final", members=dict(e.members))
        return e
    p = ev(t_add_dup, "add dup")
    fin = [x for x in p.events if x["kind"] == "final"][-1]["members"]
    ec = p.raised.exc_class() if not p.returned else None
    if ec is I.bclasses["KeyError"] and fin == base:
        run.ok("add-contract", "Enum.add existing name")
    else:
        run.violation("add-contract", "Enum.add existing name", "adding an existing name: %s, members afterwards %r (expected KeyError and no change)"
                      % ("accepted" if p.returned else p.raised.describe(), fin), file, fadd.node.lineno, fadd.qualname)

    # ... whatever value the existing name carries (a value that is false in a boolean context is still a value), and
    # removal works for such names too
    for label, mkv in (("0", lambda: 0), ("''", lambda: ""), ("None", lambda: None), ("False", lambda: False), ("[]", lambda: []),
                       ("{}", lambda: {}), ("0.0", lambda: 0.0)):
        def t_add_dup_falsy(mkv=mkv):
            e = I.instantiate(ecls, [{"first": 1, "name": mkv(), "last": 2}], {}, None, _F())
            try:
                I.call_function(fadd, [e, "name", 9], {}, None, _F())
            finally:
                I.event("final", value=e.members.get("name"), keys=list(e.members))
            return e
        p = ev(t_add_dup_falsy, "add dup falsy")
        fin = [x for x in p.events if x["kind"] == "final"][-1]
        ec = p.raised.exc_class() if not p.returned else None
        c = "Enum.add existing name whose value is %s" % label
        if ec is I.bclasses["KeyError"] and fin["value"] != 9:
            run.ok("add-contract", c)
        else:
            run.violation("add-contract", c, "adding an existing name whose value is %s: %s, value afterwards %r (expected KeyError and no change)"
                          % (label, "accepted" if p.returned else p.raised.describe(), fin["value"]), file, fadd.node.lineno, fadd.qualname)

        def t_rem_falsy(mkv=mkv):
            e = I.instantiate(ecls, [{"first": 1, "name": mkv(), "last": 2}], {}, None, _F())
            I.call_function(frem, [e, "name"], {}, None, _F())
            return I.get_attr(e, "keys", None, _F())
        p = ev(t_rem_falsy, "remove falsy")
        c = "Enum.remove name whose value is %s" % label
        if p.returned and p.value == ["first", "last"]:
            run.ok("remove-contract", c)
        else:
            run.violation("remove-contract", c, "removing a name whose value is %s: %r" % (label, p.value if p.returned else p.raised.describe()),
                          file, frem.node.lineno, frem.qualname)

    def t_rem():
        e = fresh()
        I.call_function(frem, [e, "b"], {}, None, _F())
        return I.get_attr(e, "keys", None, _F()), I.get_item(e, 2, None, _F())
    p = ev(t_rem, "remove")
    if p.returned and p.value == (["a", "c"], ""):
        run.ok("remove-contract", "Enum.remove existing name")
    else:
        run.violation("remove-contract", "Enum.remove existing name", "after remove('b'): %r" % ((p.value if p.returned else p.raised.describe()),),
                      file, frem.node.lineno, frem.qualname)

    def t_rem_missing():
        e = fresh()
        try:
            I.call_function(frem, [e, "zz"], {}, None, _F())
        finally:
            I.event("final", members=dict(e.members))
    p = ev(t_rem_missing, "remove missing")
    fin = [x for x in p.events if x["kind"] == "final"][-1]["members"]
    ec = p.raised.exc_class() if not p.returned else None
    if ec is I.bclasses["KeyError"] and fin == base:
        run.ok("remove-contract", "Enum.remove missing name")
    else:
        run.violation("remove-contract", "Enum.remove missing name", "removing a missing name: %s (expected KeyError)"
                      % ("accepted" if p.returned else p.raised.describe()), file, frem.node.lineno, frem.qualname)

    # independence
    def t_iso():
        src = dict(base)
        e1 = I.instantiate(ecls, [src], {}, None, _F())
        e2 = I.instantiate(ecls, [src], {}, None, _F())
        I.call_function(fadd, [e1, "z", 26], {}, None, _F())
        I.call_function(frem, [e1, "a"], {}, None, _F())
        src["q"] = 17
        return (I.get_attr(e1, "keys", None, _F()), I.get_attr(e2, "keys", None, _F()), dict(src),
                [x for x in I.events if x["kind"] in ("setattr-call", "delattr-call")], e1,
                [x for x in I.events if x["kind"] in ("class-store", "global-store", "static-mutation")])
    p = ev(t_iso, "isolation")
    if not p.returned:
        run.violation("enumerations-independent", "two enumerations from one mapping", "raises %s" % p.raised.describe(), file, ecls.node.lineno)
    else:
        k1, k2, src, effects, e1, shared = p.value
        if k1 != ["b", "c", "z"] or k2 != ["a", "b", "c"] or src != {"a": 1, "b": 2, "c": 1, "q": 17}:
            run.violation("enumerations-independent", "two enumerations from one mapping",
                          "after e1.add/remove and a later change of the source mapping: e1 %r, e2 %r, source %r" % (k1, k2, src),
                          file, ecls.node.lineno, ecls.qualname)
        elif any(x["obj"] is not e1 for x in effects) or shared:
            run.violation("effects-on-receiver-only", "Enum.add/remove",
                          "an operation stores outside its own enumeration: %s" % [x["kind"] for x in shared] or "setattr on another object",
                          file, ecls.node.lineno, ecls.qualname)
        else:
            run.ok("enumerations-independent", "two enumerations from one mapping")
            run.ok("effects-on-receiver-only", "Enum.add/remove")
    run.count("value_kinds", len(kinds))
    run.count("methods", 5)
    run.floor("value kinds", len(kinds), 10)


def thorough(prog, run):
    """every history of up to three add / remove operations (4 names x 3 values, falsy 0 included) on the enumeration
    {'a': 1, 'b': 2, 'c': 1}, evaluated by constant propagation and compared step by step with an ordinary dictionary:
    the refusals (KeyError, state unchanged), the names in order, the values, and the reverse lookup of 0..3.  A bounded
    family -- longer histories are not decided."""
    import itertools
    I = prog.I
    ecls = prog.cls(ENUM, "Enum")
    file = prog.rel(ecls.module)
    fadd = ecls.lookup("add")[0]
    frem = ecls.lookup("remove")[0]
    names = ["a", "b", "c", "d"]
    ops = [("add", n, v) for n in names for v in (0, 1, 2)] + [("remove", n, None) for n in names]
    base = {"a": 1, "b": 2, "c": 1}
    nhist = 0
    bad = {}
    for ln in (1, 2, 3):
        for hist in itertools.product(ops, repeat=ln):
            nhist += 1
            # the dictionary's own history
            model = dict(base)
            want = []
            for op, n, v in hist:
                if op == "add":
                    if n in model:
                        want.append("KeyError")
                    else:
                        model[n] = v
                        want.append("ok")
                else:
                    if n not in model:
                        want.append("KeyError")
                    else:
                        del model[n]
                        want.append("ok")
            rev = {x: next((k for k, v in model.items() if v == x), "") for x in (0, 1, 2, 3)}

            def th(hist=hist):
                e = I.instantiate(ecls, [dict(base)], {}, None, _F())
                got = []
                for op, n, v in hist:
                    try:
                        if op == "add":
                            I.call_function(fadd, [e, n, v], {}, None, _F())
                        else:
                            I.call_function(frem, [e, n], {}, None, _F())
                        got.append("ok")
                    except PyRaise as ex:
                        c = ex.exc_class()
                        got.append(c.name if c is not None else "?")
                keys = I.get_attr(e, "keys", None, _F())
                vals = {k: I.get_attr(e, k, None, _F()) for k in keys} if isinstance(keys, list) else None
                return got, keys, vals, {x: I.get_item(e, x, None, _F()) for x in (0, 1, 2, 3)}
            ps = I.explore(th, max_paths=4)
            p = ps[0]
            if len(ps) != 1 or not p.returned:
                why = "the evaluation forks / raises %s" % (p.raised.describe() if not p.returned else "")
            else:
                got, keys, vals, grev = p.value
                why = None
                if got != want:
                    why = "outcomes %r, a dictionary gives %r" % (got, want)
                elif keys != list(model):
                    why = "names %r, a dictionary has %r" % (keys, list(model))
                elif vals != model:
                    why = "values %r, a dictionary has %r" % (vals, model)
                elif grev != rev:
                    why = "reverse lookups %r, the dictionary's first matches are %r" % (grev, rev)
            if why:
                k = "history of %d operations" % ln
                if k not in bad:
                    bad[k] = (hist, why)
    for k, (hist, why) in bad.items():
        run.violation("history-agrees-with-dictionary", k,
                      "after %s on Enum(%r): %s" % ("; ".join("%s(%r%s)" % (o, n, "" if v is None else ", %r" % v) for o, n, v in hist), base, why),
                      file, ecls.node.lineno, ecls.qualname)
    if not bad:
        run.ok("history-agrees-with-dictionary", "all %d histories of up to 3 operations" % nhist, {"histories": nhist})
    run.count("histories", nhist)
