"""C13 -- each facade call sends exactly one command and decodes what the
device returned."""
from __future__ import annotations

import ast
import re

from ..cmdeval import *
from ..cmdeval import _F
from ..codec import spec_positions, pos_text
from ..facade_eval import *
from ..rt import *
from ..values import *
from .c01 import expected_bits, field_name, src_text, show_bits, bit_repr
from spec import cdb as refcdb
from spec import facade as reffacade
from spec import opcodes as refop


class _Con:
    pass


def ctor_defaults(cls):
    init = cls.lookup("__init__")[0]
    a = init.node.args
    names = [p.arg for p in a.args][1:]
    d = {}
    defs = getattr(init, "defaults", [])
    for n, v in zip(names[len(names) - len(defs):], defs):
        d[n] = v
    return d


def check(prog, run):
    from .c03 import prime_layouts
    prime_layouts(prog)
    I = prog.I
    run.explanation = ("every facade method is abstractly interpreted, for each command-set table that offers its command, "
                       "with symbolic arguments (optional keyword arguments all omitted, then all supplied) over a stand-in "
                       "SG_IO binding that records the call and forks on CHECK CONDITION; a stub replaces the response "
                       "decoders.  Per path the rule checks: opcode resolved on that table, exactly one hand-over to the "
                       "binding with the returned command's own cdb/dataout/datain objects, decode only after the hand-over "
                       "and of that very datain object, the result stored on the command, every argument reaching the CDB "
                       "position the reference gives (spec/cdb.py via spec/facade.py), and documented keyword names accepted")
    run.rule_text = "one obligation per (method, command set, kwargs mode, path, clause); distinct by (rule, method, set)"
    run.trusted += ["spec/facade.py, spec/cdb.py, spec/opcodes.py", "stand-in binding model (pyscsi_sa/standin.py)"]
    methods = facade_methods(prog)
    scsi_mod = prog.module(SCSI_MOD)
    file = prog.rel(scsi_mod)
    for name in reffacade.FACADE:
        if name not in methods:
            raise AnalysisError("anchor-missing", "SCSI.%s" % name)
    for name in methods:
        if name not in reffacade.FACADE and name not in ("blocksize",):
            run.violation("facade-method-has-reference", "SCSI.%s" % name, "facade method without reference entry", file,
                          methods[name].node.lineno)
    npaths = 0
    nmeth = 0
    for name, fspec in reffacade.FACADE.items():
        nmeth += 1
        fn = methods[name]
        line = fn.node.lineno
        sets = sets_offering(prog, fspec)
        if not sets:
            run.violation("command-offered", "SCSI.%s" % name, "no command-set table offers %s" % refcdb.CDB[fspec["cls"]]["names"], file, line)
            continue
        sas = [None]
        if "by_service_action" in fspec["extra"]:
            sas = sorted(fspec["extra"]["by_service_action"])
        for setname in sets:
            for kwmode in ("none", "all"):
                for sa in sas:
                    fps = eval_facade(prog, name, fspec, setname, kwmode, sa=sa, other_error="fork" if kwmode == "all" else "never")
                    for fp in fps:
                        npaths += 1
                        check_path(prog, run, fp, fspec, name, file, line)
            # the documented parameters passed by position instead of by keyword
            for sa in sas:
                for fp in eval_facade(prog, name, fspec, setname, "all" if name in reffacade.POSITIONAL_OPTIONALS else "none", sa=sa,
                                      check_condition="never", positional=True):
                    npaths += 1
                    check_path(prog, run, fp, fspec, name, file, line)
            # the same call made twice on one facade: what the first passed must not reach the second's CDB
            hist = history_for(prog, name, fspec, setname, methods)
            for sa in sas:
                for fp in eval_facade(prog, name, fspec, setname, "none", sa=sa, check_condition="never", after_all=True, history=hist):
                    npaths += 1
                    check_path(prog, run, fp, fspec, name, file, line)
        check_docstring(prog, run, name, fspec, fn, file)
    check_unmarshall_wrapper(prog, run)
    check_get_opcode(prog, run)
    check_get_opcode_history(prog, run)
    check_hidden_required_kwargs(prog, run)
    run.count("methods", nmeth)
    run.count("paths", npaths)
    run.floor("facade methods", nmeth, 38)
    run.floor("paths", npaths, 300)


def same_arg(a, b):
    a, b = norm_int(a), norm_int(b)
    if isinstance(a, Sym) and isinstance(b, Sym):
        return a.same_value(b)
    return a is b or (type(a) is type(b) and isinstance(a, (int, str)) and a == b)


def layout_keys(prog, fspec):
    out = set()
    names = [fspec["cls"].split(":")[1]] + list(fspec["extra"].get("by_service_action", {}).values())
    for cn in names:
        t = prog.cls(fspec["cls"].split(":")[0], cn).lookup("_cdb_bits")
        if t and isinstance(t[0], dict):
            out |= set(k for k in t[0] if isinstance(k, str))
    return out - {"opcode"}


def history_for(prog, name, fspec, setname, methods):
    """earlier calls on the same facade whose CDB layouts name, between them, every field name of this method's layout
    (greedy cover, from the library's own tables): what an earlier command passed under a name must not reach this CDB"""
    want = layout_keys(prog, fspec)
    cands = []
    for other, ospec in reffacade.FACADE.items():
        if other == name or other not in methods or setname not in sets_offering(prog, ospec):
            continue
        sas = sorted(ospec["extra"].get("by_service_action", {None: None}), key=lambda x: (x is None, x))
        cands.append((other, ospec, sas[-1], layout_keys(prog, ospec)))
    hist = []
    while want:
        best = max(cands, key=lambda c: len(c[3] & want), default=None)
        if best is None or not (best[3] & want):
            break
        hist.append(best[:3])
        want -= best[3]
    return hist


def check_path(prog, run, fp, fspec, name, file, line):
    I = prog.I
    p = fp.path
    c = "SCSI.%s on %s%s" % (name, fp.setname, " (second call)" if fp.after_all else "")
    calls = fp.events("external-call")
    sg = [(i, e) for i, e in calls if e["name"] == "sgio.execute"]
    decodes = fp.events("decode")
    if fp.faulted:
        # error discipline is C07; but even when the transport fails the command is handed over at most once
        if len(sg) > 1:
            run.violation("exactly-one-execute", c, "%d hand-overs to the binding on the failing path %s: the command (a write, say) is "
                          "sent again after an error" % (len(sg), fp.label()), file, line)
        return
    if not p.returned:
        ec = p.raised.exc_class()
        run.violation("facade-call-succeeds", "%s kwargs=%s: %s" % (c, fp.kwmode, ec.name if ec else "?"),
                      "%s raises %s although every documented argument was valid (optional keywords %s)"
                      % (fp.label(), p.raised.describe(), "omitted" if fp.kwmode == "none" else "supplied"),
                      file, line, "pyscsi.pyscsi.scsi:SCSI.%s" % name)
        return
    cmd, byctor, dev, pub = p.value
    if not isinstance(cmd, Instance):
        run.violation("returns-command", c, "returns %r, not the command object" % (cmd,), file, line)
        return
    # class
    want_cls = fspec["cls"].split(":")[1]
    if fp.sa is not None:
        want_cls = fspec["extra"]["by_service_action"][fp.sa]
    if cmd.cls.name != want_cls:
        run.violation("command-class", c, "builds %s, the reference pairs %s with %s" % (cmd.cls.name, name, want_cls), file, line)
        return
    # exactly one hand-over, of the returned command's own buffers
    if len(sg) != 1:
        run.violation("exactly-one-execute", c, "%d hand-overs to the binding on path %s" % (len(sg), fp.label()), file, line)
        return
    a = sg[0][1]["args"]
    own = (pub.get("cdb"), pub.get("dataout"), pub.get("datain"))
    if not (len(a) == 4 and a[1] is own[0] and a[2] is own[1] and a[3] is own[2]):
        run.violation("executes-returned-command", c,
                      "the command handed to the device is not the returned object (cdb/dataout/datain identity) on %s" % fp.label(),
                      file, line)
        return
    run.ok("exactly-one-execute", c, {"case": fp.label()})
    # decode discipline
    before = [d for i, d in decodes if i < sg[0][0]]
    if before:
        run.violation("decode-after-execute", c, "cmd.unmarshall runs before the command is executed", file, line)
    after = [d for i, d in decodes if i > sg[0][0]]
    if fspec["decode"]:
        if len(after) != 1:
            run.violation("decodes-response", c, "%d decode calls after execution (expected one) on %s" % (len(after), fp.label()), file, line)
        else:
            d = after[0]
            if d["data"] is not own[2]:
                run.violation("decodes-device-buffer", c, "the decoder is given %r, not cmd.datain as the device left it" % (d["data"],), file, line)
            elif pub.get("result") is not d["marker"]:
                run.violation("stores-result", c, "the decoded dictionary is not stored in cmd.result", file, line)
            elif any(k in fp.args and not same_arg(v, fp.args[k]) for k, v in d["kwargs"].items()):
                k = [k for k, v in d["kwargs"].items() if k in fp.args and not same_arg(v, fp.args[k])][0]
                run.violation("decodes-response", c + " (decoder argument %s)" % k,
                              "the response is decoded with %s=%r although the command was built (and sent) with %s=%r on %s: the data is "
                              "interpreted in another format than the one requested" % (k, d["kwargs"][k], k, fp.args[k], fp.label()), file, line)
            else:
                run.ok("decodes-response", c)
    # CDB: every facade argument reaches its standard position
    key = fspec["cls"].split(":")[0] + ":" + want_cls
    entry = refcdb.CDB[key]
    con = _Con()
    con.cls = cmd.cls
    con.args = dict(ctor_defaults(cmd.cls))
    con.args.update(byctor)
    con.inst = cmd
    con.pub = pub
    opk = [k for s, k, o in opcode_entries(prog, entry["names"]) if s == fp.setname]
    con.opkey = opk[0] if opk else None
    cdb = own[0]
    if not isinstance(cdb, Buf) or cdb.cells is None or con.opkey is None:
        run.violation("cdb-is-bytes", c, "cmd.cdb is %r" % (cdb,), file, line)
        return
    for pos, src in entry["fields"]:
        positions = spec_positions(pos)
        try:
            exp = expected_bits(src, len(positions), con, prog)
        except AnalysisError:
            exp = None
        if exp is None:
            continue
        got = []
        for (byte, bit) in positions:
            cb = cell_bits(cdb.cells[byte]) if byte < len(cdb.cells) else None
            got.append(cb[bit] if cb is not None else None)
        fname = "SCSI.%s %s (%s)" % (name, field_name(pos), src_text(src))
        if got != exp:
            run.violation("argument-reaches-cdb", fname,
                          "facade %s: at %s the CDB carries %s instead of %s" % (fp.label(), pos_text(positions), show_bits(got), src_text(src)),
                          file, line, facts={"got": [bit_repr(x) for x in got], "want": [bit_repr(x) for x in exp]})
        else:
            run.ok("argument-reaches-cdb", fname, {"case": fp.label()})
    # the facade's own block size sizes the data-in buffer of block reads
    rule = entry["data"]
    if rule[0] == "blocks-in" and fspec["blocksize"]:
        din = own[2]
        got = norm_int(I.len_of(din, None, None)) if isinstance(din, (Buf, SymBytes)) else None
        want = sym_binop("*", byctor["blocksize"], byctor[rule[2]])
        if to_poly(got) is not None and to_poly(got) == to_poly(want):
            run.ok("facade-blocksize-sizes-buffer", c)
        else:
            run.violation("facade-blocksize-sizes-buffer", c,
                          "data-in buffer has %r bytes; expected the facade's block size x transfer length" % (got,), file, line)


def check_docstring(prog, run, name, fspec, fn, file):
    """keyword names advertised under ':param kwargs:' must be constructor parameters"""
    doc = ast.get_docstring(fn.node) or ""
    m = re.search(r":param kwargs:(.*?)(?:\n\s*:(?:return|returns|param)|\Z)", doc, re.S)
    if not m:
        return
    entry = refcdb.CDB[fspec["cls"]]
    cls = prog.cls(*fspec["cls"].split(":"))
    init = cls.lookup("__init__")[0]
    params = set(p.arg for p in init.node.args.args)
    if "by_service_action" in fspec["extra"]:
        for cn in fspec["extra"]["by_service_action"].values():
            c2 = prog.cls(fspec["cls"].split(":")[0], cn)
            params |= set(p.arg for p in c2.lookup("__init__")[0].node.args.args)
    for kw in re.findall(r"^\s*([A-Za-z_][A-Za-z0-9_]*)\s*=", m.group(1), re.M):
        c = "SCSI.%s keyword %s" % (name, kw)
        if kw in params:
            run.ok("documented-keyword-accepted", c)
        else:
            run.violation("documented-keyword-accepted", c,
                          "the docstring of %s documents keyword argument '%s' but %s.__init__ has no such parameter (it takes %s): "
                          "passing it raises TypeError" % (name, kw, cls.name, sorted(params - {"self", "opcode"})),
                          file, fn.node.lineno, "pyscsi.pyscsi.scsi:SCSI.%s" % name)


def check_unmarshall_wrapper(prog, run):
    """SCSICommand.unmarshall passes self.datain itself and stores the result"""
    I = prog.I
    sc = prog.cls(CMD_MOD, "SCSICommand")
    f = prog.func(CMD_MOD, "SCSICommand", "unmarshall")
    file = prog.rel(f.module)
    I.stubs["*.unmarshall_datain"] = decode_stub
    try:
        inq = prog.cls("pyscsi.pyscsi.scsi_cdb_inquiry", "Inquiry")
        res = []

        def t():
            inst = Instance(inq)
            din = Buf(cells=[0] * 8)
            set_pub(I, inst, "datain", din)
            set_pub(I, inst, "result", None)
            I.call_function(f, [inst], {"evpd": 1}, None, _F())
            ev = [e for e in I.events if e["kind"] == "decode"]
            res.append((pub_attr(I, inst, "result"), din, ev))
        I.explore(t, max_paths=8)
        stored, din, ev = res[0]
        if len(ev) == 1 and ev[0]["data"] is din and stored is ev[0]["marker"] and ev[0]["kwargs"].get("evpd") == 1:
            run.ok("unmarshall-wrapper", "SCSICommand.unmarshall")
        else:
            run.violation("unmarshall-wrapper", "SCSICommand.unmarshall",
                          "unmarshall() does not decode self.datain itself into self.result (decode calls: %d)" % len(ev),
                          file, f.node.lineno, f.qualname)
        # a command without decoder: NotImplementedError, not silence
        tur = prog.cls("pyscsi.pyscsi.scsi_cdb_testunitready", "TestUnitReady")

        def t2():
            inst = Instance(tur)
            set_pub(I, inst, "datain", Buf(cells=[]))
            set_pub(I, inst, "result", None)
            return I.call_function(f, [inst], {}, None, _F())
        ps = I.explore(t2, max_paths=8)
        if all((not p.returned) and p.raised.exc_class() is not None and p.raised.exc_class().name == "NotImplementedError" for p in ps):
            run.ok("unmarshall-wrapper-undecodable", "SCSICommand.unmarshall")
        else:
            run.violation("unmarshall-wrapper-undecodable", "SCSICommand.unmarshall",
                          "unmarshall() on a command without decoder does not raise NotImplementedError", file, f.node.lineno, f.qualname)
    finally:
        I.stubs.pop("*.unmarshall_datain", None)


def check_get_opcode(prog, run):
    """get_opcode(enum, 'XX') yields, first, the opcode whose key ends in XX and whose value is XXh"""
    I = prog.I
    f = prog.func("pyscsi.utils.converter", None, "get_opcode")
    file = prog.rel(f.module)
    mod = prog.module(ENUM_MOD)
    for s in SETS:
        e = mod.env[s]
        for part, val in (("9E", 0x9E), ("A3", 0xA3)):
            def t(e=e, part=part):
                g = I.call_function(f, [e, part], {}, None, _F())
                return g.items[0] if isinstance(g, GenVal) and g.items else None
            ps = I.explore(t, max_paths=8)
            p = ps[0]
            has = any(k.endswith("_OPCODE_" + part) for k in e.members)
            c = "get_opcode(%s, %r)" % (s, part)
            first = p.value if p.returned else None
            if not has:
                if first is None:
                    run.ok("get-opcode", c, {"result": "none offered"})
                else:
                    run.violation("get-opcode", c, "yields %r although the table has no *_OPCODE_%s" % (first, part), file, f.node.lineno, f.qualname)
                continue
            v = norm_int(I.get_attr(first, "value", None, _F())) if isinstance(first, Instance) else None
            if v == val:
                run.ok("get-opcode", c, {"value": v})
            else:
                run.violation("get-opcode", c, "first match is %r with value %r, expected an OpCode with value %#x" % (first, v, val),
                              file, f.node.lineno, f.qualname)


def check_get_opcode_history(prog, run):
    """what get_opcode yields for one table does not depend on the tables it was asked about before: after a lookup in
    every other command set, the lookup in this one still yields this table's own object (each table has its own OpCode
    objects -- a result remembered under a key two tables share would hand one table's object to the other)"""
    I = prog.I
    f = prog.func("pyscsi.utils.converter", None, "get_opcode")
    file = prog.rel(f.module)
    mod = prog.module(ENUM_MOD)
    for s in SETS:
        e = mod.env[s]
        for part in ("9E", "A3"):
            own = [v for k, v in e.members.items() if k.endswith("_OPCODE_" + part)]
            if not own:
                continue

            def t(e=e, part=part, s=s):
                for other in SETS:
                    if other != s:
                        g0 = I.call_function(f, [mod.env[other], part], {}, None, _F())
                        if isinstance(g0, GenVal):
                            g0.take_all()
                g = I.call_function(f, [e, part], {}, None, _F())
                return g.items[0] if isinstance(g, GenVal) and g.items else None
            c = "get_opcode(%s, %r) after the same lookup in every other command set" % (s, part)
            for p in I.explore(t, max_paths=8):
                first = p.value if p.returned else None
                if first is own[0]:
                    run.ok("get-opcode", c)
                else:
                    run.violation("get-opcode", c, "yields %s, not the %s table's own operation code object"
                                  % ("nothing" if first is None else ("an object of another table" if isinstance(first, Instance) else repr(first)), s),
                                  file, f.node.lineno, f.qualname)


def check_hidden_required_kwargs(prog, run):
    """optional arguments stay optional: in a function that receives the
    facade's **kwargs, subscripting kwargs['k'] (instead of .get / a default)
    makes k a hidden required argument"""
    n = 0
    for f in prog.all_functions():
        kwarg = f.node.args.kwarg
        if kwarg is None or f.cls is None:
            continue
        if f.module.name == SCSI_MOD:
            continue
        n += 1
        for node in prog.I.own_nodes(f.node):
            if (isinstance(node, ast.Subscript) and isinstance(node.ctx, ast.Load) and isinstance(node.value, ast.Name)
                    and node.value.id == kwarg.arg and isinstance(node.slice, ast.Constant)):
                run.violation("optional-argument-stays-optional", "%s %s[%r]" % (f.qualname, kwarg.arg, node.slice.value),
                              "%s subscripts %s[%r]: the facade forwards only the keywords the caller supplied, so omitting the "
                              "documented optional argument raises KeyError" % (f.qualname, kwarg.arg, node.slice.value),
                              prog.file_of(f), node.lineno, f.qualname)
        run.ok("optional-argument-stays-optional", f.qualname, nontrivial=False)
    run.count("functions_with_kwargs", n)


def thorough_pairs(prog, run):
    """every facade method called right after every other one on the same facade (each ordered pair, each command set
    that offers both): all the rules of check_path apply to the second call"""
    methods = facade_methods(prog)
    scsi_cls = prog.cls(SCSI_MOD, "SCSI")
    file = prog.rel(scsi_cls.module)
    npairs = 0
    for name, fspec in reffacade.FACADE.items():
        if name not in methods:
            continue
        line = methods[name].node.lineno
        for setname in sets_offering(prog, fspec):
            sas = sorted(fspec["extra"]["by_service_action"]) if "by_service_action" in fspec["extra"] else [None]
            for other, ospec in reffacade.FACADE.items():
                if other == name or other not in methods or setname not in sets_offering(prog, ospec):
                    continue
                osas = sorted(ospec["extra"].get("by_service_action", {None: None}), key=lambda x: (x is None, x))
                for fp in eval_facade(prog, name, fspec, setname, "none", sa=sas[-1], check_condition="never", after_all=True,
                                      history=[(other, ospec, osas[-1])]):
                    npairs += 1
                    check_path(prog, run, fp, fspec, name, file, line)
    run.count("ordered_pairs_of_facade_calls", npairs)


def thorough(prog, run):
    """use sites: the arguments the shipped programs (tools/, examples/) pass to the facade must be accepted"""
    import glob
    import os
    thorough_pairs(prog, run)
    methods = facade_methods(prog)
    nsites = 0
    for sub in ("tools", "examples"):
        for path in sorted(glob.glob(os.path.join(prog.repo, sub, "*.py"))):
            try:
                tree = ast.parse(open(path).read(), filename=path)
            except SyntaxError as e:
                run.violation("use-site-parses", os.path.relpath(path, prog.repo), "does not parse: %s" % e)
                continue
            for n in ast.walk(tree):
                if not (isinstance(n, ast.Call) and isinstance(n.func, ast.Attribute) and n.func.attr in reffacade.FACADE and n.func.attr in methods):
                    continue
                # only calls on a name (s.inquiry(...)), not on modules
                if not isinstance(n.func.value, ast.Name):
                    continue
                name = n.func.attr
                fn = methods[name]
                fspec = reffacade.FACADE[name]
                a = fn.node.args
                fparams = [p.arg for p in a.args][1:]
                accepted = set(fparams)
                if a.kwarg is not None:
                    cls = prog.cls(*fspec["cls"].split(":"))
                    accepted |= set(p.arg for p in cls.lookup("__init__")[0].node.args.args)
                    for cn in fspec["extra"].get("by_service_action", {}).values():
                        c2 = prog.cls(fspec["cls"].split(":")[0], cn)
                        accepted |= set(p.arg for p in c2.lookup("__init__")[0].node.args.args)
                nsites += 1
                c = "%s:%d %s()" % (os.path.relpath(path, prog.repo), n.lineno, name)
                bad = [k.arg for k in n.keywords if k.arg is not None and k.arg not in accepted]
                npos = len([x for x in n.args if not isinstance(x, ast.Starred)])
                if bad:
                    run.violation("use-site-arguments-accepted", "%s %s(%s=)" % (os.path.relpath(path, prog.repo), name, bad[0]),
                                  "%s passes keyword %r which neither SCSI.%s nor the command constructor accepts" % (c, bad[0], name),
                                  os.path.relpath(path, prog.repo), n.lineno)
                elif npos > len(fparams) and a.vararg is None:
                    run.violation("use-site-arguments-accepted", "%s %s positional" % (os.path.relpath(path, prog.repo), name),
                                  "%s passes %d positional arguments, SCSI.%s takes %d" % (c, npos, name, len(fparams)),
                                  os.path.relpath(path, prog.repo), n.lineno)
                else:
                    run.ok("use-site-arguments-accepted", c)
    run.count("use_sites", nsites)
