"""C09 -- command objects are isolated from one another, in any order or
interleaving (ownership / effect inventory)."""
from __future__ import annotations

import ast

from ..astutil import norm
from ..cmdeval import *
from ..cmdeval import _F
from ..images import same_value
from ..rt import *
from ..values import *
from spec import cdb as refcdb

SHARED_KINDS = ("class-store", "global-store", "static-mutation", "memo-store", "closure-store")


def sym_arg(I, name):
    n = name.lower()
    if n in ("cls", "self"):
        return None
    if n in ("data", "d", "datain", "sense") or n.startswith("data"):
        return ("view_or_dict", name)
    return SymAny((name,))


def effect_key(e):
    if e["kind"] == "class-store":
        return "store %s.%s" % (e["cls"].split(":")[1], e["name"])
    if e["kind"] == "global-store":
        return "store global %s.%s" % (e["module"], e["name"])
    if e["kind"] == "static-mutation":
        return "mutation of %s" % (e.get("origin"),)
    if e["kind"] == "closure-store":
        return "store nonlocal %s of %s (a closure made at import time: one variable for every command)" % (e.get("name"), e.get("func"))
    if e["kind"] == "shared-object-store":
        return "store %s.%s on the %s object created at import time" % (e["cls"].split(":")[1], e["name"], e["cls"].split(":")[1])
    if e["kind"] == "memo-store":
        return "memoised result of %s (one object shared by all calls with equal arguments)" % e.get("func")
    return e["kind"]


def check(prog, run):
    I = prog.I
    run.explanation = ("effect inventory: every constructor (all 42 classes, every argument-domain choice and path) and every "
                       "marshall_*/unmarshall_*/encode_* function of the command classes (device buffers and caller "
                       "dictionaries symbolic) is abstractly interpreted and every store is classified by its target: a class "
                       "object, a module global, an object created at import time (class-level tables, default-argument objects) "
                       "or the command's own state.  With no store of the first three kinds, what a command encodes or decodes "
                       "depends only on class constants and its own arguments, for every history and every thread interleaving "
                       "(threads that share nothing cannot interfere).  A store that is found is reported with its readers, and "
                       "its behavioural consequence is confirmed on ordered pairs of classes; calls into the clock / random / "
                       "environment inside marshalling code are reported (determinism)")
    run.rule_text = ("one obligation per analysed function (no shared-state store on any explored path) and per ordered pair of "
                     "command classes (A built, B built, A's class-level decode/encode still A's)")
    run.trusted += ["python object model as modelled (instance attribute vs class attribute store)"]
    classes = {c.qualname: c for c in prog.command_classes()}
    found = {}     # key -> (event, function qualname)
    nfunc = 0
    install_watches(prog)

    def scan(paths, owner):
        bad = []
        for p in paths:
            for e in p.events:
                if e["kind"] in SHARED_KINDS:
                    bad.append(e)
                if e["kind"] == "attr-store" and getattr(e.get("obj"), "import_time", False):
                    # an attribute of an object that was created when the module was imported and lives on a class / in a
                    # module: one object for every command (and, if it is a threading.local, one per thread -- which is state
                    # outside the command all the same)
                    bad.append(dict(e, kind="shared-object-store"))
                if e["kind"] == "external-call":
                    top = e["name"].split(".")[0]
                    if top in ("time", "random", "os", "socket", "datetime", "uuid", "secrets"):
                        bad.append(dict(e, kind="nondeterministic-call"))
        return bad

    # 1. constructors
    first_con = {}
    for key, entry in refcdb.CDB.items():
        if key not in classes:
            raise AnalysisError("anchor-missing", key)
        cls = classes[key]
        nfunc += 1
        ops = opcode_entries(prog, entry["names"])
        cons = construct_all(prog, key, entry, sets=[ops[0][0]] if ops else None)
        good = [c for c in cons if c.path.returned]
        if good:
            first_con[key] = good[0]
        bad = scan([c.path for c in cons], key)
        init = cls.lookup("__init__")[0]
        if not bad:
            run.ok("no-shared-state-store", "%s.__init__" % key.split(":")[1])
        for e in bad:
            where = e.get("where") or ""
            fn = where.split("@")[0]
            k = "%s %s" % (fn, effect_key(e))
            found.setdefault(k, (e, fn))
        # the constructed object must not alias import-time mutable objects
        for c in good:
            for an, av in c.inst.attrs.items():
                if isinstance(av, (dict, list, Buf)) and id(av) in I.static_ids:
                    run.violation("no-alias-of-shared-object", "%s.%s" % (key.split(":")[1], an),
                                  "cmd.%s is the shared object %s (a default argument / class-level container): mutating one command's "
                                  "buffer changes every later command" % (an, I.static_ids[id(av)]), prog.rel(cls.module), init.node.lineno, key)
            # ... nor hand out, through its public buffers, an object that lives on a class (the instance never got its own)
            for an in ("cdb", "dataout", "datain", "result"):
                def rd(c=c, an=an):
                    return I.get_attr(c.inst, an, None, _F())
                ps = I.explore(rd, max_paths=4)
                for p in ps:
                    if not p.returned or not isinstance(p.value, (dict, list, Buf)):
                        continue
                    owner = None
                    for k in c.inst.cls.mro():
                        for cn, cv in k.attrs.items():
                            if cv is p.value:
                                owner = "%s.%s" % (k.name, cn)
                    if owner is None and id(p.value) in I.static_ids:
                        owner = I.static_ids[id(p.value)]
                    if owner is not None:
                        run.violation("no-alias-of-shared-object", "%s.%s" % (key.split(":")[1], an),
                                      "cmd.%s of a freshly built %s (%s) is the class-level object %s: every command that did not get its "
                                      "own buffer shares it, and what one command (or the transport, for it) writes there is seen by the others"
                                      % (an, key.split(":")[1], c.label(), owner), prog.rel(cls.module), init.node.lineno, key)
                    else:
                        run.ok("no-alias-of-shared-object", "%s.%s" % (key.split(":")[1], an), nontrivial=False)
    # 2. every decoder on a symbolic device buffer, every marshaller / parser pair on the
    #    enumerated shapes of spec/roundtrip.py, every parameter-list constructor of spec/paramlists.py
    from ..decoders import install_decoder_watches
    from .c11 import decoder_targets
    from spec import roundtrip as refrt
    from spec import paramlists as refpl
    I.visited = set()

    def collect(paths, label):
        for e in scan(paths, label):
            where = e.get("where") or ""
            fn = where.split("@")[0] or label
            k = "%s %s" % (fn, effect_key(e))
            found.setdefault(k, (e, fn))

    for f in decoder_targets(prog):
        params = [p.arg for p in f.node.args.args]

        def th(f=f, params=params):
            args = []
            for pn in params:
                if pn == "cls":
                    continue
                if pn == "self":
                    args.append(Instance(f.cls))
                elif pn in ("data", "d", "sense"):
                    args.append(View("device"))
                elif pn == "evpd":
                    args.append(Sym.param("evpd", 1))
                elif pn == "_type":
                    args.append(Sym.param("_type", 8))
                else:
                    args.append(SymAny((pn,)))
            kw = {"est": 1, "mcsb": 0x1F, "c2ei": 1, "scsb": 2} if f.node.args.kwarg is not None else {}
            fn = I.get_attr(f.cls, f.name, None, _F()) if f.kind != "function" else f
            return I.call(fn, args, kw, None, _F())
        collect(I.explore(th, max_paths=3000), f.qualname)
    for case in refrt.CASES:
        cls = prog.cls(*case["cls"].split(":"))

        def th2(case=case, cls=cls):
            d = case["build"]()
            b = I.call(I.get_attr(cls, case["marshall"], None, _F()), [d], {}, None, _F())
            again = I.call(I.get_attr(cls, case["marshall"], None, _F()), [case["build"]()], {}, None, _F())
            d1 = I.call(I.get_attr(cls, case["unmarshall"], None, _F()), [b], dict(case["ukw"]), None, _F())
            b = b.copy() if isinstance(b, Buf) else b
            same_obj = I.call(I.get_attr(cls, case["marshall"], None, _F()), [d], {}, None, _F())
            return b, again, same_obj
        ps = I.explore(th2, max_paths=64)
        collect(ps, case["name"])
        # repeating a marshalling call with equal inputs yields equal bytes
        for p in ps:
            if p.returned:
                b, again, same_obj = p.value
                if not same_value(b, same_obj):
                    run.violation("marshalling-repeatable", case["name"],
                                  "marshalling the very same dictionary a second time gives different bytes (the first call changed "
                                  "what the caller passed in)", prog.rel(cls.module), None, case["cls"])
                elif same_value(b, again):
                    run.ok("marshalling-repeatable", case["name"], nontrivial=False)
                else:
                    run.violation("marshalling-repeatable", case["name"], "two marshalling calls with equal inputs give different bytes",
                                  prog.rel(cls.module), None, case["cls"])
    # no marshalling result may depend on the iteration order of a set (for strings that order changes from one process to
    # the next): every shape -- and standard INQUIRY data with identification strings shorter than their fields, where the
    # writes do not commute -- is marshalled under both orders of every set iteration
    from ..images import same_value as _same, sym_blob as _blob

    def short_inquiry():
        d = [c for c in refrt.CASES if c["name"] == "standard INQUIRY"][0]["build"]()
        d.update(t10_vendor_identification=_blob("vid", 4), product_identification=_blob("pid", 9), product_revision_level=_blob("rev", 2))
        return d
    std = [c for c in refrt.CASES if c["name"] == "standard INQUIRY"]
    extra = [dict(std[0], name="standard INQUIRY with short identification strings", build=short_inquiry)] if std else []
    for case in list(refrt.CASES) + extra:
        cls = prog.cls(*case["cls"].split(":"))
        outs = []
        sets_seen = 0
        for rev in (False, True):
            I.set_order_reversed = rev
            try:
                ps = I.explore(lambda case=case, cls=cls: I.call(I.get_attr(cls, case["marshall"], None, _F()), [case["build"]()], {}, None, _F()),
                               max_paths=64)
            finally:
                I.set_order_reversed = False
            outs.append([p.value if p.returned else ("raises", p.raised.describe()) for p in ps])
            sets_seen += sum(1 for p in ps for e in p.events if e["kind"] == "set-iteration")
        okd = len(outs[0]) == len(outs[1]) and all((_same(a, b) if not isinstance(a, tuple) else a == b) for a, b in zip(outs[0], outs[1]))
        if okd:
            run.ok("marshalling-deterministic", "%s (set iteration order)" % case["name"], {"set_iterations": sets_seen}, nontrivial=sets_seen > 0)
        else:
            run.violation("marshalling-deterministic", "%s (set iteration order)" % case["name"],
                          "the bytes %s.%s produces depend on the order in which a set is iterated (%d set iterations on the way): for a set "
                          "of strings that order changes with every interpreter start, so equal inputs give different bytes in different runs"
                          % (cls.name, case["marshall"], sets_seen), prog.rel(cls.module), None, case["cls"])
    enum_spc = prog.module(ENUM_MOD).env["spc"]
    for group, opname in ((refpl.PR_CASES, "PERSISTENT_RESERVE_OUT"), (refpl.MODE_CASES, None), (refpl.XCOPY_CASES, "EXTENDED_COPY")):
        for case in group:
            cls = prog.cls(*(case.get("cls") or refpl.PO).split(":"))
            on = opname or ("MODE_SELECT_6" if cls.name.endswith("6") else "MODE_SELECT_10")

            def th3(case=case, cls=cls, on=on):
                kw, img = case["build"]()
                if "sa" in case:
                    kw = dict(kw, service_action=case["sa"])
                elif "mode_pages" in kw:
                    kw = {"data": kw}
                return I.instantiate(cls, [enum_spc.members[on]], kw, None, _F())
            collect(I.explore(th3, max_paths=64), case["name"])
    visited = sorted(q for q in I.visited if any(t in q.split(".")[-1] for t in ("marshall", "encode_", "get_code", "_pad4", "scsi_to_", "build_cdb", "__init__")))
    nfunc += len(visited)
    run.extra["functions_reached"] = visited
    for q in visited:
        if not any(fn == q for (_, fn) in found.values()):
            run.ok("no-shared-state-store", q, nontrivial=True)
    # report each shared store once, with its readers
    for k, (e, fn) in sorted(found.items()):
        readers = []
        if e["kind"] == "class-store":
            readers = readers_of(prog, e["cls"].split(":")[1], e["name"])
        node = e.get("node")
        msg = "%s at %s writes state shared by all commands (%s)" % (fn, e.get("where"), effect_key(e))
        if e["kind"] == "nondeterministic-call":
            run.violation("marshalling-deterministic", "%s calls %s" % (fn, e["name"]), "marshalling code calls %s" % e["name"],
                          None, getattr(node, "lineno", None), fn)
            continue
        if readers:
            msg += "; read by %s: a command constructed (or a decode) in between, in this or another thread, changes the result" % ", ".join(readers)
        mod = prog.modules.get(fn.split(":")[0])
        run.violation("no-shared-state-store", k, msg, prog.rel(mod) if mod else None, getattr(node, "lineno", None), fn,
                      facts={"readers": readers})
    # 3. behavioural confirmation on ordered pairs
    reps = ["Read10", "Read16", "Write12", "Inquiry", "TestUnitReady", "ReportLuns", "ModeSense6", "ATAPassThrough16", "MoveMedium",
            "PersistentReserveInReadKeys", "ReadCd", "ExtendedCopy", "GetLBAStatus", "WriteSame16", "ReadCapacity10",
            "InitializeElementStatus", "ReadCapacity16", "PersistentReserveOut"]
    keys = sorted(k for k in first_con if k.split(":")[1] in reps)
    npairs = 0
    broken = []
    hist = []
    for ka in keys:
        for kb in keys:
            if ka == kb:
                continue
            npairs += 1
            ca, cb = first_con[ka], first_con[kb]
            ea, eb = refcdb.CDB[ka], refcdb.CDB[kb]

            def th(ca=ca, cb=cb, ea=ea, eb=eb):
                def build(con, entry):
                    kw = {}
                    for (n, d) in entry["args"]:
                        pick = [c for c in domain_choices(n, d) if c[0] == con.labels[n]][0]
                        kw[n] = pick[1]()
                    return I.instantiate(con.cls, [con.opcode], kw, None, _F())
                a = build(ca, ea)
                built = [e for e in I.events if e["kind"] == "build_cdb"]
                built = built[-1]["kwargs"] if built else None
                view_a = pub_view(I, a)
                cdb_a = view_a["cdb"]
                image_a = {n: (list(v.cells) if isinstance(v, Buf) and v.cells is not None else None) for n, v in view_a.items()}
                b_after = build(cb, eb)
                view_b = pub_view(I, b_after)
                # what the first command reads as, now that another one exists
                later_a = pub_view(I, a)
                changed = []
                for n in ("cdb", "dataout", "datain"):
                    if later_a[n] is not view_a[n]:
                        changed.append("%s.%s is a different object once a %s exists" % (ca.cls.name, n, cb.cls.name))
                    elif isinstance(later_a[n], Buf) and later_a[n].cells is not None and image_a[n] is not None \
                            and not all(same_value(x, y) for x, y in zip(later_a[n].cells, image_a[n])) :
                        changed.append("%s.%s reads differently once a %s exists" % (ca.cls.name, n, cb.cls.name))
                    elif isinstance(later_a[n], Buf) and image_a[n] is not None and later_a[n].cells is not None \
                            and len(later_a[n].cells) != len(image_a[n]):
                        changed.append("%s.%s has another length once a %s exists" % (ca.cls.name, n, cb.cls.name))
                I.event("b-after-a", cdb=view_b["cdb"], dataout=view_b["dataout"], datain=view_b["datain"], a=a, view_a=view_a,
                        changed=changed)
                dec = I.call(I.get_attr(ca.cls, "unmarshall_cdb", None, _F()), [cdb_a], {}, None, _F())
                enc = I.call(I.get_attr(ca.cls, "marshall_cdb", None, _F()), [dict(built)], {}, None, _F()) if built is not None else None
                return dec, built, enc, cdb_a
            try:
                ps = I.explore(th, max_paths=64)
            except AnalysisError:
                continue
            for p in ps:
                if not p.returned:
                    continue
                # (i) B built right after A is the B that is built alone; (ii) the two objects share no buffer
                for ev in p.events:
                    if ev["kind"] == "b-after-a":
                        if not same_value(ev["cdb"], cb.pub.get("cdb")):
                            hist.append((ka.split(":")[1], kb.split(":")[1], "cdb %r instead of %r" % (ev["cdb"], cb.pub.get("cdb"))))
                        for an in ("dataout", "datain", "cdb"):
                            if isinstance(ev["view_a"].get(an), Buf) and any(ev["view_a"].get(an) is x for x in (ev["dataout"], ev["datain"], ev["cdb"])):
                                hist.append((ka.split(":")[1], kb.split(":")[1], "the two commands share the buffer object .%s" % an))
                        for what in ev["changed"]:
                            hist.append((ka.split(":")[1], kb.split(":")[1], what))
                dec, built, enc, cdb_a = p.value
                table = ca.cls.lookup("_cdb_bits")[0]
                same_keys = isinstance(dec, dict) and set(dec.keys()) == set(table.keys())
                same_len = built is None or (isinstance(enc, Buf) and isinstance(cdb_a, Buf) and enc.cells is not None and cdb_a.cells is not None and len(enc.cells) == len(cdb_a.cells))
                if same_keys and same_len:
                    pass
                else:
                    broken.append((ka.split(":")[1], kb.split(":")[1], sorted(dec.keys())[:4] if isinstance(dec, dict) else dec))
                break
    if broken:
        a, b, got = broken[0]
        run.violation("class-decode-independent-of-history", "unmarshall_cdb/marshall_cdb after another command was constructed",
                      "%d of %d ordered class pairs: e.g. build %s, then build %s, then %s.unmarshall_cdb(first.cdb) decodes fields %s "
                      "(the layout of the last constructed command)" % (len(broken), npairs, a, b, a, got),
                      prog.rel(prog.module(CMD_MOD)), None, CMD_MOD + ":SCSICommand.unmarshall_cdb", facts={"first_pairs": broken[:5]})
    else:
        run.ok("class-decode-independent-of-history", "all ordered pairs", {"pairs": npairs})
    if hist:
        a, b, what = hist[0]
        run.violation("construction-independent-of-history", "command built right after another command",
                      "%d of %d ordered class pairs: e.g. %s built right after %s: %s" % (len(hist), npairs, b, a, what),
                      prog.rel(prog.module(CMD_MOD)), None, CMD_MOD + ":SCSICommand.__init__", facts={"first": hist[:5]})
    else:
        run.ok("construction-independent-of-history", "all ordered pairs", {"pairs": npairs})
    run.count("functions", nfunc)
    run.count("ordered_pairs", npairs)
    run.floor("functions analysed", nfunc, 80)
    # fixture: the rule must be able to see a class-level store at all
    fx = [e for k, (e, fn) in found.items() if e["kind"] == "class-store"]
    run.extra["shared_store_sites"] = sorted(found)


def readers_of(prog, clsname, attr):
    out = []
    for f in prog.all_functions():
        for n in prog.I.own_nodes(f.node):
            if (isinstance(n, ast.Attribute) and n.attr == attr and isinstance(n.ctx, ast.Load)
                    and isinstance(n.value, ast.Name) and n.value.id in (clsname, "cls")):
                if f.qualname not in out:
                    out.append(f.qualname)
    return out
