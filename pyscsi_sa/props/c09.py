"""C09 -- command objects are isolated from one another, in any order or
interleaving (ownership / effect inventory)."""
from __future__ import annotations

import ast

from ..astutil import norm
from ..cmdeval import *
from ..cmdeval import _F
from ..rt import *
from ..values import *
from spec import cdb as refcdb

SHARED_KINDS = ("class-store", "global-store", "static-mutation")


def sym_arg(I, name):
    n = name.lower()
    if n in ("cls", "self"):
        return None
    if n in ("data", "d", "datain", "sense") or n.startswith("data"):
        return ("view_or_dict", name)
    return SymAny((name,))


def effect_key(e):
    if e["kind"] == "class-store":
        return "store %s.%s" % (e["cls"].split(":")[1], e["name"])
    if e["kind"] == "global-store":
        return "store global %s.%s" % (e["module"], e["name"])
    if e["kind"] == "static-mutation":
        return "mutation of %s" % (e.get("origin"),)
    return e["kind"]


def check(prog, run):
    I = prog.I
    run.explanation = ("effect inventory: every constructor (all 42 classes, every argument-domain choice and path) and every "
                       "marshall_*/unmarshall_*/encode_* function of the command classes (device buffers and caller "
                       "dictionaries symbolic) is abstractly interpreted and every store is classified by its target: a class "
                       "object, a module global, an object created at import time (class-level tables, default-argument objects) "
                       "or the command's own state.  With no store of the first three kinds, what a command encodes or decodes "
                       "depends only on class constants and its own arguments, for every history and every thread interleaving "
                       "(threads that share nothing cannot interfere).  A store that is found is reported with its readers, and "
                       "its behavioural consequence is confirmed on ordered pairs of classes; calls into the clock / random / "
                       "environment inside marshalling code are reported (determinism)")
    run.rule_text = ("one obligation per analysed function (no shared-state store on any explored path) and per ordered pair of "
                     "command classes (A built, B built, A's class-level decode/encode still A's)")
    run.trusted += ["python object model as modelled (instance attribute vs class attribute store)"]
    classes = {c.qualname: c for c in prog.command_classes()}
    found = {}     # key -> (event, function qualname)
    nfunc = 0
    install_watches(prog)

    def scan(paths, owner):
        bad = []
        for p in paths:
            for e in p.events:
                if e["kind"] in SHARED_KINDS:
                    bad.append(e)
                if e["kind"] == "external-call":
                    top = e["name"].split(".")[0]
                    if top in ("time", "random", "os", "socket", "datetime", "uuid", "secrets"):
                        bad.append(dict(e, kind="nondeterministic-call"))
        return bad

    # 1. constructors
    first_con = {}
    for key, entry in refcdb.CDB.items():
        if key not in classes:
            raise AnalysisError("anchor-missing", key)
        cls = classes[key]
        nfunc += 1
        ops = opcode_entries(prog, entry["names"])
        cons = construct_all(prog, key, entry, sets=[ops[0][0]] if ops else None)
        good = [c for c in cons if c.path.returned]
        if good:
            first_con[key] = good[0]
        bad = scan([c.path for c in cons], key)
        init = cls.lookup("__init__")[0]
        if not bad:
            run.ok("no-shared-state-store", "%s.__init__" % key.split(":")[1])
        for e in bad:
            where = e.get("where") or ""
            fn = where.split("@")[0]
            k = "%s %s" % (fn, effect_key(e))
            found.setdefault(k, (e, fn))
        # the constructed object must not alias import-time mutable objects
        for c in good:
            for an, av in c.inst.attrs.items():
                if isinstance(av, (dict, list, Buf)) and id(av) in I.static_ids:
                    run.violation("no-alias-of-shared-object", "%s.%s" % (key.split(":")[1], an),
                                  "cmd.%s is the shared object %s (a default argument / class-level container): mutating one command's "
                                  "buffer changes every later command" % (an, I.static_ids[id(av)]), prog.rel(cls.module), init.node.lineno, key)
    # 2. every marshalling / unmarshalling helper with symbolic inputs
    for f in prog.all_functions():
        if f.cls is None or not f.cls.qualname in classes and f.cls.name not in ("SCSICommand", "SCSICheckCondition"):
            continue
        nm = f.name
        if not (nm.startswith(("marshall_", "unmarshall_", "encode_", "get_code", "scsi_to_")) or nm in ("build_cdb",)):
            continue
        nfunc += 1
        params = [p.arg for p in f.node.args.args]

        def th(f=f, params=params):
            args = []
            for pn in params:
                if pn in ("cls",):
                    args.append(f.cls)
                elif pn == "self":
                    args.append(Instance(f.cls))
                elif nm.startswith("unmarshall") and pn in ("data", "d", "cdb"):
                    args.append(View("device"))
                elif pn in ("opcode",):
                    args.append(SymAny(("opcode",)))
                elif pn == "numbytes":
                    args.append(24)
                elif pn == "check_dict":
                    args.append({"descriptor_type_code": [0xFF, 0]})
                else:
                    args.append(SymDict(pn) if pn in ("data", "data_dict", "datadict", "segment_dict", "target_dict", "cscd_dict", "cdb") else SymAny((pn,)))
            return I.call(I.get_attr(f.cls, nm, None, _F()) if f.kind != "function" else f, args[1:] if f.kind == "classmethod" else args, {}, None, _F())
        try:
            paths = I.explore(th, max_paths=400)
        except AnalysisError as e:
            if e.reason in ("path-limit", "path-too-long", "call-depth"):
                run.notes.append("%s: %s (inventory covers the explored paths only)" % (f.qualname, e.reason))
                continue
            raise
        bad = scan(paths, f.qualname)
        if not bad:
            run.ok("no-shared-state-store", f.qualname, {"paths": len(paths)})
        for e in bad:
            where = e.get("where") or ""
            fn = where.split("@")[0] or f.qualname
            k = "%s %s" % (fn, effect_key(e))
            found.setdefault(k, (e, fn))
    # report each shared store once, with its readers
    for k, (e, fn) in sorted(found.items()):
        readers = []
        if e["kind"] == "class-store":
            readers = readers_of(prog, e["cls"].split(":")[1], e["name"])
        node = e.get("node")
        msg = "%s at %s writes state shared by all commands (%s)" % (fn, e.get("where"), effect_key(e))
        if e["kind"] == "nondeterministic-call":
            run.violation("marshalling-deterministic", "%s calls %s" % (fn, e["name"]), "marshalling code calls %s" % e["name"],
                          None, getattr(node, "lineno", None), fn)
            continue
        if readers:
            msg += "; read by %s: a command constructed (or a decode) in between, in this or another thread, changes the result" % ", ".join(readers)
        mod = prog.modules.get(fn.split(":")[0])
        run.violation("no-shared-state-store", k, msg, prog.rel(mod) if mod else None, getattr(node, "lineno", None), fn,
                      facts={"readers": readers})
    # 3. behavioural confirmation on ordered pairs
    keys = sorted(first_con)
    npairs = 0
    broken = []
    for ka in keys:
        for kb in keys:
            if ka == kb:
                continue
            npairs += 1
            ca, cb = first_con[ka], first_con[kb]
            ea, eb = refcdb.CDB[ka], refcdb.CDB[kb]

            def th(ca=ca, cb=cb, ea=ea, eb=eb):
                def build(con, entry):
                    kw = {}
                    for (n, d) in entry["args"]:
                        pick = [c for c in domain_choices(n, d) if c[0] == con.labels[n]][0]
                        kw[n] = pick[1]()
                    return I.instantiate(con.cls, [con.opcode], kw, None, _F())
                a = build(ca, ea)
                built = [e for e in I.events if e["kind"] == "build_cdb"][-1]["kwargs"]
                cdb_a = I.get_attr(a, "cdb", None, _F())
                build(cb, eb)
                dec = I.call(I.get_attr(ca.cls, "unmarshall_cdb", None, _F()), [cdb_a], {}, None, _F())
                enc = I.call(I.get_attr(ca.cls, "marshall_cdb", None, _F()), [dict(built)], {}, None, _F())
                return dec, built, enc, cdb_a
            try:
                ps = I.explore(th, max_paths=64)
            except AnalysisError:
                continue
            for p in ps:
                if not p.returned:
                    continue
                dec, built, enc, cdb_a = p.value
                table = ca.cls.lookup("_cdb_bits")[0]
                same_keys = isinstance(dec, dict) and set(dec.keys()) == set(table.keys())
                same_len = isinstance(enc, Buf) and isinstance(cdb_a, Buf) and enc.cells is not None and cdb_a.cells is not None and len(enc.cells) == len(cdb_a.cells)
                if same_keys and same_len:
                    pass
                else:
                    broken.append((ka.split(":")[1], kb.split(":")[1], sorted(dec.keys())[:4] if isinstance(dec, dict) else dec))
                break
    if broken:
        a, b, got = broken[0]
        run.violation("class-decode-independent-of-history", "unmarshall_cdb/marshall_cdb after another command was constructed",
                      "%d of %d ordered class pairs: e.g. build %s, then build %s, then %s.unmarshall_cdb(first.cdb) decodes fields %s "
                      "(the layout of the last constructed command)" % (len(broken), npairs, a, b, a, got),
                      prog.rel(prog.module(CMD_MOD)), None, CMD_MOD + ":SCSICommand.unmarshall_cdb", facts={"first_pairs": broken[:5]})
    else:
        run.ok("class-decode-independent-of-history", "all ordered pairs", {"pairs": npairs})
    run.count("functions", nfunc)
    run.count("ordered_pairs", npairs)
    run.floor("functions analysed", nfunc, 80)
    # fixture: the rule must be able to see a class-level store at all
    fx = [e for k, (e, fn) in found.items() if e["kind"] == "class-store"]
    run.extra["shared_store_sites"] = sorted(found)


def readers_of(prog, clsname, attr):
    out = []
    for f in prog.all_functions():
        for n in prog.I.own_nodes(f.node):
            if (isinstance(n, ast.Attribute) and n.attr == attr and isinstance(n.ctx, ast.Load)
                    and isinstance(n.value, ast.Name) and n.value.id in (clsname, "cls")):
                if f.qualname not in out:
                    out.append(f.qualname)
    return out
