"""C05 -- parameter lists sent to the device have the standard layout and
honest lengths."""
from __future__ import annotations

from ..cmdeval import *
from ..cmdeval import _F
from ..images import *
from ..rt import *
from ..tablecheck import check_tables
from ..values import *
from spec import opcodes as refop
from spec import paramlists as refpl


def pad4_reference(n):
    return (n + 1 + 3) // 4 * 4


def thorough(prog, run):
    """deeper shapes: every iSCSI name length 1..48 (all padding residues many times), every TransportID kind in one list,
    larger EXTENDED COPY lists"""
    check(prog, run, pr_cases=refpl.MORE_PR_CASES, mode_cases=[], xcopy_cases=refpl.MORE_XCOPY_CASES, floors=False)


def check(prog, run, pr_cases=None, mode_cases=None, xcopy_cases=None, floors=True):
    I = prog.I
    run.explanation = ("(1) every parameter-list table is specialised through encode_dict and compared with the reference positions; "
                       "(2) for each enumerated shape (service action, TransportID kinds and name lengths, mode page kinds, CSCD / "
                       "segment descriptor kinds and counts) the command constructor is abstractly interpreted with symbolic leaf "
                       "values and cmd.dataout is compared, bit for bit, with a reference byte image built from the standard's "
                       "positions and length rules (every embedded length = bytes that follow); the CDB's parameter list length must "
                       "equal len(cmd.dataout); a shape that cannot be constructed is a violation; (3) _pad4_len is decided for all "
                       "string lengths by residue")
    run.rule_text = "one obligation per table field, per (command, shape) image, per (command, shape) CDB length, per residue of _pad4_len"
    run.trusted += ["spec/paramlists.py, spec/tables.py (hand transcriptions)"]
    run.assumptions += ["dictionaries outside the enumerated shapes / the library's documented keys are not decided"]
    if floors:
        check_tables(prog, run, {"paramlist"}, rule_prefix="table")
    install_watches(prog)
    enum = prog.module(ENUM_MOD).env["spc"]
    ncase = 0

    def run_case(name, cls, op, build, pos_args=(), len_field=None):
        nonlocal ncase
        ncase += 1
        file = prog.rel(cls.module)
        init = cls.lookup("__init__")[0]
        holder = {}

        def th():
            kw, img = build()
            holder["img"] = img
            a = [op] + [x() if callable(x) else x for x in pos_args]
            inst = I.instantiate(cls, a, kw if isinstance(kw, dict) and not pos_is_data(pos_args) else {}, None, _F("C05 " + name))
            return inst, img, pub_view(I, inst)
        def pos_is_data(pa):
            return False
        ps = I.explore(th, max_paths=64)
        for p in ps:
            if not p.returned:
                ec = p.raised.exc_class()
                run.violation("parameter-list-constructible", name,
                              "%s: the command cannot be constructed for this valid shape: %s%s"
                              % (name, p.raised.describe(), (" [when %s]" % p.cond_str()[:150]) if p.path else ""),
                              file, getattr(p.raised.node, "lineno", init.node.lineno), cls.qualname)
                continue
            inst, img, pub = p.value
            dout = pub.get("dataout")
            if isinstance(dout, bytes):
                dout = Buf(cells=list(dout))
            d = img.diff(dout)
            if d:
                run.violation("parameter-list-image", name,
                              "%s: cmd.dataout differs from the standard's layout: %s"
                              % (name, "; ".join("byte %s: expected %s got %s" % x for x in d[:4])), file, init.node.lineno, cls.qualname,
                              facts={"differences": [list(map(str, x)) for x in d[:12]]})
            else:
                run.ok("parameter-list-image", name, {"bytes": len(img)})
            # CDB parameter list length
            cdb = pub.get("cdb")
            if len_field is not None and isinstance(cdb, Buf) and cdb.cells is not None:
                first, n = len_field
                val = 0
                okc = True
                for i in range(n):
                    c = norm_int(cdb.cells[first + i])
                    if not isinstance(c, int):
                        okc = False
                        break
                    val = val * 256 + c
                if okc and val == len(img):
                    run.ok("cdb-parameter-list-length", name, {"length": val})
                else:
                    run.violation("cdb-parameter-list-length", name,
                                  "%s: the CDB announces a parameter list of %s bytes, the list has %d" % (name, val if okc else "?", len(img)),
                                  file, init.node.lineno, cls.qualname)

    # PERSISTENT RESERVE OUT
    pocls = prog.cls(*refpl.PO.split(":"))
    op = enum.members.get("PERSISTENT_RESERVE_OUT")
    for case in (pr_cases if pr_cases is not None else refpl.PR_CASES):
        def build(case=case):
            kw, img = case["build"]()
            kw = dict(kw)
            kw["service_action"] = case["sa"]
            kw["scope"] = Sym.param("scope", 4)
            kw["pr_type"] = Sym.param("pr_type", 4)
            return kw, img
        run_case(case["name"], pocls, op, build, len_field=(5, 4))
    # MODE SELECT
    for case in (mode_cases if mode_cases is not None else refpl.MODE_CASES):
        cls = prog.cls(*case["cls"].split(":"))
        opname = "MODE_SELECT_6" if cls.name.endswith("6") else "MODE_SELECT_10"

        def build(case=case):
            data, img = case["build"]()
            return {"data": data, "pf": Sym.param("pf", 1), "sp": Sym.param("sp", 1)}, img
        run_case(case["name"], cls, enum.members.get(opname), build, len_field=(4, 1) if cls.name.endswith("6") else (7, 2))
    # EXTENDED COPY
    for case in (xcopy_cases if xcopy_cases is not None else refpl.XCOPY_CASES):
        cls = prog.cls(*case["cls"].split(":"))
        run_case(case["name"], cls, enum.members.get("EXTENDED_COPY"), case["build"], len_field=(10, 4))
    if not floors:
        run.count("cases", ncase)
        return
    # _pad4_len for every residue (the argument is only ever measured with len())
    try:
        f = prog.func("pyscsi.pyscsi.scsi_cdb_persistentreservein", None, "_pad4_len")
    except AnalysisError:
        f = None          # a private helper: where the padding is computed is the library's business
        run.notes.append("no helper called _pad4_len: the padding of iSCSI names is decided through the TransportID images only")
    for n in range(0, 41):
        if f is None:
            run.ok("pad4-length", "name of %d characters [decided through the parameter-list images]" % n, nontrivial=False)
            continue
        ps = I.explore(lambda n=n: I.call_function(f, ["x" * n], {}, None, _F()), max_paths=4)
        got = ps[0].value if ps and ps[0].returned else None
        want = pad4_reference(n)
        if got == want:
            run.ok("pad4-length", "_pad4_len(%d characters)" % n, nontrivial=True)
        else:
            run.violation("pad4-length", "_pad4_len residue %d" % (n % 4),
                          "_pad4_len of a %d-character string is %r; NUL-terminated and padded to four it must be %d" % (n, got, want),
                          prog.rel(f.module), f.node.lineno, f.qualname)
    run.count("cases", ncase)
    if floors:
        run.floor("parameter-list cases", ncase, 40)
