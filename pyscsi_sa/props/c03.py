"""C03 -- data buffers match the transfer the CDB announces."""
from __future__ import annotations

from ..cmdeval import *
from ..cmdeval import _F
from ..rt import *
from ..values import *
from spec import cdb as refcdb

BYTESLIKE = (Buf, SymBytes, View, bytes)


def length_of(prog, v):
    if isinstance(v, BYTESLIKE):
        return norm_int(prog.I.len_of(v, None, None))
    return None


def same_len(a, b):
    a, b = norm_int(a), norm_int(b)
    if isinstance(a, int) and isinstance(b, int):
        return a == b
    pa, pb = to_poly(a), to_poly(b)
    if pa is not None and pb is not None:
        return pa == pb
    if isinstance(a, Sym) and isinstance(b, Sym):
        return a.same_value(b)
    return False


def show(v):
    v = norm_int(v)
    if isinstance(v, Sym) and v.poly is not None:
        return p_str(v.poly)
    return repr(v)


def check(prog, run):
    prime_layouts(prog)
    I = prog.I
    run.explanation = ("polynomial dataflow: every constructor is abstractly interpreted with symbolic sizes; the expression "
                       "that sizes cmd.datain / cmd.dataout (and every later store to them) is compared, as a polynomial over "
                       "the argument symbols, with the reference data-phase rule of that command (allocation length, blocks x "
                       "block size, one block, parameter list, READ CD, the SAT transfer rule); buffers must be bytes-like on "
                       "every path; both transports' execute() are interpreted against stand-in bindings and must hand "
                       "cmd.cdb, cmd.dataout, cmd.datain themselves to the binding, in that order, with iSCSI direction and "
                       "length derived from those buffers")
    run.rule_text = "one obligation per (class, command set, domain choice, path) and per transport x buffer-occupancy case"
    run.trusted += ["spec/cdb.py data-phase rules", "binding signatures sgio.execute(file, cdb, out, in), iscsi.Task(cdb, dir, len), "
                    "Context.command(lun, task, out, in) (the bindings are not in the sandbox)"]
    run.assumptions += ["caller-supplied write data has the announced length (not decided)"]
    classes = {c.qualname: c for c in prog.command_classes()}
    ncons = 0
    for key, entry in refcdb.CDB.items():
        if key not in classes:
            raise AnalysisError("anchor-missing", key)
        cls = classes[key]
        file = prog.rel(cls.module)
        init = cls.lookup("__init__")[0]
        line = init.node.lineno if isinstance(init, FuncVal) else None
        short = key.split(":")[1]
        rule = entry["data"]
        cons = construct_all(prog, key, entry, sets=None)
        # one command set is enough for buffer sizing (no dependence on the table) but all are cheap
        for con in cons:
            if not con.path.returned:
                continue  # constructibility is C01/C05/C17
            ncons += 1
            inst = con.inst
            dout = con.pub.get("dataout")
            din = con.pub.get("datain")
            case = con.label()
            cname = "%s %s" % (short, rule[0])
            bad = False
            for nm, v in (("dataout", dout), ("datain", din)):
                if not isinstance(v, BYTESLIKE):
                    run.violation("buffer-is-bytes", "%s.%s" % (short, nm),
                                  "cmd.%s is %s (kind %s), not a byte buffer, in case %s" % (nm, v, I.kind_of(v), case),
                                  file, line, key)
                    bad = True
            if bad:
                continue
            lo, li = length_of(prog, dout), length_of(prog, din)
            a = con.args
            exp = None
            if rule[0] == "none":
                exp = (0, 0, None)
            elif rule[0] in ("alloc", "fixed-in"):
                exp = (0, a[rule[1]], None)
            elif rule[0] == "blocks-in":
                exp = (0, sym_binop("*", a[rule[1]], a[rule[2]]), None)
            elif rule[0] == "blocks-out":
                exp = ("is", a[rule[3]], 0)
            elif rule[0] == "one-block-out":
                if rule[3] is not None and norm_int(a.get(rule[3])) not in (0, None):
                    exp = (0, 0, None)
                else:
                    exp = ("is", a[rule[2]], 0)
            elif rule[0] == "param-list":
                exp = ("any", None, 0)
            elif rule[0] == "readcd":
                pl = to_poly(li)
                n = a[rule[1]]
                ok = False
                if pl is not None and isinstance(n, Sym):
                    mono = ((n.origin[1],),)
                    if set(pl.keys()) == {(n.origin[1],)} and pl[(n.origin[1],)] >= rule[2]:
                        ok = True
                if ok and lo == 0:
                    run.ok("buffer-matches-transfer", cname, {"datain": show(li), "case": case})
                else:
                    run.violation("buffer-matches-transfer", cname,
                                  "READ CD data-in buffer is %s bytes (need transfer length x K, K >= %d), data-out %s"
                                  % (show(li), rule[2], show(lo)), file, line, key)
                continue
            elif rule[0] == "ata":
                exp = ata_expected(a, con, I)
                if exp is None:
                    continue
            if exp[0] == "is":
                good = dout is exp[1] and same_len(li, exp[2])
                want = "dataout is the caller's buffer, datain empty"
            elif exp[0] == "any":
                good = same_len(li, 0)
                want = "datain empty"
            elif exp[0] == "in-is":
                good = din is exp[1] and same_len(lo, 0)
                want = "datain is the caller's buffer, dataout empty"
            else:
                good = same_len(lo, exp[0]) and same_len(li, exp[1])
                want = "dataout %s bytes, datain %s bytes" % (show(exp[0]), show(exp[1]))
            if good:
                run.ok("buffer-matches-transfer", cname, {"dataout": show(lo), "datain": show(li), "case": case})
            else:
                run.violation("buffer-matches-transfer", cname,
                              "buffers are dataout=%s (%s bytes) datain=%s (%s bytes); the CDB announces: %s (case %s)"
                              % (dout, show(lo), din, show(li), want, case), file, line, key)
    run.count("constructions", ncons)
    run.floor("constructions", ncons, 110)
    check_transports(prog, run)


def ata_expected(a, con, I):
    tlen = a["t_length"]
    bb, tt, td = a["byte_block"], a["t_type"], a["t_dir"]
    bs = a["blocksize"]
    if tlen == 0:
        n = 0
    elif tlen == 1:
        n = a["fetures"]
    elif tlen == 2:
        n = a["count"]
    else:
        n = a["extra_tl"] if a["extra_tl"] is not None else 0
    if tlen == 0:
        unit = 0
    elif not bb:
        unit = 1
    elif not tt:
        unit = 512
    else:
        unit = bs
    size = sym_binop("*", n, unit)
    data = a["data"]
    if data is not None:
        # the path decides whether the caller's buffer is non-empty
        taken = None
        for d, c, _, _ in con.path.path:
            if d.strip() == "data":
                taken = c
        if taken:
            return ("is", data, 0) if td == 0 else ("in-is", data, 0)
    return (size, 0, None) if td == 0 else (0, size, None)


# ---------------------------------------------------------------------------
def marker_cmd(prog, out_len, in_len):
    """a command object as its own constructor leaves it, carrying marker buffers (stored through its own setters)"""
    sc = prog.cls(CMD_MOD, "SCSICommand")
    op = prog.module("pyscsi.pyscsi.scsi_enum_command").env["spc"].members["TEST_UNIT_READY"]
    try:
        cmd = prog.I.instantiate(sc, [op, 0, 0], {}, None, _F("scenario command"))
    except PyRaise as e:
        raise AnalysisError("anchor-missing", "SCSICommand(opcode, 0, 0) cannot be constructed: %s" % e.describe())
    cdb = Buf(cells=[0] * 6)
    dout = Buf(cells=[0] * out_len) if isinstance(out_len, int) else Buf(cells=None, length=out_len)
    din = Buf(cells=[0] * in_len) if isinstance(in_len, int) else Buf(cells=None, length=in_len)
    # (stored through the class's own setters: where the class keeps them is its business)
    for n, v in (("cdb", cdb), ("dataout", dout), ("datain", din), ("sense", None), ("raw_sense_data", None)):
        set_pub(prog.I, cmd, n, v)
    return cmd, cdb, dout, din


_counter = [0]


def _next_id():
    _counter[0] += 1
    return _counter[0]


# ---------------------------------------------------------------------------
# device / facade objects for the transport scenarios.  Where a class keeps its handle, its flags, the recorded node
# identity ... is private to it: the attribute names (and the shape of the recorded identity) are *discovered* by abstractly
# running the class's own constructor / setters once over the stand-in bindings, and the scenario objects are built with
# that layout.  A class that keeps no such state at all is an analysis error (anchor-missing), never a silent pass.
def _not_while_exploring(prog):
    if prog.I.exploring:
        raise AnalysisError("internal-error", "object layouts must be discovered (prime_layouts) before a scenario is explored")


def prime_layouts(prog):
    scsi_layout(prog)
    iscsi_layout(prog)
    facade_layout(prog)


def _contains_stat(v):
    if isinstance(v, External):
        return v.name.startswith("stat#")
    if isinstance(v, (tuple, list)):
        return any(_contains_stat(x) for x in v)
    if isinstance(v, Unknown):
        return any(_contains_stat(x) for x in v.deps)
    return False


class _Owner:
    def __repr__(self):
        return "<the owning device>"


OWNER = _Owner()
_ROOT = {}


def _root_id(seen):
    return _ROOT.get(id(seen))


def _flat(attrs, nested, prefix="", depth=0, _seen=None):
    """the object's attributes, those of helper objects it is composed of included under dotted names (a helper that points
    back at its owner is not followed round the circle)"""
    out = {}
    _seen = _seen if _seen is not None else set()
    _seen.add(id(attrs))
    for k, v in attrs.items():
        if isinstance(v, Instance) and id(v.attrs) in _seen:
            if depth > 0 and id(v.attrs) == min(_seen, key=lambda i: 0 if i == _root_id(_seen) else 1):
                out[prefix + k] = OWNER            # a helper's reference back to the object it belongs to
            continue
        if isinstance(v, Instance) and isinstance(v.cls, ClassVal) and v.cls.module is not None and not v.cls.builtin and depth < 2 \
                and not any(c.builtin and c.name != "object" for c in v.cls.mro()):
            nested[prefix + k] = v.cls
            out.update(_flat(v.attrs, nested, prefix + k + ".", depth + 1, _seen))
        else:
            out[prefix + k] = v
    return out


def _get_path(obj, name):
    for part in name.split("."):
        if not isinstance(obj, Instance):
            return None
        obj = obj.attrs.get(part)
    return obj


def _put_path(obj, name, value, nested):
    parts = name.split(".")
    for i, part in enumerate(parts[:-1]):
        nxt = obj.attrs.get(part)
        if not isinstance(nxt, Instance):
            nxt = Instance(nested[".".join(parts[:i + 1])])
            obj.attrs[part] = nxt
        obj = nxt
    obj.attrs[parts[-1]] = value


def _one_attr(attrs, pred, what, cls):
    names = [k for k, v in attrs.items() if pred(v)]
    if len(names) != 1:
        raise AnalysisError("anchor-missing", "%s: cannot tell where the object keeps %s (candidates %s)" % (cls, what, names))
    return names[0]


def _setter_slot(prog, cls, prop):
    """the attribute the public property ``prop`` stores into"""
    I = prog.I
    mark = External("layout-probe-" + prop)
    got = {}

    def t():
        o = Instance(cls)
        I.set_attr(o, prop, mark, None, _F("layout probe"))
        got.update(o.attrs)
        return o
    ps = [p for p in I.explore(t, max_paths=64) if p.returned]
    ps = [p for p in ps if any(v is mark for v in p.value.attrs.values())] or ps        # (a setter may store conditionally)
    if not ps:
        raise AnalysisError("anchor-missing", "%s.%s cannot be assigned" % (cls.name, prop))
    return _one_attr(ps[0].value.attrs, lambda v: v is mark, "the value assigned to .%s" % prop, cls.name)


def scsi_layout(prog):
    L = getattr(prog, "_scsi_layout", None)
    if L is not None:
        return L
    _not_while_exploring(prog)
    from ..standin import StandIn
    I = prog.I
    cls = prog.cls("pyscsi.pyscsi.scsi_device", "SCSIDevice")
    runs = []
    nested = {}
    path = "/dev/sg0"
    for rw, det, buf in ((True, False, 7), (False, True, 9)):
        si = StandIn(prog).install()
        try:
            ps = [p for p in I.explore(lambda: I.instantiate(cls, [path], {"readwrite": rw, "detect_replugged": det, "buffering": buf},
                                                             None, _F("layout probe")), max_paths=8) if p.returned]
        finally:
            si.remove()
        if not ps or not isinstance(ps[0].value, Instance):
            raise AnalysisError("anchor-missing", "SCSIDevice(device, readwrite, detect_replugged, buffering) cannot be constructed over the stand-in")
        seen_ = {id(ps[0].value.attrs)}
        _ROOT[id(seen_)] = id(ps[0].value.attrs)
        runs.append(_flat(dict(ps[0].value.attrs), nested, _seen=seen_))
    A, B = runs
    L = {"file_name": _one_attr(B, lambda v: v is path or v == path, "the device path", "SCSIDevice"),
         "handle": _one_attr(B, lambda v: isinstance(v, External) and v.name.startswith("file-handle"), "the open handle", "SCSIDevice"),
         # (a class that records nothing about the node it opened has no such slot: C15 reports that, the other checks
         # do not need it)
         "ident": ([k for k, v in B.items() if _contains_stat(v)] + [None])[0],
         "opcodes": _one_attr(B, lambda v: isinstance(v, EnumVal), "the command-set table", "SCSIDevice")}
    for role, a, b in (("read_write", True, False), ("detect", False, True), ("buffering", 7, 9)):
        names = [k for k in B if k in A and A[k] is a and B[k] is b] if role != "buffering" else [k for k in B if A.get(k) == a and B[k] == b and not isinstance(B[k], bool)]
        if len(names) > 1:
            raise AnalysisError("anchor-missing", "SCSIDevice: cannot tell where the %s argument is kept (candidates %s)" % (role, names))
        # (an object that keeps something derived from the argument -- the mode string for readwrite, say -- has no such
        # slot: what it keeps instead is among the "others", as the probe construction left it)
        L[role] = names[0] if names else None
    L["ident_shape"] = B.get(L["ident"])
    if len([k for k, v in B.items() if _contains_stat(v)]) > 1:
        raise AnalysisError("anchor-missing", "SCSIDevice keeps the identity of the node it opened in more than one place")
    L["devicetype"] = _setter_slot(prog, cls, "devicetype")
    L["others"] = {k: v for k, v in B.items() if k not in [x for x in L.values() if isinstance(x, str)]}
    L["_nested"] = nested
    prog._scsi_layout = L
    return L


def iscsi_layout(prog):
    L = getattr(prog, "_iscsi_layout", None)
    if L is not None:
        return L
    _not_while_exploring(prog)
    from ..standin import StandIn
    I = prog.I
    cls = prog.cls("pyscsi.pyiscsi.iscsi_device", "ISCSIDevice")
    url, ini = "iscsi://host/iqn.2000-01.t:x/0", "iqn.2000-01.initiator"
    si = StandIn(prog).install()
    try:
        ps = [p for p in I.explore(lambda: I.instantiate(cls, [url], {"initiator_name": ini}, None, _F("layout probe")), max_paths=8) if p.returned]
    finally:
        si.remove()
    if not ps or not isinstance(ps[0].value, Instance):
        raise AnalysisError("anchor-missing", "ISCSIDevice(device, initiator_name) cannot be constructed over the stand-in")
    B = dict(ps[0].value.attrs)
    L = {"file_name": _one_attr(B, lambda v: v is url or v == url, "the URL", "ISCSIDevice"),
         "ctx": _one_attr(B, lambda v: isinstance(v, External) and v.name == "iscsi.Context()", "the iSCSI context", "ISCSIDevice"),
         "url": _one_attr(B, lambda v: isinstance(v, External) and v.name == "iscsi.URL()", "the parsed URL", "ISCSIDevice"),
         "initiator_name": _one_attr(B, lambda v: v is ini or v == ini, "the initiator name", "ISCSIDevice"),
         "opcodes": _one_attr(B, lambda v: isinstance(v, EnumVal), "the command-set table", "ISCSIDevice")}
    L["devicetype"] = _setter_slot(prog, cls, "devicetype")
    L["others"] = {k: v for k, v in B.items() if k not in L.values()}
    prog._iscsi_layout = L
    return L


def facade_layout(prog):
    L = getattr(prog, "_facade_layout", None)
    if L is None:
        _not_while_exploring(prog)
        L = prog._facade_layout = {"blocksize": _setter_slot(prog, prog.cls("pyscsi.pyscsi.scsi", "SCSI"), "blocksize")}
    return L


def _layout_of(prog, obj):
    n = obj.cls.name if isinstance(obj, Instance) else None
    for c in (obj.cls.mro() if isinstance(obj, Instance) else ()):
        if c.name == "SCSIDevice":
            return scsi_layout(prog)
        if c.name == "ISCSIDevice":
            return iscsi_layout(prog)
        if c.name == "SCSI":
            return facade_layout(prog)
    raise AnalysisError("internal-error", "no layout for %r" % (n,))


def slot(prog, obj, role):
    """what the object keeps in the given role (handle, ident, opcodes, file_name, detect ...)"""
    name = _layout_of(prog, obj)[role]
    return _get_path(obj, name) if name is not None else None


def put(prog, obj, role, value):
    L = _layout_of(prog, obj)
    name = L[role]
    if name is not None:
        _put_path(obj, name, value, L.get("_nested", {}))


def _recorded(shape):
    """the recorded node identity: the shape the class itself records, every leaf a marker of an earlier stat"""
    if isinstance(shape, External):
        field = shape.name.split(".")[-1] if "." in shape.name else "value"
        r = External("recorded-ino" if field == "st_ino" else "recorded-" + field)
        r.stat_field = field
        return r
    if isinstance(shape, tuple):
        return tuple(_recorded(x) for x in shape)
    if isinstance(shape, list):
        return [_recorded(x) for x in shape]
    return Unknown("node identity recorded at open() (computed from the stat result)")


def ident_leaves(v):
    if isinstance(v, External):
        return [v]
    if isinstance(v, Unknown):
        return [l for x in v.deps for l in ident_leaves(x)]
    if isinstance(v, (tuple, list)):
        return [l for x in v for l in ident_leaves(x)]
    return []


def make_scsi_device(prog):
    L = scsi_layout(prog)
    cls = prog.cls("pyscsi.pyscsi.scsi_device", "SCSIDevice")
    dev = Instance(cls)
    parts = dict(L["others"])
    parts.update({L["file_name"]: SymStr("devname"), L["read_write"]: False, L["handle"]: External("file-handle@%d" % _next_id()),
                  L["detect"]: False, L["buffering"]: -1,
                  L["opcodes"]: L["others"].get(L["opcodes"], prog.module("pyscsi.pyscsi.scsi_enum_command").env["spc"]),
                  # whatever an earlier attach stored on the device (any peripheral device type)
                  L["devicetype"]: Sym.param("devicetype", 5)})
    if L["ident"] is not None:
        parts[L["ident"]] = _recorded(L["ident_shape"])
    for k, v in parts.items():
        if k is None:
            continue
        _put_path(dev, k, dev if v is OWNER else v, L["_nested"])        # (helper objects the device is composed of are built afresh per device)
    return dev


def make_iscsi_device(prog):
    L = iscsi_layout(prog)
    cls = prog.cls("pyscsi.pyiscsi.iscsi_device", "ISCSIDevice")
    dev = Instance(cls)
    dev.attrs.update(L["others"])
    dev.attrs.update({L["file_name"]: SymStr("url"), L["ctx"]: External("ctx"), L["url"]: External("url"),
                      L["initiator_name"]: SymStr("iname"), L["devicetype"]: Sym.param("devicetype", 5),
                      L["opcodes"]: prog.module("pyscsi.pyscsi.scsi_enum_command").env["spc"]})
    return dev


def check_transports(prog, run):
    I = prog.I
    # --- SG_IO
    ex = prog.func("pyscsi.pyscsi.scsi_device", "SCSIDevice", "execute")
    file = prog.rel(ex.module)
    holder = {}

    def t():
        dev = make_scsi_device(prog)
        cmd, cdb, dout, din = marker_cmd(prog, Sym.opaque("outlen"), Sym.opaque("inlen"))
        holder["m"] = (cdb, dout, din, dev)
        return I.call_function(ex, [dev, cmd], {}, None, _F())
    paths = I.explore(t, max_paths=32)
    found = 0
    for p in paths:
        cdb, dout, din, dev = holder["m"] if False else (None, None, None, None)
    # re-run collecting markers per path (holder is overwritten per path, so evaluate inside)
    results = []

    def t2():
        dev = make_scsi_device(prog)
        cmd, cdb, dout, din = marker_cmd(prog, Sym.opaque("outlen"), Sym.opaque("inlen"))
        raw = I.decide("the caller asks for raw sense (en_raw_sense=True)", None, _F())
        try:
            I.call_function(ex, [dev, cmd], {"en_raw_sense": True} if raw else {}, None, _F())
        except PyRaise:
            pass
        calls = [e for e in I.events if e["kind"] == "external-call" and e["name"] == "sgio.execute"]
        results.append((calls, cdb, dout, din, dev))
        after.append((list(cdb.cells) if cdb.cells is not None else None, pub_attr(I, cmd, "cdb") is cdb, pub_attr(I, cmd, "dataout") is dout,
                      pub_attr(I, cmd, "datain") is din))
        return None
    after = []
    I.explore(t2, max_paths=64)
    # executing a command leaves the command's own CDB as it was built (6 bytes here) and its buffers the same objects
    if all(a[0] == [0] * 6 and a[1] and a[2] and a[3] for a in after) and after:
        run.ok("transport-leaves-command-intact", "SCSIDevice.execute")
    else:
        run.violation("transport-leaves-command-intact", "SCSIDevice.execute",
                      "after execute() the command's CDB / buffers are no longer what was built (a 6-byte CDB became %r)"
                      % ([a[0] for a in after if a[0] != [0] * 6][:1],), file, ex.node.lineno, ex.qualname)
    n_calls = 0
    for calls, cdb, dout, din, dev in results:
        for c in calls:
            n_calls += 1
            a = c["args"]
            good = len(a) == 4 and a[0] is slot(prog, dev, "handle") and a[1] is cdb and a[2] is dout and a[3] is din and not c["kwargs"]
            if good:
                run.ok("transport-passes-buffers", "SCSIDevice.execute sgio.execute", {"args": "file, cmd.cdb, cmd.dataout, cmd.datain"})
            else:
                run.violation("transport-passes-buffers", "SCSIDevice.execute sgio.execute",
                              "sgio.execute is not called with (self._file, cmd.cdb, cmd.dataout, cmd.datain): %r %r" % (a, c["kwargs"]),
                              file, c["node"].lineno if c.get("node") is not None else ex.node.lineno, ex.qualname)
    if n_calls == 0:
        run.violation("transport-passes-buffers", "SCSIDevice.execute sgio.execute", "execute() never reaches sgio.execute", file,
                      ex.node.lineno, ex.qualname)
    # --- iSCSI
    ex2 = prog.func("pyscsi.pyiscsi.iscsi_device", "ISCSIDevice", "execute")
    file2 = prog.rel(ex2.module)
    nz_out, nz_in = Sym.opaque("outlen", nonzero=True), Sym.opaque("inlen", nonzero=True)
    cases = [("none", 0, 0, "iscsi.SCSI_XFER_NONE", 0), ("in", 0, nz_in, "iscsi.SCSI_XFER_READ", nz_in),
             ("out", nz_out, 0, "iscsi.SCSI_XFER_WRITE", nz_out), ("both", nz_out, nz_in, "iscsi.SCSI_XFER_WRITE", nz_out)]
    after2 = []
    for label, ol, il, want_dir, want_len in cases:
        res2 = []

        def t3(ol=ol, il=il, label=label):
            dev = make_iscsi_device(prog)
            cmd, cdb, dout, din = marker_cmd(prog, ol, il)
            raw = I.decide("the caller asks for raw sense (en_raw_sense=True)", None, _F())
            try:
                I.call_function(ex2, [dev, cmd], {"en_raw_sense": True} if raw else {}, None, _F())
            except PyRaise:
                pass
            res2.append(([e for e in I.events if e["kind"] == "external-call"], cdb, dout, din))
            after2.append((label, list(cdb.cells) if cdb.cells is not None else None, pub_attr(I, cmd, "cdb") is cdb,
                           pub_attr(I, cmd, "dataout") is dout, pub_attr(I, cmd, "datain") is din))
            return None
        I.explore(t3, max_paths=128)
        if not res2:
            raise AnalysisError("no-paths", "ISCSIDevice.execute")
        calls, cdb, dout, din = res2[0]
        task = [c for c in calls if c["name"] == "iscsi.Task"]
        cmdc = [c for c in calls if c["name"].endswith(".command")]
        cname = "ISCSIDevice.execute %s-data" % label
        if len(task) != 1 or len(cmdc) != 1:
            run.violation("transport-passes-buffers", cname, "expected one iscsi.Task(...) and one Context.command(...): %d / %d"
                          % (len(task), len(cmdc)), file2, ex2.node.lineno, ex2.qualname)
            continue
        ta, ca = task[0]["args"], cmdc[0]["args"]
        good = (len(ta) == 3 and ta[0] is cdb and isinstance(ta[1], External) and ta[1].name == want_dir and same_len(ta[2], want_len)
                and len(ca) == 4 and isinstance(ca[1], External) and ca[1].name == "iscsi.Task()" and ca[2] is dout and ca[3] is din)
        if good:
            run.ok("transport-passes-buffers", cname, {"dir": want_dir, "xferlen": show(want_len)})
        else:
            run.violation("transport-passes-buffers", cname,
                          "iscsi.Task%r / command%r; expected Task(cmd.cdb, %s, %s) and command(lun, task, cmd.dataout, cmd.datain)"
                          % (tuple(ta), tuple(ca), want_dir, show(want_len)), file2, task[0]["node"].lineno, ex2.qualname)
    bad2 = [a for a in after2 if not (a[1] == [0] * 6 and a[2] and a[3] and a[4])]
    if after2 and not bad2:
        run.ok("transport-leaves-command-intact", "ISCSIDevice.execute")
    else:
        run.violation("transport-leaves-command-intact", "ISCSIDevice.execute",
                      "after execute() the command's CDB / buffers are no longer what was built: in the %s-data case a 6-byte CDB became %r"
                      % (bad2[0][0] if bad2 else "?", bad2[0][1] if bad2 else None), file2, ex2.node.lineno, ex2.qualname)
    run.count("transports", 2)
