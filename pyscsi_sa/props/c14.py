"""C14 -- operation codes, service actions, status codes are the T10
assignments; init_cdb partitions the 256 opcode values like SAM's groups."""
from __future__ import annotations

from ..astutil import dict_key_lines
from ..rt import *
from ..values import *
from spec import opcodes as ref
from ..cmdeval import pub_attr

ENUM_MOD = "pyscsi.pyscsi.scsi_enum_command"
SETS = ["spc", "sbc", "ssc", "smc", "mmc"]


def opcode_value(prog, op):
    I = prog.I
    if isinstance(op, Instance):
        try:
            return norm_int(I.get_attr(op, "value", None, _F()))
        except PyRaise:
            return None
    return op


class _F:
    def where(self, node=None):
        return "c14"


def check(prog, run):
    from .c03 import prime_layouts
    prime_layouts(prog)
    run.explanation = ("static comparison of every literal opcode / service-action / status constant in "
                       "scsi_enum_command.py with an independent T10 transcription (spec/opcodes.py), and an "
                       "exhaustive partition of SCSICommand.init_cdb over all 256 opcode values by constant "
                       "propagation through its comparison chain")
    run.rule_text = ("one obligation per (table, name) constant, per (opcode, service action) constant, per status "
                     "code and per opcode value 0..255; each compares a constant read from the source with an "
                     "independently written reference, so each is non-trivial")
    run.trusted += ["spec/opcodes.py (hand transcription of T10 op-num and SAM status codes)",
                    "python integer comparison semantics"]
    run.assumptions += ["T10 values as transcribed in spec/opcodes.py"]
    run.exhaustive = True
    mod = prog.module(ENUM_MOD)
    file = prog.rel(mod)
    byname = {}
    n_entries = 0
    n_sa = 0
    for s in SETS:
        e = mod.env.get(s)
        if not isinstance(e, EnumVal):
            raise AnalysisError("anchor-missing", "%s:%s is not an Enum(...)" % (ENUM_MOD, s))
        lines = dict_key_lines(mod.tree, s + "_opcodes")
        for name, op in e.members.items():
            n_entries += 1
            construct = "%s.%s" % (s, name)
            val = opcode_value(prog, op)
            line = lines.get(name)
            if not isinstance(val, int) or isinstance(val, bool):
                run.violation("opcode-is-int", construct, "operation code is not a static int: %r" % (val,), file, line)
                continue
            if not 0 <= val <= 0xFF:
                run.violation("opcode-range", construct, "operation code %#x outside 0..255" % val, file, line)
                continue
            byname.setdefault(name, []).append((s, val, line))
            # the OpCode object carries a name of its own (cmd.opcode.name): it is exposed too
            if isinstance(op, Instance):
                try:
                    own = prog.I.get_attr(op, "name", None, _F())
                except PyRaise:
                    own = None
                if isinstance(own, str) and own != name and own in ref.OPCODES and ref.OPCODES[own] != val:
                    run.violation("opcode-object-name", construct,
                                  "%s.%s is an OpCode object that calls itself %r and has the value %#04x; T10 assigns %#04x to %s"
                                  % (s, name, own, val, ref.OPCODES[own], own), file, line)
                elif isinstance(own, str):
                    run.ok("opcode-object-name", construct, nontrivial=own != name)
            if name in ref.OPCODES:
                if val == ref.OPCODES[name]:
                    run.ok("opcode-value", construct, {"lib": val, "ref": ref.OPCODES[name], "at": "%s:%s" % (file, line)})
                else:
                    run.violation("opcode-value", construct,
                                  "library %#04x, T10 assigns %#04x to %s" % (val, ref.OPCODES[name], name),
                                  file, line, facts={"lib": val, "ref": ref.OPCODES[name]})
            else:
                run.unconstrained.append(construct)
            # service actions of this opcode
            sa = None
            if isinstance(op, Instance):
                try:
                    sa = prog.I.get_attr(op, "serviceaction", None, _F())
                except PyRaise:
                    sa = None
            if isinstance(sa, EnumVal):
                for sname, sval in sa.members.items():
                    n_sa += 1
                    c2 = "%s.%s.serviceaction.%s" % (s, name, sname)
                    if sname in ref.SERVICE_ACTIONS:
                        if sval == ref.SERVICE_ACTIONS[sname]:
                            run.ok("service-action-value", c2, {"lib": sval, "ref": ref.SERVICE_ACTIONS[sname]})
                        else:
                            run.violation("service-action-value", c2,
                                          "library %#x, T10 assigns %#x" % (sval, ref.SERVICE_ACTIONS[sname]), file, line)
                    else:
                        run.unconstrained.append(c2)
    # one value per name
    for name, occ in sorted(byname.items()):
        vals = set(v for _, v, _ in occ)
        if len(occ) > 1:
            if len(vals) == 1:
                run.ok("opcode-same-in-all-sets", name, {"sets": [s for s, _, _ in occ], "value": occ[0][1]})
            else:
                run.violation("opcode-same-in-all-sets", name,
                              "%s has different values: %s" % (name, ", ".join("%s=%#04x" % (s, v) for s, v, _ in occ)),
                              file, occ[0][2])
    # raw service-action dictionaries (also reachable through the tables)
    for var in ("service_actions", "sa_maintenance_in", "sa_maintenance_out", "sa_persistent_reserve_in",
                "sa_persistent_reserve_out", "service_action_ins"):
        d = mod.env.get(var)
        if not isinstance(d, dict):
            raise AnalysisError("anchor-missing", "%s:%s" % (ENUM_MOD, var))
        lines = dict_key_lines(mod.tree, var)
        for sname, sval in d.items():
            n_sa += 1
            c2 = "%s.%s" % (var, sname)
            if sname in ref.SERVICE_ACTIONS:
                if sval == ref.SERVICE_ACTIONS[sname]:
                    run.ok("service-action-value", c2)
                else:
                    run.violation("service-action-value", c2, "library %#x, T10 assigns %#x" % (sval, ref.SERVICE_ACTIONS[sname]),
                                  file, lines.get(sname))
            else:
                run.unconstrained.append(c2)
    # the values above are those the tables *contain*; what a caller gets is what attribute access *resolves*: for every
    # T10 name and every command set, `set.NAME` either is refused (the set does not list the name) or carries T10's value
    I = prog.I
    nres = 0
    for s_ in SETS:
        e = mod.env[s_]
        for name, want in sorted(ref.OPCODES.items()):
            nres += 1

            def tg(e=e, name=name):
                return opcode_value(prog, I.get_attr(e, name, None, _F()))
            ps = I.explore(tg, max_paths=8)
            for p in ps:
                if not p.returned:
                    ec = p.raised.exc_class()
                    if ec is not None and ec.name == "AttributeError":
                        continue
                    run.violation("name-resolves-to-t10-value", "%s.%s" % (s_, name), "looking the name up raises %s" % p.raised.describe(), file, None)
                elif p.value != want:
                    run.violation("name-resolves-to-t10-value", "%s.%s" % (s_, name),
                                  "%s.%s resolves to %r although the table does not list that name with it; T10 assigns %#04x"
                                  % (s_, name, p.value, want), file, None)
                elif name not in e.members:
                    run.violation("name-resolves-to-t10-value", "%s.%s" % (s_, name),
                                  "%s.%s resolves (to %#04x) although the table does not list it" % (s_, name, p.value), file, None) if False else None
    run.ok("name-resolves-to-t10-value", "%d (set, name) lookups" % nres, {"lookups": nres})
    # legacy OPCODE enum
    legacy = mod.env.get("opcodes")
    if isinstance(legacy, dict):
        lines = dict_key_lines(mod.tree, "opcodes")
        for name, val in legacy.items():
            n_entries += 1
            refname = {"SERVICE_ACTION_IN": "SBC_OPCODE_9E"}.get(name, name)
            if refname in ref.OPCODES:
                if val == ref.OPCODES[refname]:
                    run.ok("opcode-value", "OPCODE.%s" % name)
                else:
                    run.violation("opcode-value", "OPCODE.%s" % name,
                                  "library %#04x, T10 %#04x" % (val, ref.OPCODES[refname]), file, lines.get(name))
    # status codes
    st = mod.env.get("SCSI_STATUS")
    if not isinstance(st, EnumVal):
        raise AnalysisError("anchor-missing", "%s:SCSI_STATUS" % ENUM_MOD)
    lines = dict_key_lines(mod.tree, "scsi_status")
    n_status = 0
    for name, val in ref.STATUS.items():
        n_status += 1
        if name not in st.members:
            run.violation("status-present", "SCSI_STATUS.%s" % name, "status code %s missing" % name, file, None)
        elif st.members[name] != val:
            run.violation("status-value", "SCSI_STATUS.%s" % name, "library %#x, SAM assigns %#x" % (st.members[name], val),
                          file, lines.get(name))
        else:
            run.ok("status-value", "SCSI_STATUS.%s" % name, {"lib": val})
    for name, val in st.members.items():
        if name not in ref.STATUS and name not in ref.LIBRARY_PRIVATE_STATUS:
            run.violation("status-unknown-name", "SCSI_STATUS.%s" % name, "not a SAM status name", file, lines.get(name))
        if name in ref.LIBRARY_PRIVATE_STATUS and val in ref.STATUS.values():
            run.violation("status-private-collides", "SCSI_STATUS.%s" % name, "library-private status collides with a SAM code",
                          file, lines.get(name))
    # init_cdb partition over all 256 opcode values
    check_init_cdb(prog, run)
    # the values above are those at import time: the one place the library itself touches the tables afterwards is the
    # facade's attach; it may select a table, never write one
    from .c16 import table_mutations_on_attach
    from ..facade_eval import SCSI_MOD
    npaths, muts = table_mutations_on_attach(prog)
    initf = prog.func(SCSI_MOD, "SCSI", "__init__")
    if not muts:
        run.ok("tables-keep-their-values", "SCSI attach, 32 device types", {"paths": npaths, "writes": 0})
    for dt, e, snap in muts:
        what = e.get("origin") or ("%s.%s" % (e.get("cls") or e.get("module"), e.get("name")))
        bad = []
        seen = {}
        for sname, tab in snap.items():
            for k, v in tab.items():
                if k in ref.OPCODES and v != ref.OPCODES[k]:
                    bad.append("%s.%s = %r, T10 assigns %#04x" % (sname, k, v, ref.OPCODES[k]))
                if k in seen and seen[k][1] != v:
                    bad.append("%s.%s = %r but %s.%s = %r" % (sname, k, v, seen[k][0], k, seen[k][1]))
                seen.setdefault(k, (sname, v))
        if set(snap) != set(SETS):
            bad.append("tables %s are gone" % sorted(set(SETS) - set(snap)))
        if bad:
            run.violation("tables-keep-their-values", "attach writes %s" % what,
                          "attaching a facade to a device of type %#04x writes %s (%s); afterwards %s -- in this and every other facade "
                          "of the process" % (dt, what, e.get("where"), "; ".join(bad[:4])),
                          prog.rel(prog.cls(SCSI_MOD, "SCSI").module), initf.node.lineno, initf.qualname)
        else:
            run.ok("tables-keep-their-values", "attach to type %#04x writes %s" % (dt, what), {"after": "all values still as T10 assigns"})
    run.require(npaths >= 32, "anchor-missing", "SCSI attach paths")
    run.count("modules", len(prog.modules))
    run.count("tables", len(SETS))
    run.count("entries", n_entries)
    run.count("service_actions", n_sa)
    run.count("status", n_status)
    run.count("opcode_values", 256)
    run.floor("opcode entries", n_entries, 249)
    run.floor("service-action constants", n_sa, 61)
    run.floor("status codes", n_status, 8)


def check_init_cdb(prog, run):
    I = prog.I
    cmdmod = "pyscsi.pyscsi.scsi_command"
    sc = prog.cls(cmdmod, "SCSICommand")
    f = prog.func(cmdmod, "SCSICommand", "init_cdb")
    opcls = prog.cls("pyscsi.pyscsi.scsi_opcode", "OpCode")
    file = prog.rel(f.module)
    exc_name = "OpcodeException"
    bad = []
    # (0..255 are the operation codes; the values around them are not codes at all and have no CDB length either)
    for v in list(range(256)) + list(range(256, 288)) + [0x1FF, 0x3A0, 0x7FF] + list(range(-256, 0)):
        def thunk(v=v):
            op = I.instantiate(opcls, ["X", v, {}], {}, None, _F())
            return I.call_function(f, [op], {}, None, _F())
        res = I.explore(thunk, max_paths=4)
        if len(res) != 1:
            raise AnalysisError("init-cdb-forked", "init_cdb(%#x) has %d paths" % (v, len(res)))
        p = res[0]
        want = ref.cdb_length(v) if 0 <= v <= 0xFF else None
        if p.returned:
            got = p.value.length if isinstance(p.value, Buf) else None
            desc = got
        else:
            c = p.raised.exc_class()
            got = "raise:" + (c.name if c else "?")
            desc = got
        construct = "init_cdb(%s)" % (("%#04x" % v) if v >= 0 else v)
        if want is None:
            if got == "raise:" + exc_name:
                run.ok("cdb-length-group", construct, {"opcode": v, "outcome": desc}, nontrivial=True)
            else:
                bad.append((v, desc, "refused with OpcodeException"))
        else:
            if got == want:
                run.ok("cdb-length-group", construct, {"opcode": v, "length": got}, nontrivial=True)
            else:
                bad.append((v, desc, "%d-byte CDB" % want))
    # the same partition must hold when commands are *built* in sequence: a command with opcode v built right after a
    # command of the same class with a valid opcode, and a second attempt after a refusal
    tur = prog.cls("pyscsi.pyscsi.scsi_cdb_testunitready", "TestUnitReady")
    inq = prog.cls("pyscsi.pyscsi.scsi_cdb_inquiry", "Inquiry")
    seqbad = []
    for v in range(256):
        def thunk2(v=v):
            ok_op = I.instantiate(opcls, ["TEST_UNIT_READY", 0x00, {}], {}, None, _F())
            I.instantiate(tur, [ok_op], {}, None, _F())
            # an operation code object of the same *name* and a value of another group used first: the length belongs to the
            # value (v ^ 0x80: group 0 <-> 4, 1 <-> 5, 2 <-> 6, 3 <-> 7), not to the name or to what was asked before
            try:
                I.instantiate(tur, [I.instantiate(opcls, ["X", v ^ 0x80, {}], {}, None, _F())], {}, None, _F())
            except PyRaise:
                pass
            op = I.instantiate(opcls, ["X", v, {}], {}, None, _F())
            outs = []
            for attempt in range(2):
                try:
                    c = I.instantiate(tur, [op], {}, None, _F())
                    cdb = pub_attr(I, c, "cdb")
                    outs.append(len(cdb.cells) if isinstance(cdb, Buf) and cdb.cells is not None else "?")
                except PyRaise as e:
                    ec = e.exc_class()
                    outs.append("raise:" + (ec.name if ec else "?"))
            # and after a command of another class
            I.instantiate(inq, [I.instantiate(opcls, ["INQUIRY", 0x12, {}], {}, None, _F())], {}, None, _F())
            for attempt in range(2):
                try:
                    c = I.instantiate(tur, [op], {}, None, _F())
                    cdb = pub_attr(I, c, "cdb")
                    outs.append(len(cdb.cells) if isinstance(cdb, Buf) and cdb.cells is not None else "?")
                except PyRaise as e:
                    ec = e.exc_class()
                    outs.append("raise:" + (ec.name if ec else "?"))
            return outs
        res = I.explore(thunk2, max_paths=4)
        want = ref.cdb_length(v)
        wanted = want if want is not None else "raise:" + exc_name
        outs = res[0].value if res and res[0].returned else ["?"]
        if all(o == wanted for o in outs) and len(res) == 1:
            run.ok("cdb-length-group-in-sequence", "command with opcode %#04x built after other commands" % v, nontrivial=True)
        else:
            seqbad.append((v, outs, wanted))
    if seqbad:
        v, outs, wanted = seqbad[0]
        run.violation("cdb-length-group-in-sequence", "commands built in sequence",
                      "%d opcode values: e.g. a command with opcode %#04x built after other commands (twice, then twice more after an INQUIRY) "
                      "gives %s; SAM requires %s every time" % (len(seqbad), v, outs, wanted), file, f.node.lineno, f.qualname,
                      facts={"first": [(hex(a), b, c) for a, b, c in seqbad[:6]]})
    # report contiguous ranges as one violation each, keyed by the range
    i = 0
    while i < len(bad):
        j = i
        while j + 1 < len(bad) and bad[j + 1][0] == bad[j][0] + 1 and bad[j + 1][1:] == bad[i][1:]:
            j += 1
        lo, hi = bad[i][0], bad[j][0]
        run.violation("cdb-length-group", "init_cdb opcodes %#04x..%#04x" % (lo, hi),
                      "init_cdb gives %s, SAM group requires %s" % (bad[i][1], bad[i][2]),
                      file, f.node.lineno, f.qualname)
        i = j + 1
