"""C02 -- CDB decoding is the exact inverse of CDB encoding."""
from __future__ import annotations

from ..cmdeval import *
from ..cmdeval import _F
from ..codec import *
from ..model import is_table
from ..rt import *
from ..values import *
from spec import cdb as refcdb
from spec import opcodes as refop


def check(prog, run):
    I = prog.I
    run.explanation = ("per _cdb_bits table: encode_dict (specialised to the table) applied to one fresh symbol per field bit "
                       "into a zero CDB, then decode_bits over the same table: every decoded field must be exactly its own "
                       "input bits (overlap shows as u^v, truncation as a missing bit); conversely a symbolic CDB whose "
                       "undefined bits are zero is decoded and re-encoded and must reproduce itself; plus the same round "
                       "trip through the class's own marshall_cdb/unmarshall_cdb after abstract construction")
    run.rule_text = "one obligation per (table, direction, field) and per (class, end-to-end field); all compare symbolic bits"
    run.trusted += ["python semantics as modelled by pyscsi_sa"]
    enc = prog.func(CONV, None, "encode_dict")
    dec = prog.func(CONV, None, "decode_bits")
    ntab = 0
    nfield = 0
    classes = {c.qualname: c for c in prog.command_classes()}
    seen_tables = set()
    for key, entry in refcdb.CDB.items():
        if key not in classes:
            raise AnalysisError("anchor-missing", key)
        cls = classes[key]
        table, owner = cls.lookup("_cdb_bits")
        file = prog.rel(cls.module)
        short = key.split(":")[1]
        if not is_table(table):
            run.violation("cdb-table-wellformed", short, "_cdb_bits of %s is not a layout table: %r" % (short, table), file,
                          prog.class_attr_lines(owner).get("_cdb_bits") if owner else None)
            continue
        line = prog.class_attr_lines(owner).get("_cdb_bits")
        if "opcode" not in table:
            run.violation("table-has-opcode", short, "_cdb_bits has no 'opcode' field", file, line)
        opname = [k for s, k, o in opcode_entries(prog, entry["names"])][:1]
        length = refop.cdb_length(refop.OPCODES[opname[0]]) if opname and opname[0] in refop.OPCODES else 16
        if id(table) not in seen_tables:
            seen_tables.add(id(table))
            ntab += 1
            tname = "%s._cdb_bits" % owner.name
            # widths / well-formedness
            widths = {}
            okshape = True
            for f, e in table.items():
                if entry_kind(e) != "mask":
                    run.violation("cdb-table-wellformed", "%s.%s" % (tname, f), "CDB field is a blob entry %r" % (e,), file, line)
                    okshape = False
                    continue
                m = e[0]
                w = mask_width(m)
                if m <= 0:
                    run.violation("mask-nonzero", "%s.%s" % (tname, f), "mask %r is not positive: the codec loops forever" % m, file, line)
                    okshape = False
                    continue
                lowbit = (m & -m)
                if (m // lowbit) != (1 << w) - 1:
                    run.violation("mask-contiguous", "%s.%s" % (tname, f), "mask %#x has a hole: value bits are silently dropped" % m, file, line)
                    okshape = False
                widths[f] = w
            if not okshape:
                continue

            # direction 1: decode(encode(all fields))
            def t1():
                buf = Buf(cells=[0] * length)
                vals = {f: Sym.param(f, w) for f, w in widths.items()}
                I.call_function(enc, [vals, table, buf], {}, None, _F())
                res = {}
                I.call_function(dec, [buf, table, res], {}, None, _F())
                return res, buf
            p = single_path(I, t1, tname)
            if not p.returned:
                run.violation("encode-decode-total", tname, "round trip raises %s" % p.raised.describe(), file, line)
            else:
                res, buf = p.value
                for f, w in widths.items():
                    nfield += 1
                    v = norm_int(res.get(f))
                    want = tuple(frozenset([("p", f, j)]) for j in range(w))
                    if isinstance(v, Sym) and v.bits == want:
                        run.ok("decode-after-encode", "%s.%s" % (tname, f), {"width": w})
                    else:
                        run.violation("decode-after-encode", "%s.%s" % (tname, f),
                                      "decode(encode(all fields))[%s] = %s, expected the field's own %d bits "
                                      "(another field overlaps it or bits are lost)"
                                      % (f, bits_str(v.bits) if isinstance(v, Sym) and v.bits is not None else repr(v), w),
                                      file, line)

            # direction 2: encode(decode(cdb)) == cdb for CDBs whose undefined bits are zero
            defined = set()
            for f, e in table.items():
                r = decode_entry(prog, e)
                if r[0] == "bits":
                    defined.update(x for x in r[1] if x is not None)

            def t2():
                cells = []
                for i in range(length):
                    bits = [frozenset([("m", "cdb", (None, i), b)]) if (i, b) in defined else 0 for b in range(8)]
                    cells.append(norm_int(Sym(bits=bits)))
                src = Buf(cells=cells)
                res = {}
                I.call_function(dec, [src, table, res], {}, None, _F())
                out = Buf(cells=[0] * length)
                I.call_function(enc, [res, table, out], {}, None, _F())
                return src, out
            p = single_path(I, t2, tname)
            if not p.returned:
                run.violation("decode-encode-total", tname, "re-encoding raises %s" % p.raised.describe(), file, line)
            else:
                src, out = p.value
                bad = []
                for i in range(length):
                    a, b = cell_bits(src.cells[i]), cell_bits(out.cells[i]) if out.cells is not None and i < len(out.cells) else None
                    if a != b:
                        bad.append(i)
                if bad or out.cells is None or len(out.cells) != length:
                    run.violation("encode-after-decode", tname,
                                  "re-encoding a decoded CDB does not reproduce bytes %s" % bad, file, line)
                else:
                    run.ok("encode-after-decode", tname, {"bytes": length, "defined_bits": len(defined)})
        # end to end through the class's own static methods
        cons = construct_all(prog, key, entry, sets=None)
        done = False
        for con in cons:
            if done or not con.path.returned:
                continue
            done = True
            holder = {}

            def t3(con=con):
                kw = {}
                for (n, d), lab in zip(entry["args"], con.labels.values()):
                    pass
                # rebuild the same construction inside this path
                c2 = None
                choices = [domain_choices(n, d) for n, d in entry["args"]]
                kw = {}
                for (n, d), ch in zip(entry["args"], choices):
                    pick = [c for c in ch if c[0] == con.labels[n]][0]
                    kw[n] = pick[1]()
                holder["kw"] = dict(kw)
                inst = I.instantiate(con.cls, [con.opcode], dict(kw), None, _F())
                built = [e for e in I.events if e["kind"] == "build_cdb"]
                holder["built"] = built[-1]["kwargs"] if built else None
                um = I.get_attr(con.cls, "unmarshall_cdb", None, _F())
                cdb = I.get_attr(inst, "cdb", None, _F())
                res = I.call(um, [cdb], {}, None, _F())
                m = I.get_attr(con.cls, "marshall_cdb", None, _F())
                again = I.call(m, [res], {}, None, _F())
                return res, cdb, again
            res_paths = I.explore(t3, max_paths=64)
            for p in res_paths:
                if not p.returned:
                    ec = p.raised.exc_class()
                    if ec is not None and ec.name == "MissingBlocksizeException":
                        continue
                    run.violation("methods-roundtrip-total", short, "construct/unmarshall_cdb/marshall_cdb raises %s" % p.raised.describe(), file, line)
                    continue
                res, cdb, again = p.value
                built = holder.get("built") or {}
                if not isinstance(res, dict):
                    run.violation("unmarshall-cdb-returns-dict", short, "unmarshall_cdb returned %r" % (res,), file, line)
                    continue
                if set(res.keys()) != set(table.keys()):
                    run.violation("unmarshall-cdb-same-table", short,
                                  "unmarshall_cdb decodes fields %s but the class's layout has %s"
                                  % (sorted(res.keys()), sorted(table.keys())), file, line)
                    continue
                for f in table:
                    nfield += 1
                    sent = norm_int(built.get(f, 0))
                    got = norm_int(res.get(f))
                    same = (sent == got) if isinstance(sent, int) and isinstance(got, int) else \
                        (isinstance(sent, Sym) and isinstance(got, Sym) and sent.bits is not None and sent.bits == got.bits)
                    if not same and isinstance(sent, Sym) and sent.bits is None:
                        same = None
                    if same:
                        run.ok("unmarshall-cdb-recovers-field", "%s.%s" % (short, f))
                    elif same is None:
                        run.notes.append("%s.%s: value has no bit view" % (short, f))
                    else:
                        run.violation("unmarshall-cdb-recovers-field", "%s.%s" % (short, f),
                                      "built with %r, %s.unmarshall_cdb(cmd.cdb) returns %r" % (sent, short, got), file, line)
                # decoding is an inverse only if nothing the CDB was built from is lost on the way: every bit of a constructor
                # argument that reaches the decoded dictionary at all must reach it completely (distinct arguments, distinct results)
                seen_atoms = set()
                for v in res.values():
                    v = norm_int(v)
                    if isinstance(v, Sym) and v.bits is not None:
                        for b in v.bits:
                            if isinstance(b, frozenset):
                                seen_atoms |= set(a for a in b if a is not True and a[0] == "p")
                for an, av in (holder.get("kw") or {}).items():
                    av = norm_int(av)
                    if isinstance(av, Sym) and av.origin and av.origin[0] == "param" and av.bits is not None:
                        mine = set(a for b in av.bits if isinstance(b, frozenset) for a in b if a is not True)
                        got_mine = mine & seen_atoms
                        if got_mine and got_mine != mine:
                            lost = sorted(a[2] for a in mine - got_mine)
                            run.violation("argument-recoverable-from-cdb", "%s argument %s" % (short, an),
                                          "%s: bits %s of argument %s are in neither field that %s.unmarshall_cdb(cmd.cdb) returns, although its "
                                          "other bits are: two commands that differ only there decode alike" % (con.label(), lost, an, short),
                                          file, line)
                        elif got_mine:
                            run.ok("argument-recoverable-from-cdb", "%s argument %s" % (short, an))
                same_bytes = isinstance(again, Buf) and again.cells is not None and isinstance(cdb, Buf) and cdb.cells is not None and \
                    [cell_bits(c) for c in again.cells] == [cell_bits(c) for c in cdb.cells]
                if same_bytes:
                    run.ok("marshall-cdb-reproduces-bytes", short)
                else:
                    run.violation("marshall-cdb-reproduces-bytes", short,
                                  "marshall_cdb(unmarshall_cdb(cmd.cdb)) differs from cmd.cdb", file, line)
    run.count("tables", ntab)
    run.count("fields", nfield)
    run.count("classes", len(refcdb.CDB))
    run.floor("distinct _cdb_bits tables", ntab, 38)
    run.floor("classes", len(refcdb.CDB), 42)
