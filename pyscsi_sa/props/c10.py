"""C10 -- the bit-field codec obeys its algebraic laws for every layout.

The four converter functions are specialised to a static shape (mask / size /
blob kind) with the value, the buffer and the prior contents symbolic; the
result is per-bit provenance, i.e. the law is decided for all values at once."""
from __future__ import annotations

from ..codec import *
from ..rt import *
from ..values import *


class _F:
    def where(self, node=None):
        return "c10"


from .. import codec as _codec


class _NoPath:
    returned = False
    value = None
    outcome = ("raise", None)

    class raised:
        @staticmethod
        def describe():
            return "codec did not terminate"

        @staticmethod
        def exc_class():
            return None


def _safe_single_path(run, I, thunk, what):
    try:
        return _codec.single_path(I, thunk, what)
    except AnalysisError as e:
        if e.reason == "static-loop-does-not-terminate":
            run.violation("codec-terminates", "converter loop", "a codec loop over a static mask does not terminate (%s) for %s"
                          % (e.detail, what), None, None, e.detail.split("@")[0])
            return _NoPath()
        raise


class _Agg:
    """one violation per (law, function): a codec defect breaks hundreds of
    shapes at once; report the law with the first failing shapes"""

    def __init__(self, run):
        self.run = run
        self.bad = {}

    def ok(self, *a, **k):
        self.run.ok(*a, **k)

    def violation(self, rule, construct, message, file=None, line=None, function=None, facts=None):
        key = (rule, function)
        self.run.obligations += 1
        b = self.bad.setdefault(key, {"n": 0, "first": [], "file": file, "line": line, "facts": facts})
        b["n"] += 1
        if len(b["first"]) < 5:
            b["first"].append("%s: %s" % (construct, message))

    def flush(self):
        for (rule, function), b in self.bad.items():
            self.run.obligations -= 1
            self.run.violation(rule, "%s in %s" % (rule, function), "%d shape(s) fail; first: %s" % (b["n"], " | ".join(b["first"])),
                               b["file"], b["line"], function, b["facts"])
        self.bad = {}


def expected_positions(w, a, off):
    """big-endian span of a contiguous mask of width w at bit alignment a,
    stored at byte offset off: [(byte, bit)] MSB first"""
    nbytes = (w + a + 7) // 8
    out = []
    for j in range(w - 1, -1, -1):
        k = a + j
        out.append((off + nbytes - 1 - k // 8, k % 8))
    return out


def check(prog, run, sizes=range(0, 17), widths=range(1, 73), npairs=2000, floors=True):
    I = prog.I
    run.explanation = ("the four functions of pyscsi/utils/converter.py are abstractly interpreted with the table entry "
                       "static and the value / buffer / prior contents symbolic (one symbol per bit); each law is then a "
                       "comparison of bit provenance, valid for all values at once; shapes enumerated: contiguous masks of "
                       "width 1..72 at bit alignment 0..7 (and widths 1/3/8/10/17 at alignments 8..40), array sizes 0..16 (thorough 0..64), blob kinds b/w/dw x lengths 0..8")
    run.rule_text = ("one obligation per (law, shape); a shape is non-trivial when the law compares at least one symbolic "
                     "bit (all shapes except array size 0 and blob length 0)")
    run.trusted += ["python int shift/mask/xor/add and bytearray slice semantics as modelled in pyscsi_sa/values.py, ops.py"]
    run.assumptions += ["shapes outside the enumerated family are not decided",
                        "byte offsets 0 and 5 are used; the codec only ever adds the offset to an index"]
    real_run = run
    run = _Agg(real_run)
    global single_path
    single_path = lambda I_, thunk, what: _safe_single_path(run, I_, thunk, what)
    i2b = prog.func(CONV, None, "scsi_int_to_ba")
    b2i = prog.func(CONV, None, "scsi_ba_to_int")
    file = prog.rel(i2b.module)
    # L1 / L2 -----------------------------------------------------------
    for n in sizes:
        def t1(n=n):
            return I.call_function(i2b, [Sym.param("x", 8 * n) if n else 0, n], {}, None, _F())
        p = single_path(I, t1, "scsi_int_to_ba size %d" % n)
        c = "scsi_int_to_ba(x, %d)" % n
        if not p.returned or not isinstance(p.value, Buf) or p.value.cells is None:
            run.violation("L1-int-to-bytes-big-endian", c, "does not return a byte array: %s" % (p.outcome,), file, i2b.node.lineno, i2b.qualname)
        else:
            cells = p.value.cells
            ok = len(cells) == n
            for k, cell in enumerate(cells):
                want = tuple(frozenset([("p", "x", 8 * (n - 1 - k) + b)]) for b in range(8))
                cell = norm_int(cell)
                got = tuple(cell.bits) + (0,) * (8 - len(cell.bits)) if isinstance(cell, Sym) and cell.bits is not None else None
                if got != want:
                    ok = False
                    run.violation("L1-int-to-bytes-big-endian", c,
                                  "byte %d carries %s, big-endian order requires bits %d..%d of x"
                                  % (k, bits_str(cell.bits) if isinstance(cell, Sym) and cell.bits is not None else cell,
                                     8 * (n - 1 - k) + 7, 8 * (n - 1 - k)), file, i2b.node.lineno, i2b.qualname)
                    break
            if ok:
                run.ok("L1-int-to-bytes-big-endian", c, {"size": n}, nontrivial=n > 0)

        def t2(n=n):
            v = View("buf")[0:0] if False else View("buf", length=None)
            vv = View("buf", lo=(None, 0), hi=(None, n), hi_val=n, length=n)
            return I.call_function(b2i, [vv], {}, None, _F())
        p = single_path(I, t2, "scsi_ba_to_int size %d" % n)
        c = "scsi_ba_to_int(<%d bytes>)" % n
        val = norm_int(p.value) if p.returned else None
        want = []
        for k in range(n - 1, -1, -1):
            want.extend(frozenset([("m", "buf", (None, k), b)]) for b in range(8))
        if n == 0:
            good = p.returned and val == 0
        else:
            good = isinstance(val, Sym) and val.bits is not None and tuple(val.bits) + (0,) * (8 * n - len(val.bits)) == tuple(want)
        if good:
            run.ok("L2-bytes-to-int-inverse", c, {"size": n}, nontrivial=n > 0)
        else:
            run.violation("L2-bytes-to-int-inverse", c, "result %r is not the big-endian integer of the bytes" % (p.outcome[1],),
                          file, b2i.node.lineno, b2i.qualname)

        # the same bytes in the other forms a caller or a binding may hold them in: the result is the same number
        if n in (1, 2, 3, 4, 8):
            for form in ("bytes", "memoryview", "list", "tuple"):
                def t2f(n=n, form=form):
                    cells = [mem_byte("buf", (None, i)) for i in range(n)]
                    if form == "list":
                        arg = cells
                    elif form == "tuple":
                        arg = tuple(cells)
                    else:
                        arg = Buf(cells=cells)
                        arg.pytype = form
                    return I.call_function(b2i, [arg], {}, None, _F())
                pf = single_path(I, t2f, "scsi_ba_to_int %s size %d" % (form, n))
                valf = norm_int(pf.value) if pf.returned else None
                goodf = isinstance(valf, Sym) and valf.bits is not None and tuple(valf.bits) + (0,) * (8 * n - len(valf.bits)) == tuple(want)
                cf = "scsi_ba_to_int(<%d bytes as %s>)" % (n, form)
                if goodf:
                    run.ok("L2-bytes-to-int-inverse", cf, {"size": n})
                else:
                    run.violation("L2-bytes-to-int-inverse", cf, "given the bytes as a %s the result is %r, not their big-endian integer"
                                  % (form, (repr(valf) if pf.returned else pf.raised.describe())[:160]), file, b2i.node.lineno, b2i.qualname)

        # round trip int -> bytes -> int
        def t3(n=n):
            ba = I.call_function(i2b, [Sym.param("x", 8 * n) if n else 0, n], {}, None, _F())
            return I.call_function(b2i, [ba], {}, None, _F())
        p = single_path(I, t3, "round trip size %d" % n)
        val = norm_int(p.value) if p.returned else None
        wantb = tuple(frozenset([("p", "x", j)]) for j in range(8 * n))
        if (n == 0 and val == 0) or (isinstance(val, Sym) and val.bits == wantb):
            run.ok("L2-roundtrip", "ba_to_int(int_to_ba(x, %d))" % n, nontrivial=n > 0)
        else:
            run.violation("L2-roundtrip", "ba_to_int(int_to_ba(x, %d))" % n, "gives %r" % (val,), file, b2i.node.lineno, b2i.qualname)
    # L3 / L4 / L5 ----------------------------------------------------------
    enc = prog.func(CONV, None, "encode_dict")
    dec = prog.func(CONV, None, "decode_bits")
    shapes = []
    for w in widths:
        for a in range(8):
            shapes.append((w, a))
    # masks whose lowest set bit lies beyond the first byte of their span (trailing zero bytes): legal table entries,
    # e.g. a field in the high bytes of a wider window
    for w in (1, 3, 8, 10, 17):
        if w in widths:
            for a in (8, 9, 12, 15, 16, 17, 23, 24, 31, 40):
                shapes.append((w, a))
    nshape = 0
    for (w, a) in shapes:
        mask = ((1 << w) - 1) << a
        nbytes = (w + a + 7) // 8
        for off in ((0, 5) if (w + a) <= 16 else (3,)):
            nshape += 1
            entry = [mask, off]
            want = expected_positions(w, a, off)
            c = "mask width %d align %d offset %d" % (w, a, off)
            r = encode_entry(prog, entry, w, off + nbytes + 2)
            if r[0] != "bits":
                run.violation("L3-encode-exact-bits", c, "encode_dict: %s" % (r[1],), file, enc.node.lineno, enc.qualname)
            else:
                got = {pos: j for pos, j in r[1].items()}
                wantmap = {pos: w - 1 - i for i, pos in enumerate(want)}
                if got == wantmap:
                    run.ok("L3-encode-exact-bits", c, {"mask": hex(mask), "bits": pos_text(want)})
                else:
                    run.violation("L3-encode-exact-bits", c,
                                  "encode_dict writes value bits to %s, the field is %s"
                                  % (sorted(got.items())[:6], pos_text(want)), file, enc.node.lineno, enc.qualname,
                                  facts={"mask": hex(mask), "got": sorted(got.items()), "want": sorted(wantmap.items())})
            r = decode_entry(prog, entry)
            if r[0] != "bits":
                run.violation("L4-decode-exact-bits", c, "decode_bits: %s" % (r[1],), file, dec.node.lineno, dec.qualname)
            elif r[1] == want:
                run.ok("L4-decode-exact-bits", c, {"mask": hex(mask), "bits": pos_text(want)})
            else:
                run.violation("L4-decode-exact-bits", c, "decode_bits reads %s, the field is %s" % (pos_text(r[1]), pos_text(want)),
                              file, dec.node.lineno, dec.qualname, facts={"got": r[1], "want": want})
            # L5: decode(encode(v)) == v on a zero buffer with every other byte arbitrary
            def t5(entry=entry, w=w, off=off, nbytes=nbytes):
                buf = Buf(cells=[0] * (off + nbytes + 2))
                I.call_function(enc, [{"f": Sym.param("v", w)}, {"f": entry}, buf], {}, None, _F())
                res = {}
                I.call_function(dec, [buf, {"f": entry}, res], {}, None, _F())
                return res
            p = single_path(I, t5, "roundtrip %s" % c)
            v = norm_int(p.value.get("f")) if p.returned else None
            if isinstance(v, Sym) and v.bits == tuple(frozenset([("p", "v", j)]) for j in range(w)):
                run.ok("L5-decode-after-encode", c)
            else:
                run.violation("L5-decode-after-encode", c, "decode(encode(v)) = %r" % (v if p.returned else p.raised.describe(),),
                              file, dec.node.lineno, dec.qualname)
    # L6: order independence on disjoint pairs inside a 6-byte window ---------
    small = [(w, a, off) for w in range(1, 25) for a in range(8) for off in range(0, 5) if off * 8 + w + a <= 48]
    import random
    rnd = random.Random(12345)
    pairs = []
    tries = 0
    while len(pairs) < npairs and tries < npairs * 50:
        tries += 1
        s1, s2 = rnd.choice(small), rnd.choice(small)
        b1 = set(expected_positions(*s1))
        b2 = set(expected_positions(*s2))
        if b1 & b2:
            continue
        pairs.append((s1, s2))
    for s1, s2 in pairs:
        e1 = [((1 << s1[0]) - 1) << s1[1], s1[2]]
        e2 = [((1 << s2[0]) - 1) << s2[1], s2[2]]

        def t6(order, e1=e1, e2=e2, s1=s1, s2=s2):
            def th():
                buf = Buf(cells=[Sym(bits=[frozenset([("p", ("prior", i), j)]) for j in range(8)]) for i in range(8)])
                vals = {"f1": Sym.param("u", s1[0]), "f2": Sym.param("v", s2[0])}
                d = {}
                for k in order:
                    d[k] = vals[k]
                I.call_function(enc, [d, {"f1": e1, "f2": e2}, buf], {}, None, _F())
                return [norm_int(c).key() if isinstance(norm_int(c), Sym) else norm_int(c) for c in buf.cells]
            return th
        pa = single_path(I, t6(["f1", "f2"]), "pair")
        pb = single_path(I, t6(["f2", "f1"]), "pair")
        c = "pair %r / %r" % (s1, s2)
        if pa.returned and pb.returned and pa.value == pb.value:
            run.ok("L6-order-independent", c)
        else:
            run.violation("L6-order-independent", c, "encoding two disjoint fields in either order gives different buffers",
                          file, enc.node.lineno, enc.qualname)
    # L8: the codec keeps nothing between calls (a cache keyed by the identity of a table or entry is state that outlives
    #     the object: a later layout allocated at the same address is read with the earlier one's numbers)
    def t8():
        buf = Buf(cells=[0] * 8)
        tab = {"f1": [0x0FF0, 1], "f2": [0x03, 4], "blob": ("b", 5, 2)}
        I.call_function(enc, [{"f1": Sym.param("v1", 8), "f2": Sym.param("v2", 2), "blob": Buf(cells=[1, 2])}, tab, buf], {}, None, _F())
        out = {}
        I.call_function(dec, [buf, tab, out], {}, None, _F())
        return [e for e in I.events if e["kind"] in ("static-mutation", "global-store", "class-store", "memo-store")]
    p8 = single_path(I, t8, "stateless")
    if p8.returned and not p8.value:
        run.ok("L8-codec-is-stateless", "encode_dict / decode_bits")
    else:
        ev8 = p8.value[0] if p8.returned and p8.value else None
        run.violation("L8-codec-is-stateless", "encode_dict / decode_bits",
                      "the codec %s: what it does for one layout then depends on which layouts it saw before"
                      % (("writes %s at %s" % (ev8.get("origin") or ev8.get("name") or ev8.get("func"), ev8.get("where"))) if ev8
                         else "raises %s" % p8.raised.describe()), file, enc.node.lineno, enc.qualname)
    # L7: blobs --------------------------------------------------------------
    nblob = 0
    for kind, mul in (("b", 1), ("w", 2), ("dw", 4)):
        for length in range(0, 9):
            nblob += 1
            entry = (kind, 2, length)
            c = "blob %s offset 2 length %d" % (kind, length)
            re_ = encode_entry(prog, entry, 0, 2 + length * mul + 3)
            rd_ = decode_entry(prog, entry)
            want = ("blob", 2, length * mul)
            if length == 0:
                ok = re_[0] == "blob" and re_[2] == 0 and rd_ == want
            else:
                ok = re_ == want and rd_ == want
            if ok:
                run.ok("L7-blob-same-range", c, {"bytes": length * mul}, nontrivial=length > 0)
            else:
                run.violation("L7-blob-same-range", c, "encode %r / decode %r, expected bytes [2, %d)" % (re_, rd_, 2 + length * mul),
                              file, enc.node.lineno, enc.qualname)
    # L9: an entry means the same whether the table spells it as a list or as a tuple (the module's own CheckDict type allows
    #     both for masks and for blobs; the tables of the library use lists for masks and, mostly, tuples for blobs)
    if floors:
        for (w, a, off) in ((1, 0, 0), (1, 7, 2), (8, 0, 1), (12, 4, 0), (24, 0, 3), (28, 4, 0), (64, 0, 2)):
            mask = ((1 << w) - 1) << a
            nbytes = (w + a + 7) // 8
            c = "mask width %d align %d offset %d as tuple" % (w, a, off)
            rl, rt = encode_entry(prog, [mask, off], w, off + nbytes + 2), encode_entry(prog, (mask, off), w, off + nbytes + 2)
            dl, dt = decode_entry(prog, [mask, off]), decode_entry(prog, (mask, off))
            if rl == rt and dl == dt and rl[0] == "bits" and dl[0] == "bits":
                run.ok("L9-entry-notation", c)
            else:
                run.violation("L9-entry-notation", c, "the entry (%#x, %d) written as a tuple is %s, written as a list it is %s"
                              % (mask, off, "encoded as %r / decoded as %r" % (rt[:2], dt[:2]), "encoded as %r / decoded as %r" % (rl[:2], dl[:2])),
                              file, enc.node.lineno, enc.qualname)
        for kind, mul in (("b", 1), ("w", 2), ("dw", 4)):
            for length in (1, 3):
                c = "blob %s offset 2 length %d as list" % (kind, length)
                et, el = (kind, 2, length), [kind, 2, length]
                pair_t = (encode_entry(prog, et, 0, 2 + length * mul + 3), decode_entry(prog, et))
                pair_l = (encode_entry(prog, el, 0, 2 + length * mul + 3), decode_entry(prog, el))
                if pair_t == pair_l:
                    run.ok("L9-entry-notation", c)
                else:
                    run.violation("L9-entry-notation", c, "the entry written as a list gives %r, written as a tuple %r" % (pair_l, pair_t),
                                  file, enc.node.lineno, enc.qualname)
    run.flush()
    run = real_run
    run.count("functions", 4)
    run.count("mask_shapes", nshape)
    run.count("sizes", len(list(sizes)))
    run.count("blob_cases", nblob)
    run.count("pairs", len(pairs))
    if not floors:
        return
    run.floor("mask shapes", nshape, 576)
    run.floor("array sizes", len(list(sizes)), 17)
    run.floor("blob cases", nblob, 24)
    run.floor("disjoint pairs", len(pairs), min(npairs, 2000))


def thorough(prog, run):
    # deeper: sizes up to 64 and 20 000 pairs (the quick family is re-decided inside)
    from ..report import Run
    check(prog, run, sizes=range(17, 65), widths=range(73, 81), npairs=20000, floors=False)
