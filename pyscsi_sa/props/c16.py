"""C16 -- attaching to a device selects the command set of its peripheral
device type."""
from __future__ import annotations

from ..cmdeval import *
from ..cmdeval import _F
from ..facade_eval import SCSI_MOD
from ..rt import *
from ..interp import Frame
from ..standin import StandIn
from ..values import *
from .c03 import make_scsi_device, make_iscsi_device, slot, put, scsi_layout
from spec import facade as reffacade


def fresh_device(prog):
    """a device object as its constructor leaves it: no device type recorded yet"""
    dev = make_scsi_device(prog)
    dev.attrs.pop(scsi_layout(prog)["devicetype"], None)
    return dev


def device_bytes_for(byte0):
    """standard INQUIRY data with the given byte 0; the rest of the header (bytes 1..7: RMB, version, response data format,
    ADDITIONAL LENGTH, the flag bytes) is whatever the device sends (symbolic); the identification strings are zero"""
    return lambda n: ([byte0] + [mem_byte("device", (None, i)) for i in range(1, min(n, 8))] + [0] * max(0, min(n, 36) - 8))[:n]


def table_mutations_on_attach(prog):
    """[(device type, event)] for every write to a command-set table (or other object built at import
    time in scsi_enum_command) that attaching a facade performs -- shared with C14"""
    I = prog.I
    mod = prog.module(ENUM_MOD)
    scsi_cls = prog.cls(SCSI_MOD, "SCSI")
    out = []
    n = 0
    for dt in range(32):
        si = StandIn(prog, check_condition="never", device_bytes=device_bytes_for(dt)).install()
        try:
            def t():
                dev = fresh_device(prog)
                put(prog, dev, "opcodes", mod.env[reffacade.DEFAULT_SET])
                I.instantiate(scsi_cls, [dev], {}, None, _F())
                ev = [e for e in I.events if e["kind"] in ("static-mutation", "class-store", "global-store")
                      and "scsi_enum_command" in str(e.get("origin") or e.get("cls") or e.get("module"))]
                snap = {}
                if ev:      # the tables as they stand after the attach
                    for sname in SETS:
                        tab = mod.env.get(sname)
                        snap[sname] = {}
                        for k, op in (tab.members.items() if isinstance(tab, EnumVal) else ()):
                            try:
                                snap[sname][k] = norm_int(I.get_attr(op, "value", None, _F())) if isinstance(op, Instance) else op
                            except PyRaise:
                                snap[sname][k] = None
                return ev, snap
            for p in I.explore(t, max_paths=512):
                n += 1
                if p.returned:
                    out.extend((dt, e, p.value[1]) for e in p.value[0])
        finally:
            si.remove()
    return n, out


def thorough(prog, run):
    """every ordered pair of the 32 device types for attach / re-attach (1024 sequences)"""
    check(prog, run, reps=list(range(32)), only_reattach=True)


def enough(run, limit=12):
    """the tree already fails in many places: further scenario families add time, not information"""
    n = len([v for v in run.violations if (run.pid, v["rule"], v["construct"]) not in run.known])
    if n > limit and not getattr(run, "_cut_short", False):
        run._cut_short = True
        run.notes.append("more than %d violations: the remaining attach scenarios were not evaluated" % limit)
    return n > limit


def check(prog, run, reps=None, only_reattach=False):
    from .c03 import prime_layouts
    prime_layouts(prog)
    I = prog.I
    run.explanation = ("SCSI.__init__ / SCSI.__call__ (-> __init_opcode -> inquiry -> execute -> Inquiry.unmarshall_datain) are "
                       "abstractly interpreted over a stand-in transport that answers the INQUIRY with byte 0 = each of the 256 "
                       "values (32 peripheral device types x 8 qualifiers, constant propagation); the table left in device.opcodes "
                       "is compared with the reference mapping; every selectable table must offer the primary commands; exactly one "
                       "standard INQUIRY is issued; re-attach sequences over pairs of device types must leave each device with its own "
                       "selection and no selection state on the facade object; both device classes must default to spc")
    run.rule_text = "one obligation per (entry point, byte-0 value), per re-attach pair, per (table, primary command)"
    run.trusted += ["spec/facade.py DEVICE_TYPE_SET (SPC peripheral device type table)", "stand-in transport model"]
    run.exhaustive = True
    mod = prog.module(ENUM_MOD)
    tables = {s: mod.env[s] for s in SETS}
    byid = {id(v): k for k, v in tables.items()}
    scsi_cls = prog.cls(SCSI_MOD, "SCSI")
    file = prog.rel(scsi_cls.module)
    init = prog.func(SCSI_MOD, "SCSI", "__init__")
    callf = prog.func(SCSI_MOD, "SCSI", "__call__")
    # defaults of the device classes
    for mk, nm, arg in ((make_scsi_device, "SCSIDevice", "/dev/sg0"), (make_iscsi_device, "ISCSIDevice", "iscsi://h/t/0")):
        cls = prog.cls("pyscsi.pyscsi.scsi_device" if nm == "SCSIDevice" else "pyscsi.pyiscsi.iscsi_device", nm)
        si = StandIn(prog).install()
        try:
            ps = I.explore(lambda: I.instantiate(cls, [arg], {}, None, _F()), max_paths=64)
        finally:
            si.remove()
        okp = [p for p in ps if p.returned]
        if not okp:
            run.violation("device-default-set", nm, "%s('%s') cannot be constructed in the model: %s" % (nm, arg, ps[0].raised.describe()),
                          prog.rel(cls.module), cls.node.lineno)
            continue
        for p in okp:
            got = byid.get(id(slot(prog, p.value, "opcodes")))
            if got == reffacade.DEFAULT_SET:
                run.ok("device-default-set", nm, {"default": got})
            else:
                run.violation("device-default-set", nm, "a fresh %s starts with command set %r, not %s" % (nm, got, reffacade.DEFAULT_SET),
                              prog.rel(cls.module), cls.node.lineno)
    # every table selectable offers the primary commands
    for s in SETS:
        for name in reffacade.PRIMARY_COMMANDS:
            if name in tables[s].members:
                run.ok("primary-commands-everywhere", "%s.%s" % (s, name))
            else:
                run.violation("primary-commands-everywhere", "%s.%s" % (s, name), "command set %s lacks %s" % (s, name),
                              prog.rel(mod), None)

    def attach(entry, byte0, prior=None, blocksize=None):
        """returns list of (selected set name, n_execute, cdb cells, facade attrs)"""
        out = []
        si = StandIn(prog, check_condition="never", device_bytes=device_bytes_for(byte0)).install()
        try:
            def t():
                dev = fresh_device(prog)
                put(prog, dev, "opcodes", tables[reffacade.DEFAULT_SET])
                if entry == "init":
                    s = I.instantiate(scsi_cls, [dev], {} if blocksize is None else {"blocksize": blocksize}, None, _F())
                else:
                    n0 = 0
                    if prior is None:
                        # a facade as the library itself makes one, not attached to anything yet (SCSI(None) sends nothing):
                        # whatever its constructor sets up is there when it is called with a device
                        try:
                            s = I.instantiate(scsi_cls, [None], {} if blocksize is None else {"blocksize": blocksize}, None, _F())
                            n0 = len(I.events)
                        except PyRaise:
                            s = None
                    else:
                        s = None
                    if s is None:
                        s = Instance(scsi_cls)
                        put(prog, s, "blocksize", 0 if blocksize is None else blocksize)
                        s.attrs["device"] = prior
                    I.call_function(callf, [s, dev], {}, None, _F())
                    calls = [e for e in I.events[n0:] if e["kind"] == "external-call" and e["name"] == "sgio.execute"]
                    muts = [e for e in I.events[n0:] if e["kind"] in ("static-mutation", "class-store", "global-store", "memo-store")]
                    return s, dev, calls, muts
                calls = [e for e in I.events if e["kind"] == "external-call" and e["name"] == "sgio.execute"]
                muts = [e for e in I.events if e["kind"] in ("static-mutation", "class-store", "global-store", "memo-store")]
                return s, dev, calls, muts
            return I.explore(t, max_paths=512)
        finally:
            si.remove()

    nvals = 0
    for entry in (() if only_reattach else ("init", "call")):
        fn = init if entry == "init" else callf
        for byte0 in range(256):
            if enough(run):
                break
            nvals += 1
            dt = byte0 & 0x1F
            want = reffacade.DEVICE_TYPE_SET.get(dt)
            ps = attach(entry, byte0)
            if byte0 < 32:
                # the selection is a function of the device's answer alone: a facade created with a block size selects the same
                ps_bs = attach(entry, byte0, blocksize=512)
                sel = lambda plist: sorted(set(byid.get(id(slot(prog, p.value[1], "opcodes"))) or "?" for p in plist if p.returned))
                if sel(ps) != sel(ps_bs):
                    run.violation("device-type-selects-set", "SCSI.%s device type %#04x, facade with a block size" % ("__init__" if entry == "init" else "__call__", dt),
                                  "a facade created with blocksize=512 selects %s for device type %#04x, one created without selects %s: the "
                                  "selection must follow from the reported device type alone" % (sel(ps_bs), dt, sel(ps)), file, fn.node.lineno, fn.qualname)
                ps = ps + ps_bs
            c = "SCSI.%s device type %#04x" % ("__init__" if entry == "init" else "__call__", dt)
            for p in ps:
                if not p.returned:
                    run.violation("attach-succeeds", c, "attach raises %s (INQUIRY byte 0 = %#04x)" % (p.raised.describe(), byte0),
                                  file, fn.node.lineno, fn.qualname)
                    continue
                s, dev, calls, muts = p.value
                got = byid.get(id(slot(prog, dev, "opcodes")))
                if want is not None and got != want:
                    run.violation("device-type-selects-set", c,
                                  "peripheral device type %#04x (qualifier %d) selects %r, the reference gives %s" % (dt, byte0 >> 5, got, want),
                                  file, fn.node.lineno, fn.qualname)
                elif want is None and (got is None or any(n not in tables[got].members for n in reffacade.PRIMARY_COMMANDS)):
                    run.violation("device-type-selects-set", c, "type %#04x leaves command set %r without the primary commands" % (dt, got),
                                  file, fn.node.lineno, fn.qualname)
                else:
                    run.ok("device-type-selects-set", "%s q=%d" % (c, byte0 >> 5), {"set": got})
                if len(calls) != 1:
                    run.violation("one-standard-inquiry", c, "%d commands are sent while attaching" % len(calls), file, fn.node.lineno, fn.qualname)
                else:
                    cdb = calls[0]["args"][1]
                    cells = [norm_int(x) for x in cdb.cells] if isinstance(cdb, Buf) and cdb.cells is not None else None
                    if not cells or cells[0] != 0x12 or cells[1] != 0 or cells[2] != 0:
                        run.violation("one-standard-inquiry", c, "the command sent while attaching is not a standard INQUIRY: %r" % (cells,),
                                      file, fn.node.lineno, fn.qualname)
                leaked = [k for k, v in s.attrs.items() if isinstance(v, EnumVal)]
                if leaked:
                    run.violation("selection-state-on-device-only", "SCSI attribute %s" % leaked[0],
                                  "the facade object keeps command-set state in %s: it leaks to the next attached device" % leaked,
                                  file, fn.node.lineno, fn.qualname)
    # re-attach: sequences over pairs of representative types
    reps = reps if reps is not None else [0x00, 0x01, 0x03, 0x05, 0x08, 0x1F]
    npairs = 0
    for a in ([] if enough(run) else reps):
        for b in reps:
            npairs += 1
            si = StandIn(prog, check_condition="never").install()
            try:
                def t(a=a, b=b):
                    d1 = fresh_device(prog)
                    put(prog, d1, "opcodes", tables["spc"])
                    d2 = fresh_device(prog)
                    put(prog, d2, "opcodes", tables["spc"])
                    si.device_bytes = device_bytes_for(a)
                    s = I.instantiate(scsi_cls, [d1], {}, None, _F())
                    si.device_bytes = device_bytes_for(b)
                    n_before = len([e for e in I.events if e["kind"] == "external-call" and e["name"] == "sgio.execute"])
                    I.call_function(callf, [s, d2], {}, None, _F())
                    sent = [e for e in I.events if e["kind"] == "external-call" and e["name"] == "sgio.execute"][n_before:]
                    I.event("reattach-inquiries", n=len(sent), through=[e["args"][0] for e in sent], d2file=slot(prog, d2, "handle"))
                    return s, d1, d2
                ps = I.explore(t, max_paths=64)
            finally:
                si.remove()
            c = "attach %#04x then re-attach %#04x" % (a, b)
            for p in ps:
                if not p.returned:
                    run.violation("reattach", c, "raises %s" % p.raised.describe(), file, callf.node.lineno, callf.qualname)
                    continue
                s, d1, d2 = p.value
                ri = [e for e in p.events if e["kind"] == "reattach-inquiries"]
                if ri and (ri[-1]["n"] != 1 or ri[-1]["through"][0] is not ri[-1]["d2file"]):
                    run.violation("one-standard-inquiry", "re-attach " + c,
                                  "re-attaching sends %d INQUIRY commands to the new device (the selection must be made from the new device's own answer)"
                                  % ri[-1]["n"], file, callf.node.lineno, callf.qualname)
                g1, g2 = byid.get(id(slot(prog, d1, "opcodes"))), byid.get(id(slot(prog, d2, "opcodes")))
                w1 = reffacade.DEVICE_TYPE_SET.get(a, g1)
                w2 = reffacade.DEVICE_TYPE_SET.get(b)
                # processor / unrecognised types: any table that still offers the primary commands
                prim_ok = g2 is not None and all(n in tables[g2].members for n in reffacade.PRIMARY_COMMANDS)
                bad = (g1 != w1) or (w2 is not None and g2 != w2) or (w2 is None and not prim_ok) or s.attrs.get("device") is not d2
                if bad:
                    run.violation("reattach", c, "after re-attaching, first device has %r, second %r (expected %r / %r)" % (g1, g2, w1, w2 or "spc"),
                                  file, callf.node.lineno, callf.qualname)
                else:
                    run.ok("reattach", c, {"first": g1, "second": g2})
    # the facade as applications (and the repository's own tests, tests/mock_device.py) use it: a subclass with a constructor
    # of its own, attached later by calling it -- the attach still probes the device and selects its command set
    if not only_reattach:
        import ast as _ast
        src = ("class FacadeSubclass(SCSI):\n"
               "    def __init__(self, tag, dev=None):\n"
               "        self.tag = tag\n"
               "        self.device = dev\n"
               "        self._blocksize = 0\n")
        fr = Frame(I, scsi_cls.module, func=callf, locals_={"SCSI": scsi_cls})
        I.exec_stmt(_ast.parse(src).body[0], fr)
        sub_cls = fr.locals["FacadeSubclass"]
        for b in reps:
            si = StandIn(prog, check_condition="never", device_bytes=device_bytes_for(b)).install()
            try:
                def ts(b=b):
                    d2 = fresh_device(prog)
                    put(prog, d2, "opcodes", tables["spc"])
                    s = I.instantiate(sub_cls, ["x"], {}, None, _F())
                    I.call_function(callf, [s, d2], {}, None, _F())
                    sent = [e for e in I.events if e["kind"] == "external-call" and e["name"] == "sgio.execute"]
                    return s, d2, len(sent)
                ps = I.explore(ts, max_paths=64)
            finally:
                si.remove()
            c = "a subclass of SCSI attached by calling it, device type %#04x" % b
            for p in ps:
                if not p.returned:
                    run.violation("reattach", c, "raises %s" % p.raised.describe(), file, callf.node.lineno, callf.qualname)
                    continue
                s, d2, nsent = p.value
                g2 = byid.get(id(slot(prog, d2, "opcodes")))
                w2 = reffacade.DEVICE_TYPE_SET.get(b)
                prim_ok = g2 is not None and all(n in tables[g2].members for n in reffacade.PRIMARY_COMMANDS)
                if nsent != 1 or (w2 is not None and g2 != w2) or (w2 is None and not prim_ok) or s.attrs.get("device") is not d2:
                    run.violation("reattach", c, "%d INQUIRY commands sent, the device gets %r (expected %r), facade.device is %s the new device"
                                  % (nsent, g2, w2 or "a set with the primary commands", "" if s.attrs.get("device") is d2 else "not"),
                                  file, callf.node.lineno, callf.qualname)
                else:
                    run.ok("reattach", c, {"set": g2})
    run.count("byte0_values", nvals)
    run.count("reattach_pairs", npairs)
    if not only_reattach:
        run.floor("byte-0 values x entry points", nvals, 512)
