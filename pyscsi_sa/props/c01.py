"""C01 -- every CDB the library builds has the standard's wire format."""
from __future__ import annotations

from ..cmdeval import *
from ..cmdeval import _F
from ..codec import spec_positions, pos_text
from ..rt import *
from ..values import *
from spec import cdb as refcdb
from spec import opcodes as refop


def field_name(pos):
    if len(pos) == 3:
        return "b%d.%d-%d" % pos if pos[1] != pos[2] else "b%d.%d" % (pos[0], pos[1])
    return "b%d-%d" % (pos[0], pos[2]) if (pos[1], pos[3]) == (7, 0) else "b%d.%d-b%d.%d" % pos


def src_text(src):
    if src[0] == "param":
        return "parameter %s" % src[1]
    if src[0] == "param_bits":
        return "bits %d..%d of parameter %s" % (src[2], src[3], src[1])
    if src[0] == "opcode":
        return "opcode.value"
    if src[0] == "sa":
        return "service action %s" % src[1]
    if src[0] == "len_dataout":
        return "len(dataout)"
    if src[0] == "const":
        return "constant %#x" % src[1]
    return repr(src)


def expected_bits(src, width, con, prog):
    """expected value bits, MSB first, list of 0|1|frozenset"""
    I = prog.I
    if src[0] == "param":
        b = value_bits(con.args.get(src[1]), width)
        if b is None:
            raise AnalysisError("spec-binding", "parameter %s of %s has no bit view" % (src[1], con.cls.qualname))
        b = tuple(b) + (0,) * (width - len(b))
        if any(x != 0 for x in b[width:]):
            raise AnalysisError("spec-binding", "parameter %s wider than its field" % src[1])
        return list(reversed(b[:width]))
    if src[0] == "param_bits":
        b = value_bits(con.args.get(src[1]), src[2] + 1)
        return [b[j] for j in range(src[2], src[3] - 1, -1)]
    if src[0] == "opcode":
        v = refop.OPCODES.get(con.opkey)
        if v is None:
            raise AnalysisError("spec-binding", "no T10 value for %s" % con.opkey)
        return [(v >> j) & 1 for j in range(width - 1, -1, -1)]
    if src[0] == "sa":
        v = refop.SERVICE_ACTIONS[src[1]]
        return [(v >> j) & 1 for j in range(width - 1, -1, -1)]
    if src[0] == "const":
        return [(src[1] >> j) & 1 for j in range(width - 1, -1, -1)]
    if src[0] == "len_dataout":
        d = con.pub.get("dataout")
        L = norm_int(I.len_of(d, None, None)) if isinstance(d, (Buf, SymBytes, View, bytes)) else None
        b = value_bits(L, width)
        if b is None:
            return None
        b = tuple(b) + (0,) * (width - len(b))
        return list(reversed(b[:width]))
    raise AnalysisError("spec-source", repr(src))


def check(prog, run):
    run.explanation = ("every command constructor is abstractly interpreted (source text only) with each argument symbolic "
                       "(one symbol per bit) through SCSICommand.__init__, init_cdb, build_cdb, marshall_cdb and the "
                       "specialised encode_dict, for every command-set table that defines its opcode name; the resulting "
                       "per-bit provenance of the CDB is compared with an independent reference in the standards' "
                       "byte/bit coordinates (spec/cdb.py); this decides all in-range argument values at once")
    run.rule_text = ("one obligation per (class, command set, argument-domain choice, path, reference field) plus one per "
                     "CDB for 'length' and one for 'all other bits zero'; distinct = distinct (rule, class, field)")
    run.trusted += ["spec/cdb.py, spec/opcodes.py (hand transcriptions)", "python semantics as modelled by pyscsi_sa"]
    run.assumptions += ["arguments fit their field widths (out-of-range arguments spill into neighbouring bits: not decided)"]
    nclass = 0
    ncons = 0
    nfields = 0
    classes = {c.qualname: c for c in prog.command_classes()}
    by_name = {}
    for c in classes.values():
        by_name.setdefault(c.name, []).append(c)
    # a reference entry names module:Class; a class that moved to another module is the same class
    moved = {}
    for key in refcdb.CDB:
        if key not in classes:
            same = by_name.get(key.split(":")[1], [])
            if len(same) == 1 and same[0].qualname not in refcdb.CDB:
                moved[key] = same[0]
    claimed = set(c.qualname for c in moved.values())
    bases_of_commands = set(b.qualname for c in classes.values() for b in c.bases if isinstance(b, ClassVal))
    for q in classes:
        if q not in refcdb.CDB and q not in claimed:
            if q in bases_of_commands:
                run.assumptions.append("class %s is a base of command classes, not a command of its own: no reference entry expected" % q)
                continue
            run.violation("class-has-reference", q, "command class %s has no reference entry in spec/cdb.py" % q)
    for key, entry in refcdb.CDB.items():
        if key not in classes and key not in moved:
            raise AnalysisError("anchor-missing", key)
        cls = classes.get(key) or moved[key]
        nclass += 1
        file = prog.rel(cls.module)
        init = cls.lookup("__init__")[0]
        line = init.node.lineno if isinstance(init, FuncVal) else None
        cons = construct_all(prog, key, entry)
        # the same constructor with every integer argument given as the bool True (an int subclass: flags are commonly passed
        # that way): True is the number 1 wherever it lands
        bool_args = [(n, ("const", True)) if d[0] == "bits" else (n, d) for n, d in entry["args"]]
        if bool_args != list(entry["args"]) and cons:
            cons = cons + construct_all(prog, key, entry, sets=[cons[0].setname], args_override=bool_args)
        if not cons:
            run.violation("command-offered-somewhere", key, "no command-set table defines %s" % entry["names"], file, line)
            continue
        short = key.split(":")[1]
        for con in cons:
            ncons += 1
            p = con.path
            if not p.returned:
                ec = p.raised.exc_class()
                ename = ec.name if ec else "?"
                bs = con.labels.get("blocksize")
                if ename == "MissingBlocksizeException" and bs == "0":
                    continue
                earg = ""
                if isinstance(p.raised.exc, Instance) and p.raised.exc.args:
                    earg = " " + str(p.raised.exc.args[0])[:80]
                run.violation("constructible", "%s: %s%s" % (short, ename, earg),
                              "constructor raises %s for %s" % (p.raised.describe(), con.label()), file, line, key)
                continue
            inst = con.inst
            cdb = con.pub.get("cdb") if isinstance(inst, Instance) else None
            want_len = refop.cdb_length(refop.OPCODES[con.opkey]) if con.opkey in refop.OPCODES else None
            if not isinstance(cdb, Buf) or cdb.cells is None:
                run.violation("cdb-is-bytes", "%s on %s" % (short, con.setname),
                              "cmd.cdb is %r for %s" % (cdb, con.label()), file, line, key)
                continue
            if want_len is not None:
                if len(cdb.cells) == want_len:
                    run.ok("cdb-length", "%s on %s" % (short, con.setname), {"len": want_len, "case": con.label()})
                else:
                    run.violation("cdb-length", "%s on %s" % (short, con.setname),
                                  "CDB has %d bytes, SAM prescribes %d for opcode %s" % (len(cdb.cells), want_len, con.opkey),
                                  file, line, key)
            used = set()
            for pos, src in entry["fields"]:
                nfields += 1
                positions = spec_positions(pos)
                used.update(positions)
                exp = expected_bits(src, len(positions), con, prog)
                fname = "%s %s (%s)" % (short, field_name(pos), src_text(src))
                if exp is None:
                    # symbolic length without bit view: decided by C05/C03 instead
                    run.notes.append("%s: len(dataout) has no bit view in case %s" % (fname, con.label()))
                    continue
                got = []
                bad = False
                for (byte, bit) in positions:
                    if byte >= len(cdb.cells):
                        got.append(None)
                        bad = True
                        continue
                    cb = cell_bits(cdb.cells[byte])
                    got.append(cb[bit] if cb is not None else None)
                if bad or got != exp:
                    run.violation("field-position", fname,
                                  "at %s the CDB carries %s, the standard puts %s there (case %s)"
                                  % (pos_text(positions), show_bits(got), src_text(src), con.label()),
                                  file, line, key, facts={"got": [bit_repr(x) for x in got], "want": [bit_repr(x) for x in exp]})
                else:
                    run.ok("field-position", fname, {"at": pos_text(positions), "case": con.label()})
            # every other bit zero
            extra = []
            for byte, cell in enumerate(cdb.cells):
                cb = cell_bits(cell)
                if cb is None:
                    extra.append((byte, "?", repr(cell)))
                    continue
                for bit in range(8):
                    if (byte, bit) not in used and cb[bit] != 0:
                        extra.append((byte, bit, bit_repr(cb[bit])))
            if extra:
                run.violation("other-bits-zero", "%s stray %s" % (short, ",".join("b%s.%s" % (e[0], e[1]) for e in extra[:4])),
                              "CDB bits outside the standard's fields are set: %s (case %s)" % (extra[:6], con.label()),
                              file, line, key)
            else:
                run.ok("other-bits-zero", short, {"case": con.label()})
    nhist = check_history(prog, run, classes, QUICK_PREDECESSORS)
    run.count("history_constructions", nhist)
    run.count("classes", nclass)
    run.count("constructions", ncons)
    run.count("field_comparisons", nfields)
    run.count("modules", len(prog.modules))
    run.floor("command classes", nclass, 42)
    run.floor("constructions (class x set x domain x path)", ncons, 110)


QUICK_PREDECESSORS = [("pyscsi.pyscsi.scsi_cdb_testunitready:TestUnitReady", "TEST_UNIT_READY"),
                      ("pyscsi.pyscsi.scsi_cdb_readcapacity10:ReadCapacity10", "READ_CAPACITY_10"),
                      ("pyscsi.pyscsi.scsi_cdb_report_luns:ReportLuns", "REPORT_LUNS"), ("pyscsi.pyscsi.scsi_cdb_read16:Read16", "READ_16")]


def check_history(prog, run, classes, preds):
    # every CDB the library builds, whatever was built just before it: each class again, right after a predecessor command
    # from each CDB length group (6 / 10 / 12 / 16 bytes); the predecessors' tables include one that is equal *by value*
    # to three other classes' tables ({"opcode": [0xFF, 0]})
    from ..images import same_value
    I = prog.I
    mod = prog.module(ENUM_MOD)
    nhist = 0
    for key, entry in refcdb.CDB.items():
        cls = classes[key]
        short = key.split(":")[1]
        alone = [c for c in construct_all(prog, key, entry, sets=None) if c.path.returned][:1]
        if not alone:
            continue
        con = alone[0]
        for pkey, popname in preds:
            if pkey == key:
                continue
            pcls = classes[pkey]
            pentry = refcdb.CDB[pkey]
            nhist += 1

            def th(con=con, entry=entry, pcls=pcls, pentry=pentry, popname=popname):
                pop = popname if not isinstance(popname, str) else mod.env["sbc"].members[popname]
                pkw = {n: domain_choices(n, d)[0][1]() for n, d in pentry["args"]}
                I.instantiate(pcls, [pop], pkw, None, _F("predecessor"))
                kw = {}
                for (n, d) in entry["args"]:
                    pick = [c for c in domain_choices(n, d) if c[0] == con.labels[n]][0]
                    kw[n] = pick[1]()
                later = I.instantiate(con.cls, [con.opcode], kw, None, _F("after predecessor"))
                return later, pub_attr(I, later, "cdb")
            for p in I.explore(th, max_paths=64):
                c = "%s built right after %s" % (short, pkey.split(":")[1])
                if not p.returned:
                    ec = p.raised.exc_class()
                    if ec is not None and ec.name == "MissingBlocksizeException":
                        continue
                    run.violation("cdb-independent-of-previous-command", c, "raises %s" % p.raised.describe(), prog.rel(cls.module), None, key)
                    continue
                got, want = p.value[1], con.pub.get("cdb")
                if same_value(got, want):
                    run.ok("cdb-independent-of-previous-command", c)
                else:
                    run.violation("cdb-independent-of-previous-command", c,
                                  "%s: the CDB is %r (%s bytes) instead of the %s bytes it has when built alone"
                                  % (c, got, len(got.cells) if isinstance(got, Buf) and got.cells is not None else "?",
                                     len(want.cells) if isinstance(want, Buf) and want.cells is not None else "?"),
                                  prog.rel(cls.module), None, key)
                break
    return nhist


def thorough(prog, run):
    """every command class built right after every other command class (42 x 41 ordered pairs)"""
    classes = {c.qualname: c for c in prog.command_classes()}
    preds = []
    for pkey, pentry in refcdb.CDB.items():
        ops = opcode_entries(prog, pentry["names"])
        if ops:
            preds.append((pkey, ops[0][2]))
    n = check_history(prog, run, classes, preds)
    run.count("history_constructions_all_pairs", n)


def bit_repr(x):
    if x in (0, 1):
        return x
    if x is None:
        return "?"
    return "^".join(sorted(atom_str(a) for a in x))


def show_bits(bits):
    return "[" + " ".join(str(bit_repr(b)) for b in bits[:24]) + (" ..." if len(bits) > 24 else "") + "]"
