"""C04 -- well-formed device responses are decoded to the values the device
sent (structural: tables, windows, strides, dispatch, no certain failure)."""
from __future__ import annotations

import itertools

from ..decoders import *
from ..decoders import _F
from ..rt import *
from ..tablecheck import check_tables, short, resolve_table
from spec import tables as reft
from ..values import *
from spec import responses as refr

PROGRAMMING_ERRORS = ("AttributeError", "NameError", "TypeError", "UnboundLocalError", "KeyError")


def decoder_kwargs(spec):
    if spec["kwargs"] is None:
        return None
    name, width = spec["kwargs"]
    return lambda: {name: Sym.param(name, width)}


def remap(fact, m):
    """apply a loop renaming to a reference fact"""
    def rp(p):
        if isinstance(p, tuple):
            if p and p[0] == "loop":
                return ("loop", m.get(p[1], p[1]), p[2])
            return tuple(rp(x) for x in p)
        return p
    if fact[0] in ("window", "stride"):
        return (fact[0], m.get(fact[1], fact[1])) + tuple(rp(x) for x in fact[2:])
    return tuple(rp(x) for x in fact)


def cond_holds(cond, found_conds):
    if cond[0] == "byte":
        _, pos, value, msb, lsb = cond
        for d, f in found_conds:
            if d and d[0] == "bytes" and d[1] == pos and (msb is None or d[2] == msb) and (lsb is None or d[4] == lsb):
                if f == ("eq", value):
                    return True
                if value == 1 and d[1] == d[3] and d[2] == d[4] and f[0] == "ne" and 0 in f[1]:
                    return True         # a one-bit field that is not 0
        return False
    if cond[0] == "param":
        _, name, op, v = cond
        for d, f in found_conds:
            if d == ("param", name):
                if op == "eq" and f == ("eq", v):
                    return True
                if op == "ne" and f[0] == "ne" and v in f[1]:
                    return True
        return False
    return False


def cond_other_value(cond, found_conds, per_path=()):
    """the decoder tests the very field of `cond` -- against another value, or other bits of that byte -- on some path
    that reaches the site: a description of what it tests, else None"""
    for conds in [found_conds] + list(per_path):
        r = _cond_other_value(cond, conds)
        if r:
            return r
    return None


def _cond_other_value(cond, found_conds):
    if cond[0] == "byte":
        _, pos, value, msb, lsb = cond
        for d, f in found_conds:
            if d and d[0] == "bytes" and d[1] == pos and (msb is None or d[2] == msb) and (lsb is None or d[4] == lsb):
                if f[0] == "eq" and f[1] != value:
                    return "== %#x" % f[1]
                if f[0] == "ne" and value in f[1]:
                    return "!= %#x" % value
        for d, f in found_conds:
            if d and d[0] == "bytes" and d[1] == pos and d[1] == d[3] and msb is not None and (d[2], d[4]) != (msb, lsb) \
                    and d[2] >= lsb and d[4] <= msb and f[0] == "eq":
                return "is tested in bits %d..%d (== %#x)" % (d[2], d[4], f[1])
    if cond[0] == "param":
        _, name, op, v = cond
        for d, f in found_conds:
            if d == ("param", name):
                if op == "eq" and f[0] == "eq" and f[1] != v:
                    return "== %r" % (f[1],)
                if op == "eq" and f[0] == "ne" and v in f[1]:
                    return "!= %r" % (v,)
                if op == "ne" and f == ("eq", v):
                    return "== %r" % (v,)
    return None


def match(reference, found, site_conds, reads, allowed):
    """returns (missing facts under the best loop renaming, mapping)"""
    ref_loops = sorted(set(x for f in reference for x in loops_in(f)))
    found_loops = sorted(set(x for f in found for x in loops_in(f)) | set(x for r in reads for x in loops_in(r)))
    best = None
    cands = list(itertools.permutations(found_loops, len(ref_loops))) if len(found_loops) >= len(ref_loops) else []
    if not cands:
        cands = [tuple(found_loops) + tuple(range(100, 100 + len(ref_loops) - len(found_loops)))]
    for perm in cands[:720]:
        m = dict(zip(ref_loops, perm))
        missing = []
        for rf in reference:
            f = deep_simplify(remap(rf, m))
            if f[0] == "site":
                key = ("site", f[1], f[2])
                if key not in found:
                    elsewhere = sorted(repr(x[2]) for x in found if x[0] == "site" and x[1] == f[1])
                    missing.append((rf, "the table is not applied at that position" + ((" (it is applied at %s)" % "; ".join(elsewhere[:3])) if elsewhere else ""),
                                    "contradicted" if elsewhere else "absent"))
                else:
                    for c in f[3]:
                        if not cond_holds(c, site_conds.get(key, ())):
                            other = cond_other_value(c, site_conds.get(key, ()), getattr(site_conds, "per_path", {}).get(key, ()))
                            missing.append((rf, "the table is applied there without the dispatch condition %r%s"
                                            % (c, (" (it is applied when that field %s)" % other) if other else ""),
                                            "contradicted" if other else "absent"))
            elif f[0] == "blob":
                keys = [("blob", f[1], f[2], ex) for ex in f[3] if ("blob", f[1], f[2], ex) in found]
                if not keys:
                    there = sorted(repr(x[2:]) for x in found if x[0] == "blob" and x[1] == f[1])
                    missing.append((rf, "%r is %s" % (f[1], ("taken from " + "; ".join(there)) if there else "not reported as a byte string"),
                                    "contradicted" if there else "absent"))
                else:
                    for c in f[4]:
                        if not any(cond_holds(c, site_conds.get(k, ())) for k in keys):
                            other = [cond_other_value(c, site_conds.get(k, ()), getattr(site_conds, "per_path", {}).get(k, ())) for k in keys]
                            missing.append((rf, "%r is taken from there without the condition %r" % (f[1], c),
                                            "contradicted" if any(other) else "absent"))
            elif f[0] == "read":
                if ("read", f[1], f[2]) not in reads:
                    missing.append((rf, "that field is not read", "absent"))
            elif f[0] == "stride":
                st = [x for x in found if x[0] == "stride" and x[1] == f[1]]
                if f[2][0] == "atleast":
                    ok = any(s[2][0] in ("atleast", "const") and s[2][1] >= f[2][1] for s in st)
                else:
                    ok = any(norm_stride(s[2]) == norm_stride(f[2]) for s in st)
                if not ok:
                    missing.append((rf, "the loop advances by %s" % ([s[2] for s in st],), "contradicted" if st else "absent"))
                for s in st:
                    if norm_stride(s[2]) != norm_stride(f[2]) and f[2][0] != "atleast" \
                            and norm_stride(s[2]) not in [norm_stride(a) for a in allowed]:
                        missing.append((rf, "a path advances the loop by %r" % (s[2],), "contradicted"))
            elif f[0] == "window":
                if f not in found:
                    ws = [x for x in found if x[0] == "window" and x[1] == f[1]]
                    missing.append((rf, "the loop walks %s" % (ws,), "contradicted" if ws else "absent"))
        if best is None or len(missing) < len(best[0]):
            best = (missing, m)
        if not missing:
            break
    return best


def rename_tables(prog, facts):
    """the reference names a table module:Class.attr; the library may keep that table elsewhere now (another module, a base
    class): site facts name it the way the decoder run sees it"""
    memo = getattr(prog, "_c04_table_names", None)
    if memo is None:
        memo = prog._c04_table_names = {}
    out = []
    for f in facts:
        if f and f[0] == "site" and isinstance(f[1], str) and ":" in f[1]:
            if f[1] not in memo:
                actual = f[1]
                try:
                    fields = (reft.TABLES.get(f[1]) or {}).get("fields")
                    t, _file, _line = resolve_table(prog, f[1], list(fields) if fields else None)
                    actual = prog.I.origin_of.get(id(t), f[1])
                except AnalysisError:
                    pass
                memo[f[1]] = actual
            f = (f[0], memo[f[1]]) + tuple(f[2:])
        out.append(f)
    return out


def loops_in(f):
    out = []

    def rec(p):
        if isinstance(p, tuple):
            if len(p) == 3 and p[0] == "loop" and isinstance(p[1], int):
                out.append(p[1])
            for x in p:
                rec(x)
    rec(f[2:] if f[0] in ("window", "stride") else f)
    if f[0] in ("window", "stride"):
        out.append(f[1])
    return out


def norm_stride(v):
    """one normal form for a stride, whether the body advances in several steps or adds one sum: the constants collected,
    every field read (and every other symbolic term) a term of its own"""
    if not isinstance(v, tuple) or not v or v[0] != "expr":
        return v
    total = v[1]
    terms = []

    def add(p):
        nonlocal total
        if isinstance(p, tuple) and p and p[0] == "expr":
            total += p[1]
            for t in p[2]:
                terms.append(("field", t))
            for t in (p[3] if len(p) > 3 else ()):
                terms.append(("other", t))
        elif isinstance(p, tuple) and p and p[0] == "const":
            total += p[1]
        else:
            terms.append(("part", p))
    for p in v[2]:
        add(p)
    if not terms:
        return ("const", total)
    return ("expr", total, tuple(sorted(terms, key=repr)))


def extraction_gaps(dps):
    """signs that the structural facts of a decoder are incomplete: a summarised loop over something other than the elements of
    a view for which no walked view / cursor and stride was identified, or a position without a normal form"""
    out = []
    for dp in dps:
        for l in dp.loops:
            if l["exit"] in ("raise", "return", "break"):
                continue
            it = l["raw"].get("iterable")
            if not l["vars"] and not isinstance(it, View):
                out.append("the loop at %s has no walked buffer and stride the analysis recognises" % l["where"])
        for kind in ("sites", "reads", "blobs"):
            for s in getattr(dp, kind):
                if "'?'" in repr(s.get("pos")) or "not-a-view" in repr(s.get("pos")) or "unknown" in repr(s.get("len")):
                    out.append("a buffer position at %s has no normal form (%s)" % (s.get("where"), repr(s.get("pos"))[:80]))
    seen = []
    for x in out:
        if x not in seen:
            seen.append(x)
    return seen


def check(prog, run):
    I = prog.I
    run.explanation = ("(1) every response / mode-page / sense table is specialised through decode_bits and compared bit for bit with "
                       "an independent reference in the standards' coordinates (spec/tables.py); (2) every unmarshall_datain is "
                       "abstractly interpreted on a symbolic device buffer: the parse window, the descriptor stride of each loop, "
                       "the position and the dispatch condition of every decode site are extracted in a normal form (independent of "
                       "variable names and slicing idiom) and compared with the reference structure (spec/responses.py); (3) no "
                       "path of a decoder may end in a programming error (AttributeError / NameError / TypeError)")
    run.rule_text = "one obligation per table field, per reference structure fact, per decoder path"
    run.trusted += ["spec/tables.py, spec/responses.py (hand transcriptions)"]
    run.assumptions += ["a well-formed response is at least as long as its fixed part (short buffers are C11's concern)",
                        "READ CD per-sector layout, T10 texts and the ATA Information VPD page are not decided"]
    undecided_shapes = []
    check_tables(prog, run, {"response", "both", "sense"}, rule_prefix="table")
    ndec = 0
    for name, spec in refr.DECODERS.items():
        modname, clsname = spec["cls"].split(":")
        cls = prog.cls(modname, clsname)
        f = prog.func(modname, clsname, spec["func"])
        file = prog.rel(f.module)
        ndec += 1
        c = "%s.%s" % (clsname, spec["func"])
        try:
            dps = explore_decoder(prog, cls, spec["func"], kwargs=decoder_kwargs(spec))
        except AnalysisError as e:
            if e.reason != "static-loop-does-not-terminate":
                raise
            run.violation("decoder-does-not-crash", c, "%s never returns: the loop at %s cannot terminate (its test does not depend on "
                          "anything the body changes)" % (c, e.detail), file, f.node.lineno, f.qualname)
            continue
        # (3) programming errors
        bad = [dp for dp in dps if dp.raised is not None and dp.raised.exc_class() is not None
               and dp.raised.exc_class().name in PROGRAMMING_ERRORS]
        if bad:
            all_bad = len(bad) == len(dps)
            run.violation("decoder-does-not-crash", c,
                          "%s: %s path(s) end in %s%s" % (c, "all" if all_bad else "%d of %d" % (len(bad), len(dps)), bad[0].raised.describe(),
                                                          "" if all_bad else " [when %s]" % bad[0].p.cond_str()[:200]),
                          file, f.node.lineno, f.qualname)
            if all_bad:
                continue
        else:
            run.ok("decoder-does-not-crash", c, {"paths": len(dps)})
        # one container reported under two keys: what is decoded into one shows up in the other
        shared = None
        for dp in dps:
            if dp.returned and isinstance(dp.value, dict):
                seen = {}
                stack = [("", dp.value)]
                while stack:
                    path, d = stack.pop()
                    for k, v in d.items():
                        if isinstance(v, dict) and k != "**":
                            if id(v) in seen:
                                shared = (seen[id(v)], "%s[%r]" % (path, k))
                            else:
                                seen[id(v)] = "%s[%r]" % (path, k)
                                stack.append(("%s[%r]" % (path, k), v))
        if shared:
            run.violation("result-fields-distinct", "%s result%s and result%s" % (c, shared[0], shared[1]),
                          "the decoder reports one and the same dictionary as result%s and as result%s: each shows the other's fields"
                          % shared, file, f.node.lineno, f.qualname)
        else:
            run.ok("result-fields-distinct", c, nontrivial=False)
        facts, site_conds, order = facts_of(I, dps)
        reads = set()
        order2 = list(order)
        for dp in dps:
            for r in dp.reads:
                if r["len"] is not None:
                    reads.add(("read", simplify(canon_pos(r["pos"], order2)), r["len"]))
        missing, m = match(rename_tables(prog, spec["facts"]), facts, site_conds, reads, spec["allowed"])
        if missing:
            gaps = extraction_gaps(dps)
            if not gaps and any(rf[0] in ("window", "stride") for rf, _, _k in missing) and not any(l["vars"] for dp in dps for l in dp.loops):
                gaps = ["no loop of the decoder was recognised as a walk over the buffer (a comprehension or generator over "
                        "computed positions?)"]
            if gaps:
                # the decoder walks its buffer in a way the fact extraction does not follow (its loops or positions came out
                # without a normal form): what is "missing" may simply not have been seen.  Undecided, not a violation.
                undecided_shapes.append("%s: %s" % (c, "; ".join(gaps[:3])))
                continue
        miss_keys = set()
        for rf, why, kind in missing:
            key = repr(rf)
            if key in miss_keys:
                continue
            miss_keys.add(key)
            if kind == "absent":
                # nothing comparable was extracted from the decoder: that may be the decoder's fault or the extraction's (a
                # spelling it does not normalise) -- not decided here; the behavioural rules below and C06 see real omissions
                undecided_shapes.append("%s: %s -- %s" % (c, describe_fact(rf), why))
                continue
            run.violation("response-structure", "%s %s" % (c, describe_fact(rf)),
                          "the standard requires %s; %s" % (describe_fact(rf), why), file, f.node.lineno, f.qualname,
                          facts={"reference": repr(rf), "found": sorted(repr(x) for x in facts if x[0] == rf[0])[:12]})
        for rf in spec["facts"]:
            if repr(rf) not in miss_keys:
                run.ok("response-structure", "%s %s" % (c, describe_fact(rf)))
        # facts beyond the reference: evidence only
        known_sites = set((rf[1], ) for rf in spec["facts"] if rf[0] == "site")
        for x in facts:
            if x[0] == "site" and (x[1],) not in known_sites:
                run.notes.append("%s also applies %s at %r" % (c, short(x[1]), x[2]))
    # the shortest responses the standards allow: exactly that many bytes, format-selecting bytes fixed, the rest arbitrary
    nmin = 0
    for case in refr.MINIMAL:
        modname, clsname = case["cls"].split(":")
        cls = prog.cls(modname, clsname)
        f = prog.func(modname, clsname, "unmarshall_datain")
        nmin += 1

        def thm(case=case, cls=cls, form=None):
            cells = [case["fixed"].get(i, mem_byte("resp", (None, i))) for i in range(case["length"])]
            fn = I.get_attr(cls, "unmarshall_datain", None, _F())
            buf = Buf(cells=cells)
            buf.pytype = form          # None: a bytearray; "bytes" / "memoryview": the other byte buffers a transport may hand over
            return I.call(fn, [buf], dict(case["kwargs"]), None, _F())
        c = "%s.unmarshall_datain on %s (%d bytes)" % (clsname, case["note"], case["length"])
        # the same response as an immutable bytes object and as a memoryview: decoding reads the buffer, it needs nothing else of it
        for form in ("bytes", "memoryview"):
            try:
                psf = I.explore(lambda form=form: thm(form=form), max_paths=400)
            except AnalysisError as e:
                if e.reason in ("path-limit",):
                    continue
                if e.reason != "static-loop-does-not-terminate":
                    raise
                run.violation("minimum-length-response-decodes", c + " given as " + form, "the decoder never returns (%s)" % e.detail,
                              prog.rel(f.module), f.node.lineno, f.qualname)
                continue
            badf = [p for p in psf if not p.returned]
            if badf:
                run.violation("minimum-length-response-decodes", c + " given as " + form,
                              "the same conformant response handed over as a %s object makes the decoder raise %s"
                              % (form, badf[0].raised.describe()), prog.rel(f.module), f.node.lineno, f.qualname)
            else:
                run.ok("minimum-length-response-decodes", c + " given as " + form, nontrivial=False)
        try:
            ps = I.explore(thm, max_paths=400)
            if case.get("count"):
                # ... and once more with every set iterated in the opposite order: what is reported, and in which order,
                # must not depend on it
                I.set_order_reversed = True
                try:
                    ps = ps + I.explore(thm, max_paths=400)
                finally:
                    I.set_order_reversed = False
        except AnalysisError as e:
            if e.reason == "path-limit":
                run.notes.append("%s: undecided (%s)" % (c, e.detail))     # the other C04 rules still apply to this decoder
                continue
            if e.reason != "static-loop-does-not-terminate":
                raise
            run.violation("minimum-length-response-decodes", c, "the decoder never returns on this response (%s)" % e.detail,
                          prog.rel(f.module), f.node.lineno, f.qualname)
            continue
        bad = [p for p in ps if not p.returned]
        if bad:
            run.violation("minimum-length-response-decodes", c,
                          "a conformant response of exactly %d bytes (%s) makes the decoder raise %s%s"
                          % (case["length"], case["note"], bad[0].raised.describe(), (" [when %s]" % bad[0].cond_str()[:160]) if bad[0].path else ""),
                          prog.rel(f.module), f.node.lineno, f.qualname)
        else:
            run.ok("minimum-length-response-decodes", c, {"paths": len(ps)})
            if case.get("count"):
                key, n = case["count"]
                got = set()
                for p in ps:
                    v = p.value.get(key) if isinstance(p.value, dict) else None
                    got.add(len(v) if isinstance(v, list) and not I.list_is_summary(v) else repr(v)[:60])
                disorder = None
                for p in ps:
                    v = p.value.get(key) if isinstance(p.value, dict) else None
                    if isinstance(v, list) and not I.list_is_summary(v):
                        firsts = [first_position(x) for x in v]
                        if all(f is not None for f in firsts) and firsts != sorted(firsts):
                            disorder = firsts
                if got == {n} and disorder:
                    run.violation("everything-inside-the-length-is-returned", c + " (order)",
                                  "result[%r] lists what the response carries at bytes %s in that order: not the order the device sent "
                                  "(or an order that depends on how a set happens to be iterated)" % (key, disorder),
                                  prog.rel(f.module), f.node.lineno, f.qualname)
                elif got == {n}:
                    run.ok("everything-inside-the-length-is-returned", c)
                else:
                    run.violation("everything-inside-the-length-is-returned", c,
                                  "the response carries %d entries inside its reported length; result[%r] has %s"
                                  % (n, key, sorted(got, key=repr)), prog.rel(f.module), f.node.lineno, f.qualname)
    run.count("minimal_responses", nmin)
    for name in refr.UNCONSTRAINED_DECODERS:
        run.unconstrained.append(name)
    run.count("decoders", ndec)
    run.floor("decoders with reference structure", ndec, 15)
    if undecided_shapes and not any((run.pid, v["rule"], v["construct"]) not in run.known for v in run.violations):
        raise AnalysisError("decoder-shape-not-understood", "; ".join(undecided_shapes[:2]))
    for u in undecided_shapes:
        run.notes.append("structure not decided: " + u)


def first_position(v):
    """the lowest response byte a decoded value is made of (None when it carries no device bits)"""
    out = []

    def rec(x):
        x = norm_int(x)
        if isinstance(x, Sym) and x.bits is not None:
            for b in x.bits:
                if isinstance(b, frozenset):
                    for a in b:
                        if a is not True and a[0] == "m" and isinstance(a[2], tuple) and isinstance(a[2][1], int):
                            out.append(a[2][1])
        elif isinstance(x, dict):
            for y in x.values():
                rec(y)
        elif isinstance(x, (list, tuple)):
            for y in x:
                rec(y)
        elif isinstance(x, Buf) and x.cells is not None:
            for y in x.cells:
                rec(y)
    rec(v)
    return min(out) if out else None


def describe_fact(f):
    if f[0] == "site":
        return "table %s at %s%s" % (short(f[1]), show_pos(f[2]), (" when " + " and ".join(show_cond(c) for c in f[3])) if f[3] else "")
    if f[0] == "window":
        return "descriptors of loop %d in bytes [%s, %s + %s)" % (f[1], show_pos(f[2]), show_pos(f[3][0]), show_len(f[3][1]))
    if f[0] == "stride":
        return "loop %d advancing by %s" % (f[1], show_stride(f[2]))
    if f[0] == "read":
        return "a %d-byte field read at %s" % (f[2], show_pos(f[1]))
    if f[0] == "blob":
        return "%r = the bytes from %s, %s%s" % (f[1], show_pos(f[2]), " or ".join(show_extent(x) for x in f[3]),
                                                (" when " + " and ".join(show_cond(c) for c in f[4])) if f[4] else "")
    return repr(f)


def show_extent(x):
    if x[0] == "const":
        return "%d bytes" % x[1]
    if x[0] == "to":
        return "up to %s + %s" % (show_pos(x[1]), show_len(x[2]))
    return repr(x)


def show_pos(p):
    if p[0] == "abs":
        return "byte %d" % p[1]
    if p[0] == "loop":
        return "descriptor[%d]+%d" % (p[1], p[2])
    if p[0] == "dyn":
        return "(%s + %s)+%d" % (show_pos(p[1]), show_len(p[2]), p[3])
    return repr(p)


def show_len(e):
    if e[0] == "const":
        return str(e[1])
    if e[0] == "expr":
        parts = [str(e[1])] if e[1] else []
        for c, pos, n in e[2]:
            parts.append("%sfield(%s,%d bytes)" % ("" if c == 1 else "%d*" % c, show_pos(pos), n))
        return " + ".join(parts) or "0"
    return repr(e)


def show_stride(s):
    if s[0] == "const":
        return "%d bytes" % s[1]
    if s[0] == "atleast":
        return "at least %d bytes" % s[1]
    if s[0] == "expr":
        return " + ".join([str(s[1])] * (1 if s[1] else 0) + [show_len(x) for x in s[2]])
    return repr(s)


def show_cond(c):
    if c[0] == "byte":
        return "field at %s%s == %#x" % (show_pos(c[1]), "" if c[3] is None else " bits %d..%d" % (c[3], c[4]), c[2])
    return "%s %s %r" % (c[1], c[2], c[3])
