"""C17 -- invalid requests are refused before anything is sent."""
from __future__ import annotations

import copy

from ..cmdeval import *
from ..cmdeval import _F
from ..facade_eval import *
from ..rt import *
from ..standin import StandIn
from ..values import *
from .c03 import make_scsi_device, slot, put
from spec import cdb as refcdb
from spec import xcopy as refxcopy
from spec import facade as reffacade
from spec import opcodes as refop

BLOCK_RULES = ("blocks-in", "blocks-out", "one-block-out")


def replace_domain(args, name, dom):
    return [(n, dom if n == name else d) for n, d in args]


def check(prog, run):
    from .c03 import prime_layouts
    prime_layouts(prog)
    I = prog.I
    _sc = prog.cls(CMD_MOD, "SCSICommand")
    base_mbe = prog.read_class_attr(_sc, "MissingBlocksizeException")
    base_mbe = base_mbe if isinstance(base_mbe, ClassVal) else None
    run.explanation = ("refusals are decided on the abstract interpretation of constructors, validators and facade methods with "
                       "the offending input fixed and everything else symbolic: every path must end in the specific exception, "
                       "before SCSICommand.__init__ has run (no partially initialised command) and with zero hand-overs to the "
                       "stand-in binding; conversely the same call with the valid input must not be refused")
    run.rule_text = "one obligation per (refusal site, command set, other-argument choice, path)"
    run.trusted += ["spec/cdb.py data-phase rules (which commands need a block size)", "stand-in transport model"]
    classes = {c.qualname: c for c in prog.command_classes()}
    n_guard = 0
    # (a) block transfer without block size
    for key, entry in refcdb.CDB.items():
        rule = entry["data"]
        cls = classes.get(key)
        if cls is None:
            raise AnalysisError("anchor-missing", key)
        file = prog.rel(cls.module)
        line = cls.lookup("__init__")[0].node.lineno
        short = key.split(":")[1]
        if rule[0] in BLOCK_RULES:
            n_guard += 1
            args0 = replace_domain(entry["args"], "blocksize", ("enum", [0]))
            for con in construct_all(prog, key, entry, sets=None, args_override=args0):
                ndob = con.labels.get("ndob")
                exempt = rule[0] == "one-block-out" and rule[3] is not None and ndob == "1"
                inits = [e for e in con.path.events if e["kind"] == "base-init"]
                c = "%s blocksize=0" % short
                if exempt:
                    if con.path.returned:
                        run.ok("blocksize-refusal", c + " ndob=1", {"note": "no data-out buffer: block size not needed"})
                    continue
                ec = con.path.raised.exc_class() if not con.path.returned else None
                if con.path.returned:
                    run.violation("blocksize-refusal", c, "%s is constructed with block size 0 (%s): buffers would be sized 0 x n"
                                  % (short, con.label()), file, line, key)
                elif ec is None or ec.name != "MissingBlocksizeException":
                    run.violation("blocksize-refusal", c, "block size 0 raises %s, not MissingBlocksizeException" % con.path.raised.describe(),
                                  file, line, key)
                elif base_mbe is not None and base_mbe not in ec.mro():
                    owner = getattr(ec, "injected_into", None)
                    run.violation("blocksize-refusal", c + " (exception class)",
                                  "the refusal raises %s.MissingBlocksizeException, a class of the same name that is unrelated to "
                                  "SCSICommand.MissingBlocksizeException (the metaclass gives every command class its own): `except "
                                  "SCSICommand.MissingBlocksizeException`, which every other command's refusal satisfies, does not catch it"
                                  % (owner.name if owner is not None else "?"), file, line, key)
                elif inits:
                    run.violation("refusal-before-initialisation", c,
                                  "the refusal comes after SCSICommand.__init__ has run: a partially initialised command exists", file, line, key)
                else:
                    run.ok("blocksize-refusal", c, {"case": con.label()})
        elif rule[0] == "ata":
            n_guard += 1
            args0 = replace_domain(entry["args"], "blocksize", ("enum", [0]))
            for con in construct_all(prog, key, entry, sets=None, args_override=args0):
                a = con.args
                need = bool(con.labels["byte_block"] == "1" and con.labels["t_type"] == "1" and con.labels["t_length"] != "0")
                c = "%s blocksize=0" % short
                ec = con.path.raised.exc_class() if not con.path.returned else None
                inits = [e for e in con.path.events if e["kind"] == "base-init"]
                if need:
                    if con.path.returned or ec is None or ec.name != "MissingBlocksizeException":
                        run.violation("blocksize-refusal", c, "ATA transfer in logical-sector units without block size is not refused (%s): %s"
                                      % (con.label(), "constructed" if con.path.returned else con.path.raised.describe()), file, line, key)
                    elif base_mbe is not None and base_mbe not in ec.mro():
                        owner = getattr(ec, "injected_into", None)
                        run.violation("blocksize-refusal", c + " (exception class)",
                                      "the refusal raises %s.MissingBlocksizeException, a class of the same name that is unrelated to "
                                      "SCSICommand.MissingBlocksizeException (the metaclass gives every command class its own): `except "
                                      "SCSICommand.MissingBlocksizeException`, which every other command's refusal satisfies, does not catch it"
                                      % (owner.name if owner is not None else "?"), file, line, key)
                    elif inits:
                        run.violation("refusal-before-initialisation", c, "refusal after SCSICommand.__init__", file, line, key)
                    else:
                        run.ok("blocksize-refusal", c, {"case": con.label()})
                else:
                    if not con.path.returned:
                        run.violation("no-spurious-refusal", c, "refused although no block size is needed (%s): %s"
                                      % (con.label(), con.path.raised.describe()), file, line, key)
                    else:
                        run.ok("no-spurious-refusal", c)
    run.count("blocksize_guards", n_guard)
    run.floor("block-size guarded constructors", n_guard, 10)
    check_opcode_refusal(prog, run)
    check_prin(prog, run)
    check_xcopy(prog, run)
    check_transport_id(prog, run)


def check_opcode_refusal(prog, run):
    """an operation code without a fixed CDB length is refused when a command is built with it"""
    I = prog.I
    opcls = prog.cls("pyscsi.pyscsi.scsi_opcode", "OpCode")
    tur = prog.cls("pyscsi.pyscsi.scsi_cdb_testunitready", "TestUnitReady")
    file = prog.rel(prog.module(CMD_MOD))
    install_watches(prog)
    # (and values that are no operation code at all: beyond one byte, or negative -- a table indexed by them would wrap around)
    for v in (0x60, 0x7E, 0x7F, 0xC0, 0xD5, 0xFF, 0x100, 0x112, 0x7FF, -1, -18, -94, -120, -238, -256):
        def t(v=v):
            op = I.instantiate(opcls, ["X", v, {}], {}, None, _F())
            return I.instantiate(tur, [op], {}, None, _F())
        for p in I.explore(t, max_paths=4):
            c = "command with opcode %s" % (("%#04x" % v) if v >= 0 else str(v))
            ec = p.raised.exc_class() if not p.returned else None
            if p.returned or ec is None or ec.name != "OpcodeException":
                run.violation("opcode-refusal", c, "opcode %s (no fixed CDB length) is not refused with OpcodeException" % c.split()[-1], file, None)
            elif any(e["kind"] == "attr-store" and e["name"] in ("_dataout", "_datain") for e in p.events):
                run.violation("refusal-before-initialisation", c, "buffers are allocated before the opcode is refused", file, None)
            else:
                run.ok("opcode-refusal", c)


def check_prin(prog, run):
    fspec = reffacade.FACADE["persistentreservein"]
    methods = facade_methods(prog)
    fn = methods.get("persistentreservein")
    if fn is None:
        raise AnalysisError("anchor-missing", "SCSI.persistentreservein")
    file = prog.rel(fn.module)
    for setname in sets_offering(prog, fspec):
        for sa in (0x04, 0x05, 0x1F, 0x100, -1, -2, -3, -4, -5):
            for fp in eval_facade(prog, "persistentreservein", fspec, setname, "none", check_condition="never", sa=sa):
                p = fp.path
                c = "SCSI.persistentreservein service_action=%s on %s" % (("%#x" % sa) if sa >= 0 else sa, setname)
                sg = [e for i, e in fp.events("external-call") if e["name"] == "sgio.execute"]
                ec = p.raised.exc_class() if not p.returned else None
                if p.returned or ec is None or ec.name != "ValueError":
                    run.violation("unknown-service-action-refused", c, "not refused with ValueError (%s)"
                                  % ("returns a command" if p.returned else p.raised.describe()), file, fn.node.lineno, fn.qualname)
                elif sg:
                    run.violation("nothing-sent-on-refusal", c, "a command reaches the device before the refusal", file, fn.node.lineno, fn.qualname)
                else:
                    run.ok("unknown-service-action-refused", c)


def check_xcopy(prog, run):
    I = prog.I
    for modname, facade_name in (("pyscsi.pyscsi.scsi_cdb_extended_copy_spc4", "extendedcopy4"),
                                 ("pyscsi.pyscsi.scsi_cdb_extended_copy_spc5", "extendedcopy5")):
        cls = prog.cls(modname, "ExtendedCopy")
        file = prog.rel(cls.module)
        tkey = "target_descriptor_list" if facade_name == "extendedcopy4" else "cscd_descriptor_list"
        good_target = {"descriptor_type_code": 0xE4, "peripheral_device_type": 0x00,
                       "target_descriptor_parameters" if facade_name == "extendedcopy4" else "cscd_descriptor_parameters":
                           {"code_set": 1, "designator_type": 3, "association": 0,
                            "designator": {"naa": 5, "ieee_company_id": 0x123456, "vendor_specific_identifier": 0x1}},
                       "device_type_specific_parameters": {"disk_block_length": 512}}
        good_segment = {"descriptor_type_code": 0x02, "dc": 0, "cat": 0, "source_target_descriptor_id" if facade_name == "extendedcopy4" else "source_cscd_descriptor_id": 0,
                        "destination_target_descriptor_id" if facade_name == "extendedcopy4" else "destination_cscd_descriptor_id": 1,
                        "block_device_number_of_blocks": 8, "source_block_device_logical_block_address": 0,
                        "destination_block_device_logical_block_address": 0}
        cases = []
        t = copy.deepcopy(good_target); t["bogus_key"] = 1
        cases.append(("target with unknown key", [t], [], "ValueError"))
        t = copy.deepcopy(good_target); t["descriptor_type_code"] = 0x99
        cases.append(("target with unknown descriptor type code", [t], [], "ValueError"))
        t = copy.deepcopy(good_target); t["peripheral_device_type"] = 0x77
        cases.append(("target with unknown device type", [t], [], "ValueError"))
        # every peripheral device type: the ones this version of the standard defines descriptor parameters for are accepted,
        # every other one is refused (the two versions differ: 04h and 07h are SPC-4 only)
        for dt in range(32):
            t = copy.deepcopy(good_target); t["peripheral_device_type"] = dt
            if dt not in refxcopy.BLOCK_TYPES:
                t["device_type_specific_parameters"] = {}
            cases.append(("target with peripheral device type %02Xh" % dt, [t], [],
                          None if dt in refxcopy.DEVICE_TYPES[facade_name] else "ValueError"))
        t = copy.deepcopy(good_target); t["lu_id_type"] = 1
        cases.append(("target with unsupported lu_id_type", [t], [], "ValueError"))
        s = copy.deepcopy(good_segment); s["bogus_key"] = 1
        cases.append(("segment with unknown key", [], [s], "ValueError"))
        s = copy.deepcopy(good_segment); s["descriptor_type_code"] = 0x99
        cases.append(("segment with unknown descriptor type code", [], [s], "ValueError"))
        s = copy.deepcopy(good_segment); del s["descriptor_type_code"]
        cases.append(("segment without descriptor type code", [], [s], "ValueError"))
        # ... and the same with every field the descriptor kind knows spelled out next to the unknown key (a validator that
        # looks at the missing keys, or at the first key only, accepts these), and with near-miss / non-string keys
        def table_keys(prefixes):
            out = []
            for name, v in sorted(cls.attrs.items()):
                if any(name.startswith(pf) for pf in prefixes) and isinstance(v, dict) and v \
                        and all(isinstance(k, str) and isinstance(e, list) for k, e in v.items()):
                    out.append((name, list(v)))
            return out
        for name, keys in table_keys(("_target_descriptor_bits", "_cscd_descriptor_bits")):
            t = copy.deepcopy(good_target)
            for k in keys:
                t.setdefault(k, 0)
            for bogus in ("bogus_key", "Lu_id_type", 7):
                tt = dict(t); tt[bogus] = 1
                cases.append(("target with every key of %s and unknown key %r" % (name, bogus), [tt], [], "ValueError"))
        for name, keys in table_keys(("_segment_descriptor_bits_block_to_block",)):
            sg_ = copy.deepcopy(good_segment)
            for k in keys:
                sg_.setdefault(k, 0)
            for bogus in ("bogus_key", "CAT", 7):
                ss = dict(sg_); ss[bogus] = 1
                cases.append(("segment with every key of %s and unknown key %r" % (name, bogus), [], [ss], "ValueError"))
        scsi_cls = prog.cls(SCSI_MOD, "SCSI")
        enum = prog.module(ENUM_MOD).env["spc"]
        for label, targets, segments, want in cases:
            si = StandIn(prog, check_condition="never").install()
            try:
                def th(targets=targets, segments=segments):
                    dev = make_scsi_device(prog)
                    put(prog, dev, "opcodes", enum)
                    sobj = Instance(scsi_cls)
                    sobj.attrs["device"] = dev
                    put(prog, sobj, "blocksize", 0)
                    bm = I.get_attr(sobj, facade_name, None, _F())
                    return I.call(bm, [], {tkey: copy.deepcopy(targets), "segment_descriptor_list": copy.deepcopy(segments)}, None, _F())
                ps = I.explore(th, max_paths=64)
            finally:
                si.remove()
            c = "%s %s" % (facade_name, label)
            for p in ps:
                sg = [e for e in p.events if e["kind"] == "external-call" and e["name"] == "sgio.execute"]
                ec = p.raised.exc_class() if not p.returned else None
                if want is None:
                    if p.returned:
                        run.ok("no-spurious-refusal", c)
                    else:
                        run.violation("no-spurious-refusal", c, "%s is refused (%s) although the standard defines it for this command"
                                      % (label, p.raised.describe()), file, cls.node.lineno, cls.qualname)
                elif p.returned or ec is None or ec.name != want:
                    run.violation("xcopy-descriptor-refused", c, "%s: %s" % (label, "accepted" if p.returned else "raises " + p.raised.describe()),
                                  file, cls.node.lineno, cls.qualname)
                elif sg:
                    run.violation("nothing-sent-on-refusal", c, "a command reaches the device before the refusal", file, cls.node.lineno, cls.qualname)
                else:
                    run.ok("xcopy-descriptor-refused", c)
        # and the valid descriptors are accepted (the validators are not vacuous)
        si = StandIn(prog, check_condition="never").install()
        try:
            def th2():
                dev = make_scsi_device(prog)
                put(prog, dev, "opcodes", enum)
                sobj = Instance(scsi_cls)
                sobj.attrs["device"] = dev
                put(prog, sobj, "blocksize", 0)
                bm = I.get_attr(sobj, facade_name, None, _F())
                return I.call(bm, [], {tkey: [copy.deepcopy(good_target)], "segment_descriptor_list": [copy.deepcopy(good_segment)]}, None, _F())
            ps = I.explore(th2, max_paths=64)
        finally:
            si.remove()
        for p in ps:
            c = "%s valid descriptors" % facade_name
            if p.returned:
                run.ok("no-spurious-refusal", c)
            else:
                run.violation("no-spurious-refusal", c, "valid descriptors are refused: %s" % p.raised.describe(), file, cls.node.lineno, cls.qualname)


def check_transport_id(prog, run):
    I = prog.I
    cls = prog.cls("pyscsi.pyscsi.scsi_cdb_persistentreservein", "PersistentReserveInReadFullStatus")
    f = prog.func("pyscsi.pyscsi.scsi_cdb_persistentreservein", "PersistentReserveInReadFullStatus", "marshall_transport_id")
    file = prog.rel(f.module)
    iscsi = 0x05
    cases = [("format flag without session id", {"protocol_id": iscsi, "tpid_format": 1, "iscsi_name": "iqn.a"}, "ValueError"),
             ("session id without format flag", {"protocol_id": iscsi, "iscsi_name": "iqn.a", "iscsi_initiator_session_id": "0123"}, "ValueError"),
             ("session id with format flag 0", {"protocol_id": iscsi, "tpid_format": 0, "iscsi_name": "iqn.a", "iscsi_initiator_session_id": "0123"}, "ValueError"),
             # (formats 10b / 11b are reserved: a TransportID that claims one and has no session id is as inconsistent as 01b)
             ("format 10b without session id", {"protocol_id": iscsi, "tpid_format": 2, "iscsi_name": "iqn.a"}, "ValueError"),
             ("format 11b without session id", {"protocol_id": iscsi, "tpid_format": 3, "iscsi_name": "iqn.a"}, "ValueError"),
             ("format flag True without session id", {"protocol_id": iscsi, "tpid_format": True, "iscsi_name": "iqn.a"}, "ValueError"),
             ("consistent, format 0", {"protocol_id": iscsi, "tpid_format": 0, "iscsi_name": "iqn.a"}, None),
             ("consistent, format 1", {"protocol_id": iscsi, "tpid_format": 1, "iscsi_name": "iqn.a", "iscsi_initiator_session_id": "0123"}, None)]
    fspec = reffacade.FACADE["persistentreserveout"]
    scsi_cls = prog.cls(SCSI_MOD, "SCSI")
    enum = prog.module(ENUM_MOD).env["spc"]
    for label, d, want in cases:
        si = StandIn(prog, check_condition="never").install()
        try:
            def th(d=d):
                dev = make_scsi_device(prog)
                put(prog, dev, "opcodes", enum)
                sobj = Instance(scsi_cls)
                sobj.attrs["device"] = dev
                put(prog, sobj, "blocksize", 0)
                bm = I.get_attr(sobj, "persistentreserveout", None, _F())
                return I.call(bm, [0x07], {"transport_id": dict(d), "reservation_key": Sym.param("rk", 64)}, None, _F())
            ps = I.explore(th, max_paths=64)
        finally:
            si.remove()
        c = "TransportID %s" % label
        for p in ps:
            sg = [e for e in p.events if e["kind"] == "external-call" and e["name"] == "sgio.execute"]
            ec = p.raised.exc_class() if not p.returned else None
            if want is None:
                if p.returned and len(sg) == 1:
                    run.ok("no-spurious-refusal", c)
                else:
                    run.violation("no-spurious-refusal", c, "a consistent TransportID is refused / not sent: %s"
                                  % (p.raised.describe() if not p.returned else "%d commands" % len(sg)), file, f.node.lineno, f.qualname)
            elif p.returned or ec is None or ec.name != want:
                run.violation("inconsistent-transport-id-refused", c, "%s: %s" % (label, "accepted" if p.returned else "raises " + p.raised.describe()),
                              file, f.node.lineno, f.qualname)
            elif sg:
                run.violation("nothing-sent-on-refusal", c, "a command reaches the device before the refusal", file, f.node.lineno, f.qualname)
            else:
                run.ok("inconsistent-transport-id-refused", c)
