"""C11 -- decoding device data always terminates, whatever the bytes."""
from __future__ import annotations

import ast

from ..astutil import norm
from .. import regexcheck
from ..codec import decode_entry, entry_kind
from ..decoders import *
from ..rt import *
from ..values import *
from spec import responses as refr


def sym_lower_bound(sym, facts):
    sym = norm_int(sym)
    if isinstance(sym, int):
        return sym
    if not isinstance(sym, Sym):
        return None
    lo = sym.lo
    f = facts.get(("sym", sym.key()))
    if f is not None:
        if f[0] == "eq" and isinstance(f[1], int):
            return f[1]
        if f[0] == "range":
            lo = max(lo, f[1][0])
        if f[0] == "ne":
            while lo in f[1]:
                lo += 1
    return lo


def mem_derived(sym):
    sym = norm_int(sym)
    if not isinstance(sym, Sym):
        return False
    if sym.bits is not None:
        for b in sym.bits:
            if b not in (0, 1):
                for a in b:
                    if a is not True and a[0] == "m":
                        return True
    if sym.poly is not None:
        for mono in sym.poly:
            for x in mono:
                if isinstance(x, tuple) and x and x[0] == "rd":
                    return True
    return False


def lower_bound_by_value(sym, facts):
    """sym_lower_bound, also finding the path facts recorded for another object with the same value (same polynomial)"""
    lb = sym_lower_bound(sym, facts)
    sym = norm_int(sym)
    if isinstance(sym, Sym) and sym.poly is not None:
        from ..values import p_key
        want = p_key(sym.poly)
        for k, f in facts.items():
            if isinstance(k, tuple) and len(k) == 2 and k[0] == "sym" and isinstance(k[1], tuple) and len(k[1]) == 2 and k[1][1] == want:
                cand = sym.lo if sym.lo is not None else 0
                if f[0] == "eq" and isinstance(f[1], int):
                    cand = f[1]
                elif f[0] == "range":
                    cand = max(cand, f[1][0])
                elif f[0] == "ne":
                    while cand in f[1]:
                        cand += 1
                lb = cand if lb is None else max(lb, cand)
    return lb


def advance_lower_bound(I, l, dp, p, cname, depth=0):
    """how far the cursor `cname` advances at least over one iteration of loop record l (None: not by adding)"""
    name = cname[2]
    end = l["raw"]["end"].get(name)
    es = I.cursor_split(end, registered=False)
    if es is not None and es[0] == cname:
        return lower_bound_by_value(es[1], p.facts)
    # the variable went through an inner loop: what it had advanced before that loop is a lower bound, provided the inner
    # loop itself only ever adds to it
    endv = norm_int(end)
    if isinstance(endv, Sym) and endv.poly is not None and depth < 3:
        afters = [m[0] for m in endv.poly if len(m) == 1 and isinstance(m[0], tuple) and m[0][:1] == ("after",)]
        if len(afters) == 1 and endv.poly.get((afters[0],)) == 1:
            inner_id = afters[0][1]
            for l2 in dp.loops:
                if l2["raw"]["loop"] == inner_id and name in l2["raw"]["pre"]:
                    inner_c = ("loopvar", inner_id, name)
                    inner_adv = advance_lower_bound(I, l2, dp, p, inner_c, depth + 1)
                    if l2["exit"] in ("raise", "return"):
                        continue
                    if inner_adv is None or inner_adv < 0:
                        return None
                    before = I.cursor_split(l2["raw"]["pre"][name], registered=False)
                    if before is not None and before[0] == cname:
                        lb = lower_bound_by_value(before[1], p.facts)
                        rest = {m: c for m, c in endv.poly.items() if m != (afters[0],)}
                        const = rest.get((), 0) if all(m == () for m in rest) else None
                        if lb is not None and const is not None:
                            return lb + const
    return None


def cursor_variant(I, l, dp, p):
    """True when (a conjunct of) the loop test is `index < bound` (or `bound > index`) with the index a loop cursor that
    every iteration advances by at least 1 and the bound not derived from the buffer's content; else a reason"""
    tests = l["raw"].get("test_operands")
    if not tests:
        return None
    why = None
    for op, a, b in tests:
        if op in ("Gt", "GtE"):
            a, b = b, a
        elif op not in ("Lt", "LtE"):
            why = why or "the comparison (%s) does not bound an increasing index (the index can step over the bound)" % op
            continue
        cs = I.cursor_split(a, registered=False)
        if cs is None or cs[0][1] != l["raw"]["loop"]:
            why = why or "neither side is an index the loop advances by adding to it"
            continue
        if mem_derived(b) and getattr(norm_int(b), "capped_by_view", None) is None:
            why = why or "the bound is read from the device buffer (the iteration count is then the device's choice)"
            continue
        cb = I.cursor_split(b, registered=False)
        if cb is not None and cb[0][1] == l["raw"]["loop"]:
            why = why or "both sides change in the loop"
            continue
        lb = advance_lower_bound(I, l, dp, p, cs[0])
        if lb is None:
            why = why or "the index is not advanced by adding to it"
            continue
        if lb < 1:
            why = why or "the index advances by at least %s per iteration" % lb
            continue
        return True
    return why


def content_count(a):
    """a count / bound taken from the buffer's content and not capped by the buffer's own length"""
    return mem_derived(a) and getattr(norm_int(a), "capped_by_view", None) is None


def loop_has_own_break(fnode, range_node):
    """does the for statement that iterates over this range(...) call contain a break of its own?"""
    for n in ast.walk(fnode):
        if isinstance(n, (ast.For, ast.AsyncFor)) and any(x is range_node for x in ast.walk(n.iter)):
            stack = list(n.body)
            while stack:
                st = stack.pop()
                if isinstance(st, ast.Break):
                    return True
                if isinstance(st, (ast.For, ast.AsyncFor, ast.While, ast.FunctionDef, ast.ClassDef)):
                    continue
                stack.extend(ast.iter_child_nodes(st))
    return False


def len_vars(test):
    out = set()
    if test is None:
        return out
    for n in ast.walk(test):
        if isinstance(n, ast.Call) and isinstance(n.func, ast.Name) and n.func.id == "len" and n.args and isinstance(n.args[0], ast.Name):
            out.add(n.args[0].id)
    return out


def decoder_targets(prog):
    """every response / sense decoder entry point: (class, function name, kwargs factory)"""
    out = []
    for f in prog.all_functions():
        if f.cls is None:
            continue
        if f.name.startswith("unmarshall_") and f.name not in ("unmarshall_cdb",):
            out.append(f)
    # a decoder a class gets by assignment: functools.partial over a function written elsewhere
    for c in prog.classes():
        for k, v in c.attrs.items():
            if k.startswith("unmarshall_") and k != "unmarshall_cdb" and isinstance(v, PartialVal) and isinstance(v.fn, FuncVal) and not v.kwargs:
                t = FuncVal(k, v.fn.node, v.fn.module, kind="function")
                t.qualname = "%s.%s" % (c.qualname, k)
                t.partial = v
                t.skip = len(v.args)
                t.defaults, t.kw_defaults = getattr(v.fn, "defaults", []), getattr(v.fn, "kw_defaults", [])
                out.append(t)
    return out


def inherited_decoders(prog, targets):
    """(class, name) pairs that resolve to a decoder written in a base class other than the root of the hierarchy: the class
    has that decoder although its own body does not spell it out"""
    own = set((f.cls.qualname, f.name) for f in targets if f.cls is not None)
    out = []
    for c in sorted(prog.classes(), key=lambda c: c.qualname):
        names = set(k for b in c.mro()[1:] if isinstance(b, ClassVal) for k in b.attrs if k.startswith("unmarshall_") and k != "unmarshall_cdb")
        for k in sorted(names):
            v, owner = c.lookup(k)
            if owner is not None and owner is not c and owner.name != "SCSICommand" and (owner.qualname, k) in own and (c.qualname, k) not in own \
                    and isinstance(v, FuncVal):
                # the same code, run as the subclass runs it (its tables, its hooks)
                t = FuncVal(v.name, v.node, v.module, kind=v.kind, cls=c, closure=v.closure)
                t.qualname = "%s:%s.%s" % (c.module.name if c.module else "?", c.name, k)
                t.defaults, t.kw_defaults = getattr(v, "defaults", []), getattr(v, "kw_defaults", [])
                t.inherited_from = v
                out.append(t)
    return out


RE_FUNCS = ("match", "search", "fullmatch", "sub", "subn", "split", "findall", "finditer")


def regex_site(run, e, f, file, seen):
    """a regular expression applied while decoding: its work on a subject it rejects must be linear"""
    parts = e["name"].split(".")
    pattern = flags = None
    if len(parts) == 2 and parts[1] in RE_FUNCS:
        pattern = e["args"][0] if e["args"] else e["kwargs"].get("pattern")
        flags = e["kwargs"].get("flags", 0)
    elif len(parts) == 2:
        return                                  # re.compile / re.escape ...: nothing is matched yet
    else:
        fn = e.get("fn")
        origin = None
        while fn is not None and origin is None:
            origin = getattr(fn, "origin_call", None)
            fn = getattr(fn, "parent", None)
        if origin is None or origin[0] != "re.compile" or parts[-1] not in RE_FUNCS:
            return                              # a method of a match object (group, groups, span ...)
        pattern = origin[1][0] if origin[1] else origin[2].get("pattern")
        flags = origin[1][1] if len(origin[1]) > 1 else origin[2].get("flags", 0)
    node = e.get("node")
    c = "%s %s" % (f.qualname, norm(node) if node is not None else e["name"])
    if c in seen:
        return
    seen.add(c)
    if isinstance(pattern, SymStr) or not isinstance(pattern, (str, bytes)) or not isinstance(norm_int(flags), int):
        raise AnalysisError("regex-pattern-not-static", "%s: the pattern is computed at run time (%r)" % (c, pattern))
    res = regexcheck.analyse(pattern, norm_int(flags))
    if res["verdict"] == "undecided":
        raise AnalysisError("regex-outside-fragment", "%s: %s" % (c, res["detail"]))
    if res["verdict"] == "linear":
        run.ok("regex-work-linear", c, {"pattern": pattern if isinstance(pattern, str) else repr(pattern), "transitions": res["transitions"],
                                        "notes": res["notes"]})
    else:
        run.violation("regex-work-linear", c,
                      "the decoder applies the regular expression %r to text taken from the device buffer; %s (%s ambiguity): a device "
                      "that sends a few dozen such bytes stalls the initiator" % (pattern, res["detail"], res["verdict"]),
                      file, getattr(node, "lineno", None), f.qualname)


def check(prog, run):
    I = prog.I
    bad = regexcheck.self_check()
    if bad:
        raise AnalysisError("regex-fixture", "; ".join(bad))
    run.extra["regex_fixtures"] = len(regexcheck.FIXTURES)
    seen_regex = set()
    run.explanation = ("every response and sense decoder is abstractly interpreted on a device buffer of unknown content and length; "
                       "each loop with a data-dependent test is summarised and, on every path through its body, the view named in its "
                       "len() test must be re-sliced by a stride whose interval lower bound (with the path's guard refinements) is >= 1, "
                       "or the path must leave the loop; loops over static masks are unrolled for every table entry in use (a zero mask "
                       "never terminates); no decoder may recurse, allocate, or iterate a range sized by buffer content")
    run.rule_text = "one obligation per (decoder, loop, path through the loop body), per table entry, per decoder for recursion/allocation"
    run.trusted += ["slicing semantics of bytearray (a slice never extends a buffer)"]
    run.assumptions += ["constant factors (slicing copies) are not decided: the bound is linear in iterations"]
    install_decoder_watches(I)
    targets = decoder_targets(prog)
    nloops = 0
    nfunc = 0
    seen_loops = {}
    for_ranges = set()
    undecided = []
    lost_args = {}            # decoder -> loops undecided because the harness could not supply an argument
    reached_from = {}         # function -> the decoder entry points whose runs went through it
    targets = targets + inherited_decoders(prog, targets)
    for f in targets:
        nfunc += 1
        params = [p.arg for p in f.node.args.args][getattr(f, "skip", 0):]
        file = prog.file_of(f)

        def th(f=f, params=params):
            args = []
            for pn in params:
                if pn == "cls":
                    continue
                if pn == "self":
                    args.append(Instance(f.cls))
                elif pn in ("data", "d", "sense"):
                    args.append(View("resp"))
                elif pn in ("evpd",):
                    args.append(Sym.param("evpd", 1))
                elif pn in ("_type",):
                    args.append(Sym.param("_type", 8))
                elif pn in ("lba", "tl"):
                    args.append(Sym.param(pn, 32))
                else:
                    args.append(SymAny((pn,)))
            kw = {}
            if f.node.args.kwarg is not None:
                # READ CD: the per-sector layout flags only select straight-line slices (no loop depends on them)
                kw = {"est": 1, "mcsb": 0x1F, "c2ei": 1, "scsb": 2}
            fn = I.get_attr(f.cls, f.name, None, _F()) if f.kind != "function" else f
            return I.call(getattr(f, "partial", None) or fn, args, kw, None, _F())
        I.visited = set()
        try:
            paths = I.explore(th, max_paths=3000)
            for q in I.visited:
                if q != f.qualname:
                    reached_from.setdefault(q, set()).add(f.qualname)
        except AnalysisError as e:
            if e.reason == "static-loop-does-not-terminate":
                run.violation("loop-has-variant", "%s static loop" % f.qualname, "a loop whose test is static never terminates: %s" % e.detail,
                              file, f.node.lineno, f.qualname)
                continue
            raise
        rec_ev = False
        for p in paths:
            dp = DecPath(I, p)
            for e in p.events:
                if e["kind"] == "external-call" and e["name"].split(".")[0] == "re":
                    regex_site(run, e, f, file, seen_regex)
                if e["kind"] == "recursion":
                    rec_ev = True
                if e["kind"] == "alloc-dynamic" and mem_derived(e["size"]):
                    run.violation("no-allocation-sized-by-content", "%s %s" % (f.qualname, norm(e["node"])),
                                  "a buffer is allocated with a size read from the device buffer", file, e["node"].lineno, f.qualname)
                if e["kind"] == "range-dynamic" and any(content_count(a) for a in e["args"]) and loop_has_own_break(f.node, e["node"]):
                    # a count read from the buffer bounds the loop from above only: the body can leave it earlier (when the
                    # buffer is used up, say); whether it always does is not decided here
                    undecided.append("%s %s: the count is read from the device buffer, but the loop body can break out"
                                     % (f.qualname, norm(e["node"])))
                elif e["kind"] == "range-dynamic" and any(content_count(a) for a in e["args"]):
                    run.violation("no-iteration-count-from-content", "%s %s" % (f.qualname, norm(e["node"])),
                                  "the iteration count is read from the device buffer (up to 2^n iterations for an n-bit field, "
                                  "independent of the buffer length)", file, e["node"].lineno, f.qualname)
            for l in dp.loops:
                test = l["test"]
                if test is None:
                    # a for loop over a finite sequence; one over range(.., <dynamic>, ..) is bounded by its stop value, which
                    # `no-iteration-count-from-content` requires not to come from the buffer's content
                    if getattr(l["raw"].get("iterable"), "range_args", None) is not None:
                        for_ranges.add("%s for %s" % (f.qualname, norm(l["node"].iter)))
                    continue
                node = l["node"]
                lid = "%s while %s" % (f.qualname, norm(test))
                seen_loops.setdefault(lid, 0)
                seen_loops[lid] += 1
                if l["exit"] in ("break", "return", "raise"):
                    run.ok("loop-has-variant", lid, {"path": "leaves the loop (%s)" % l["exit"]}, nontrivial=False)
                    continue
                lv = len_vars(test)
                ops_ = l["raw"].get("test_operands")
                if ops_ and any(I.cursor_split(x, registered=False) is not None for t_ in ops_ for x in t_[1:]):
                    lv = set()       # the test compares an index: the variant is bound - index, whatever the bound is called
                if not lv:
                    # no len(...) in the test itself: an index compared with a bound that is not read from the buffer's content
                    # (a static number, or a length computed earlier) and advanced by at least one per iteration is a variant too
                    verdict = cursor_variant(I, l, dp, p)
                    head_env = l["raw"].get("head") or {}
                    lost_names = sorted(n.id for n in ast.walk(test) if isinstance(n, ast.Name)
                                        and isinstance(head_env.get(n.id), (Unknown, SymAny)))
                    if verdict is not True and lost_names:
                        # the test is over a value the analysis does not have (an argument of a helper the harness cannot
                        # supply, a table it could not resolve): nothing is known about the loop -- not "no variant"
                        hv = head_env[lost_names[0]]
                        lost_args.setdefault(getattr(f, "inherited_from", f).qualname if getattr(f, "partial", None) is None else f.partial.fn.qualname, []).append(
                            "%s: the loop test depends on `%s`, a value the analysis does not follow (%s)"
                            % (lid, lost_names[0], getattr(hv, "reason", None) or "caller-supplied value of unknown type"))
                        continue
                    if verdict is True:
                        run.ok("loop-has-variant", lid, {"variant": "bound - index", "path": p.cond_str()[:120]})
                    elif verdict and "advances by at least" in verdict and any(e["kind"] == "imprecise-decision" for e in p.events):
                        lost = [e for e in p.events if e["kind"] == "imprecise-decision"][0]
                        undecided.append("%s: %s on a path that depends on `%s` (%s), a value the analysis does not follow"
                                         % (lid, verdict, lost["what"], lost["reason"]))
                    else:
                        run.violation("loop-has-variant", lid, "the loop test %s: no recognised variant -- a device that sends a "
                                      "suitable length loops the initiator forever"
                                      % (("compares an index, but " + verdict) if verdict else "has no len(<buffer view>) term"),
                                      file, node.lineno, f.qualname)
                    continue
                progressed = False
                why = []
                for var in lv:
                    rec = l["vars"].get(var)
                    if rec is None:
                        why.append("%s is not a view re-sliced in the body" % var)
                        continue
                    st = rec["stride"]
                    lb = None
                    if st[0] == "const":
                        lb = st[1]
                    elif st[0] == "atleast":
                        lb = st[1]
                    elif st[0] == "expr":
                        lb = st[1]
                        for s in st[2]:
                            b = sym_lower_bound(s, p.facts)
                            if b is None:
                                lb = None
                                break
                            lb += b
                    elif st[0] == "unchanged":
                        lb = 0
                    if lb is not None and lb >= 1:
                        progressed = True
                        run.ok("loop-has-variant", lid, {"variant": "len(%s)" % var, "stride_lower_bound": lb, "path": p.cond_str()[:120]})
                        break
                    why.append("len(%s) decreases by at least %s (stride %s)" % (var, lb, describe_stride(I, st)))
                if not progressed:
                    run.violation("loop-has-variant", lid,
                                  "on the path [%s] the body reaches the next iteration without consuming any byte for certain: %s "
                                  "-- a device that sends such a length loops the initiator forever" % (p.cond_str()[:200], "; ".join(why)),
                                  file, node.lineno, f.qualname)
        if rec_ev:
            run.violation("decoder-call-graph-acyclic", f.qualname, "the decoder recurses", file, f.node.lineno, f.qualname)
        else:
            run.ok("decoder-call-graph-acyclic", f.qualname, nontrivial=False)
    nloops = len(seen_loops) + len(for_ranges)
    for q, items in sorted(lost_args.items()):
        callers = sorted(reached_from.get(q, ()))
        if callers:
            # a helper the harness could not call on its own (an argument only its caller can make up) is decided where it is
            # actually used: inside the runs of the decoders that call it, with the values they pass
            run.assumptions.append("%s is decided through its callers (%s), not as an entry point of its own" % (q, ", ".join(callers[:3])))
        else:
            undecided.extend(items)
    if undecided and not any(v["rule"] in ("loop-has-variant", "no-iteration-count-from-content") for v in run.violations):
        raise AnalysisError("loop-variant-undecided", "; ".join(undecided[:2]))
    # every while loop in a decoder must have been seen by the summariser or be static
    for f in targets:
        for n in I.own_nodes(f.node):
            if isinstance(n, ast.While):
                lid = "%s while %s" % (f.qualname, norm(n.test))
                if lid not in seen_loops:
                    run.notes.append("loop not reached by any explored path: %s" % lid)
    # static masks: the codec's loops terminate for every table entry in use
    nent = 0
    seen = set()
    for t in prog.tables():
        for fname, entry in t["table"].items():
            key = (tuple(entry) if not isinstance(entry, tuple) else entry)
            c = "%s.%s" % (t["origin"].split(":")[1], fname)
            nent += 1
            if entry_kind(entry) == "mask" and (not isinstance(entry[0], int) or entry[0] <= 0):
                run.violation("static-mask-terminates", c, "mask %r: decode_bits shifts until bit 0 is set, which never happens" % (entry[0],),
                              t["file"], t["line"])
                continue
            if key in seen:
                run.ok("static-mask-terminates", c, nontrivial=False)
                continue
            seen.add(key)
            r = decode_entry(prog, entry)
            if r[0] == "error" and "terminate" in r[1]:
                run.violation("static-mask-terminates", c, r[1], t["file"], t["line"])
            else:
                run.ok("static-mask-terminates", c)
    run.count("decoder_functions", nfunc)
    # whatever sequence of byte values the buffer is held in (a list, a tuple: what a caller doing its own ioctl, array or
    # ctypes plumbing ends up with), decoding it ends: conformant sample responses of fixed length, selector bytes fixed, the
    # rest arbitrary
    from spec import responses as refr
    nforms = 0
    for case in refr.MINIMAL:
        modname, clsname = case["cls"].split(":")
        cls = prog.cls(modname, clsname)
        f = prog.func(modname, clsname, "unmarshall_datain")
        for form in ("list", "tuple"):
            nforms += 1

            def thl(case=case, cls=cls, form=form):
                cells = [case["fixed"].get(i, mem_byte("resp", (None, i))) for i in range(case["length"])]
                fn = I.get_attr(cls, "unmarshall_datain", None, _F())
                return I.call(fn, [cells if form == "list" else tuple(cells)], dict(case["kwargs"]), None, _F())
            c = "%s.unmarshall_datain on %s given as a %s" % (clsname, case["note"], form)
            try:
                I.explore(thl, max_paths=400)
                run.ok("terminates-for-any-sequence-type", c, nontrivial=False)
            except AnalysisError as e:
                if e.reason == "path-limit":
                    continue
                if e.reason != "static-loop-does-not-terminate":
                    raise
                run.violation("terminates-for-any-sequence-type", c,
                              "decoding the %d byte values held in a %s never ends (%s): a loop test that only a bytes-like object can "
                              "make false" % (case["length"], form, e.detail), prog.rel(f.module), f.node.lineno, f.qualname)
    run.count("sequence_type_cases", nforms)
    run.count("data_dependent_loops", nloops)
    run.count("table_entries", nent)
    run.floor("decoder functions", nfunc, 23)
    run.floor("data-dependent loops", nloops, 10)
    run.floor("table entries", nent, 700)


def describe_stride(I, st):
    if st[0] == "expr":
        return "%d + %s" % (st[1], " + ".join(repr(norm_len(I, s))[:80] for s in st[2]))
    return repr(st)[:100]


class _F:
    def where(self, node=None):
        return "c11"
