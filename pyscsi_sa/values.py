"""Abstract value domain for the python-scsi static analyser.

Concrete python values (int, str, bytes, bool, None, tuple, list, dict, set,
range) stand for themselves: they are *static constants* read from the source
text.  Everything dynamic is one of the classes below.  Nothing here imports or
executes python-scsi.
"""
from __future__ import annotations


class AnalysisError(Exception):
    """The analysis cannot decide (exit 2) -- never a silent pass."""

    def __init__(self, reason, detail=""):
        super().__init__("%s %s" % (reason, detail))
        self.reason = reason
        self.detail = detail


class Unknown:
    """Top: nothing is known about this value.  ``reason`` says why."""

    __slots__ = ("reason", "deps")

    def __init__(self, reason="?", deps=()):
        self.reason = reason
        self.deps = tuple(deps)        # the external values it was computed from, where that is known

    def __repr__(self):
        return "Unknown(%s)" % (self.reason,)


# --------------------------------------------------------------------------
# polynomials over named symbols: {monomial(tuple of names, sorted): coeff}
# --------------------------------------------------------------------------

def p_const(c):
    return {(): c} if c else {}


def p_sym(name):
    return {(name,): 1}


def p_add(a, b, sign=1):
    if len(a) + len(b) > TERM_LIMIT:
        raise AnalysisError("term-limit", "a symbolic sum of %d + %d terms" % (len(a), len(b)))
    r = dict(a)
    for m, c in b.items():
        v = r.get(m, 0) + sign * c
        if v:
            r[m] = v
        else:
            r.pop(m, None)
    return r


TERM_LIMIT = 20000
DEADLINE = [None]           # wall-clock budget of the running analysis (set by the interpreter)


def check_deadline():
    import time
    if DEADLINE[0] is not None and time.time() > DEADLINE[0]:
        raise AnalysisError("time-limit", "the analysis did not finish within its time budget (symbolic arithmetic)")


def p_mul(a, b):
    check_deadline()
    if len(a) * len(b) > TERM_LIMIT:
        # a symbolic term that keeps growing is not going to decide anything: refuse rather than grind
        raise AnalysisError("term-limit", "a symbolic product of %d x %d terms" % (len(a), len(b)))
    r = {}
    for m1, c1 in a.items():
        for m2, c2 in b.items():
            m = tuple(sorted(m1 + m2, key=repr))
            v = r.get(m, 0) + c1 * c2
            if v:
                r[m] = v
            else:
                r.pop(m, None)
    return r


def p_is_const(p):
    return all(m == () for m in p)


def p_const_value(p):
    return p.get((), 0)


def p_key(p):
    return tuple(sorted(((m, c) for m, c in p.items()), key=repr))


def p_str(p):
    if not p:
        return "0"
    parts = []
    for m, c in sorted(p.items(), key=lambda kv: repr(kv[0])):
        if m == ():
            parts.append(str(c))
        else:
            s = "*".join(_name_str(x) for x in m)
            parts.append(s if c == 1 else "%d*%s" % (c, s))
    return " + ".join(parts)


def _name_str(n):
    if isinstance(n, tuple):
        return "%s(%s)" % (n[0], ",".join(_name_str(x) for x in n[1:]))
    return str(n)


# --------------------------------------------------------------------------
# Sym: a dynamic integer
# --------------------------------------------------------------------------

ZERO = 0
ONE = 1


def _bit_xor(a, b):
    """bits are 0, 1, or frozenset of atoms (an XOR of them); the atom True is
    the constant one."""
    if a == 0:
        return b
    if b == 0:
        return a
    sa = frozenset([True]) if a == 1 else a
    sb = frozenset([True]) if b == 1 else b
    r = sa ^ sb
    if not r:
        return 0
    if r == frozenset([True]):
        return 1
    return r


class Sym:
    """A dynamic non-negative integer.

    bits : tuple (LSB first) of 0 | 1 | frozenset(atoms)   or None if unknown
    poly : polynomial over named symbols                     or None if unknown
    nonzero : value is known to be != 0
    lo/hi : interval bounds (hi may be None = unbounded)
    """

    __slots__ = ("bits", "poly", "nonzero", "lo", "hi", "origin", "view", "sum_of", "tag", "capped_by_view")

    def __init__(self, bits=None, poly=None, nonzero=False, lo=0, hi=None, origin=None):
        if bits is not None:
            bits = tuple(bits)
            # strip leading zeros
            n = len(bits)
            while n and bits[n - 1] == 0:
                n -= 1
            bits = bits[:n]
            w_hi = (1 << len(bits)) - 1
            hi = w_hi if hi is None else min(hi, w_hi)
        self.bits = bits
        self.poly = poly
        self.nonzero = nonzero
        self.lo = max(lo, 1) if nonzero else lo
        self.hi = hi
        self.origin = origin

    # -- constructors ------------------------------------------------------
    @staticmethod
    def param(name, width, nonzero=False):
        return Sym(
            bits=[frozenset([("p", name, j)]) for j in range(width)],
            poly=p_sym(name),
            nonzero=nonzero,
            origin=("param", name, width),
        )

    @staticmethod
    def opaque(name, lo=0, hi=None, nonzero=False, width=64):
        """an integer known only by name (e.g. len(list)); it still has a bit
        view (``width`` named bits) so that it can be traced into a buffer"""
        s = Sym(bits=[frozenset([("p", name, j)]) for j in range(width)] if width else None,
                poly=p_sym(name), lo=lo, hi=hi, nonzero=nonzero, origin=("opaque", name))
        return s

    def key(self):
        return (self.bits, p_key(self.poly) if self.poly is not None else None)

    def same_value(self, other):
        if isinstance(other, Sym):
            if self.bits is not None and other.bits is not None:
                return self.bits == other.bits
            if self.poly is not None and other.poly is not None:
                return self.poly == other.poly
        return False

    def width(self):
        return len(self.bits) if self.bits is not None else None

    def __repr__(self):
        if self.poly is not None:
            return "Sym<%s>" % p_str(self.poly)
        if self.bits is not None:
            return "Sym<bits:%s>" % (bits_str(self.bits),)
        return "Sym<?>"


def bits_str(bits):
    out = []
    for i, b in enumerate(bits):
        if b == 0:
            out.append("0")
        elif b == 1:
            out.append("1")
        else:
            out.append("^".join(sorted(atom_str(a) for a in b)))
    return "[" + " ".join(reversed(out)) + "]"


def atom_str(a):
    if a is True:
        return "1"
    if a[0] == "p":
        return "%s.%d" % (a[1], a[2])
    if a[0] == "m":
        return "%s@%s.%d" % (a[1], pos_str(a[2]), a[3])
    return repr(a)


def pos_str(pos):
    base, off = pos
    if base is None:
        return str(off)
    return "%s+%d" % (_name_str(base), off)


def norm_int(v):
    """collapse a Sym that is a constant to a python int"""
    if isinstance(v, Sym):
        if v.bits is not None and all(b in (0, 1) for b in v.bits):
            return sum((1 << i) for i, b in enumerate(v.bits) if b == 1)
        if v.bits is None and v.poly is not None and p_is_const(v.poly):
            return p_const_value(v.poly)
    return v


def to_poly(v):
    if isinstance(v, bool):
        return p_const(int(v))
    if isinstance(v, int):
        return p_const(v)
    if isinstance(v, Sym):
        return v.poly
    return None


def to_bits(v, width=None):
    if isinstance(v, bool):
        v = int(v)
    if isinstance(v, int):
        if v < 0:
            return None
        n = max(v.bit_length(), width or 0)
        return tuple((v >> i) & 1 for i in range(n))
    if isinstance(v, Sym):
        return v.bits
    return None


def _pad(bits, n):
    return tuple(bits) + (0,) * (n - len(bits))


def sym_binop(op, a, b):
    """abstract integer arithmetic; returns int | Sym | Unknown"""
    a = norm_int(a)
    b = norm_int(b)
    if isinstance(a, bool):
        a = int(a)
    if isinstance(b, bool):
        b = int(b)
    if isinstance(a, int) and isinstance(b, int):
        return _concrete_binop(op, a, b)
    ab, bb = to_bits(a), to_bits(b)
    ap, bp = to_poly(a), to_poly(b)
    res_bits = None
    res_poly = None
    lo, hi = 0, None
    alo, ahi = bounds(a)
    blo, bhi = bounds(b)
    if op == "<<":
        if isinstance(b, int) and b >= 0:
            if ab is not None:
                res_bits = (0,) * b + tuple(ab)
            if ap is not None:
                res_poly = p_mul(ap, p_const(1 << b))
            lo = alo << b
            hi = None if ahi is None else ahi << b
        else:
            return Unknown("shift by dynamic amount")
    elif op == ">>":
        if isinstance(b, int) and b >= 0:
            if ab is not None:
                res_bits = tuple(ab[b:])
            else:
                return _opaque_result(op, a, b, 0, None if ahi is None else ahi >> b)
            lo = alo >> b
            hi = None if ahi is None else ahi >> b
        else:
            return Unknown("shift by dynamic amount")
    elif op == "&":
        if ab is not None and isinstance(b, int) and b >= 0 and ((1 << len(ab)) - 1) & ~b == 0:
            return a          # the mask covers every possible bit: value unchanged (keeps the polynomial view)
        if bb is not None and isinstance(a, int) and a >= 0 and ((1 << len(bb)) - 1) & ~a == 0:
            return b
        if ab is not None and bb is not None:
            n = min(len(ab), len(bb))
            out = []
            for x, y in zip(ab[:n], bb[:n]):
                if x == 0 or y == 0:
                    out.append(0)
                elif x == 1:
                    out.append(y)
                elif y == 1:
                    out.append(x)
                elif x == y:
                    out.append(x)
                else:
                    return Unknown("and of two dynamic bits")
            res_bits = tuple(out)
        elif isinstance(b, int):
            return _opaque_result(op, a, b, 0, b)
        elif isinstance(a, int):
            return _opaque_result(op, a, b, 0, a)
        else:
            return Unknown("and without bit view")
    elif op in ("|", "^", "+"):
        if ab is not None and bb is not None:
            n = max(len(ab), len(bb))
            x_, y_ = _pad(ab, n), _pad(bb, n)
            disjoint = all(x == 0 or y == 0 for x, y in zip(x_, y_))
            if op == "^":
                res_bits = tuple(_bit_xor(x, y) for x, y in zip(x_, y_))
            elif disjoint:
                res_bits = tuple(x if y == 0 else y for x, y in zip(x_, y_))
            elif op == "|":
                out = []
                for x, y in zip(x_, y_):
                    if x == 0:
                        out.append(y)
                    elif y == 0:
                        out.append(x)
                    elif x == 1 or y == 1:
                        out.append(1)
                    elif x == y:
                        out.append(x)
                    else:
                        return Unknown("or of two dynamic bits")
                res_bits = tuple(out)
        if op in ("|", "^") and ab is not None and bb is not None and disjoint and ap is not None and bp is not None:
            res_poly = p_add(ap, bp)        # no bit set in both operands: or / xor is addition
        if op == "+":
            if ap is not None and bp is not None:
                res_poly = p_add(ap, bp)
            lo = alo + blo
            hi = None if (ahi is None or bhi is None) else ahi + bhi
            if res_bits is None and res_poly is None:
                return _opaque_result(op, a, b, lo, hi)
        elif res_bits is None:
            return Unknown("%s without bit view" % op)
    elif op == "-":
        if ap is not None and bp is not None:
            res_poly = p_add(ap, bp, -1)
        lo = alo - bhi if bhi is not None else None
        hi = None if ahi is None else ahi - blo
        if res_poly is None:
            return _opaque_result(op, a, b, lo if lo is not None else -(1 << 62), hi)
        r = Sym(bits=None, poly=res_poly, lo=0, hi=hi)
        r.lo = lo if lo is not None else -(1 << 62)
        return norm_int(r)
    elif op == "*":
        if isinstance(b, int) and b > 0 and (b & (b - 1)) == 0:
            return sym_binop("<<", a, b.bit_length() - 1)
        if isinstance(a, int) and a > 0 and (a & (a - 1)) == 0:
            return sym_binop("<<", b, a.bit_length() - 1)
        if (isinstance(a, int) and a == 0) or (isinstance(b, int) and b == 0):
            return 0
        if ap is not None and bp is not None:
            res_poly = p_mul(ap, bp)
        lo = alo * blo
        hi = None if (ahi is None or bhi is None) else ahi * bhi
        if res_poly is None:
            return _opaque_result(op, a, b, lo, hi)
    elif op in ("//", "%"):
        if isinstance(b, int) and b > 0 and (b & (b - 1)) == 0 and ab is not None:
            k = b.bit_length() - 1
            if op == "//":
                return sym_binop(">>", a, k)
            return sym_binop("&", a, b - 1)
        if op == "%" and isinstance(b, int) and b > 0:
            return _opaque_result(op, a, b, 0, b - 1)
        return _opaque_result(op, a, b, 0, ahi)
    else:
        return Unknown("operator %s" % op)
    nz = False
    if op == "+" and (is_nonzero(a) or is_nonzero(b)):
        nz = True
    if op == "*" and is_nonzero(a) and is_nonzero(b):
        nz = True
    if op == "<<" and is_nonzero(a):
        nz = True
    r = Sym(bits=res_bits, poly=res_poly, nonzero=nz, lo=lo if lo is not None else 0, hi=hi)
    return norm_int(r)


def _opaque_result(op, a, b, lo, hi):
    name = ("op", op, val_key(a), val_key(b))
    s = Sym(bits=None, poly=p_sym(name), lo=0, hi=hi)
    s.lo = lo
    return s


def val_key(v):
    if isinstance(v, Sym):
        return ("sym",) + tuple([v.key()])
    return v


def bounds(v):
    if isinstance(v, bool):
        return int(v), int(v)
    if isinstance(v, int):
        return v, v
    if isinstance(v, Sym):
        return v.lo, v.hi
    return 0, None


def is_nonzero(v):
    if isinstance(v, int):
        return v != 0
    if isinstance(v, Sym):
        return v.nonzero or v.lo >= 1
    return False


def _concrete_binop(op, a, b):
    try:
        if op == "+":
            return a + b
        if op == "-":
            return a - b
        if op == "*":
            return a * b
        if op == "//":
            return a // b
        if op == "%":
            return a % b
        if op == "<<":
            return a << b
        if op == ">>":
            return a >> b
        if op == "&":
            return a & b
        if op == "|":
            return a | b
        if op == "^":
            return a ^ b
        if op == "**":
            return a ** b
    except Exception as e:  # ZeroDivisionError etc.
        return Unknown("concrete %s failed: %s" % (op, e))
    return Unknown("operator %s" % op)


def sym_compare(op, a, b):
    """returns True / False / None(undetermined)"""
    a = norm_int(a)
    b = norm_int(b)
    if isinstance(a, (int, bool)) and isinstance(b, (int, bool)):
        return {
            "==": a == b, "!=": a != b, "<": a < b, "<=": a <= b,
            ">": a > b, ">=": a >= b,
        }[op]
    alo, ahi = bounds(a)
    blo, bhi = bounds(b)
    if isinstance(a, Sym) and isinstance(b, Sym) and a.same_value(b):
        return {"==": True, "!=": False, "<": False, "<=": True, ">": False, ">=": True}[op]
    if op in ("==", "!="):
        eq = None
        if (ahi is not None and ahi < blo) or (bhi is not None and bhi < alo):
            eq = False
        else:
            ab, bb = to_bits(a), to_bits(b)
            if ab is not None and bb is not None:
                n = max(len(ab), len(bb))
                for x, y in zip(_pad(ab, n), _pad(bb, n)):
                    if x in (0, 1) and y in (0, 1) and x != y:
                        eq = False
                        break
        if eq is None:
            return None
        return eq if op == "==" else not eq
    if op == "<":
        if ahi is not None and ahi < blo:
            return True
        if bhi is not None and alo >= bhi:
            return False
    if op == "<=":
        if ahi is not None and ahi <= blo:
            return True
        if bhi is not None and alo > bhi:
            return False
    if op == ">":
        return sym_compare("<", b, a)
    if op == ">=":
        return sym_compare("<=", b, a)
    return None


# --------------------------------------------------------------------------
# buffers
# --------------------------------------------------------------------------

class SymFloat:
    """the float result of an exact true division (numerator below 2**53, divisor a power of two): int() gives ``floor``"""

    def __init__(self, floor):
        self.floor = floor

    def __repr__(self):
        return "SymFloat(%r)" % (self.floor,)


class Buf:
    """A mutable byte buffer built by the analysed code (``bytearray(n)``).

    cells : list of byte values (int | Sym(<=8 bits) | Unknown)  when the length
            is static; None when the length is dynamic
    length: int | Sym
    origin: where it was created
    blob  : for caller-supplied opaque buffers, a name
    """

    def __init__(self, cells=None, length=None, origin=None, name=None, parts=None):
        self.cells = cells
        self.length = len(cells) if cells is not None else length
        self.origin = origin
        self.name = name
        # parts: for dynamic-length buffers, a description of the concatenation
        self.parts = parts

    def copy(self):
        b = Buf(list(self.cells) if self.cells is not None else None,
                self.length, self.origin, self.name,
                list(self.parts) if self.parts else None)
        b.pytype = getattr(self, "pytype", None)
        return b

    def __repr__(self):
        if self.cells is not None:
            return "Buf(len=%d)" % len(self.cells)
        return "Buf(len=%r,name=%s)" % (self.length, self.name)


class View:
    """A read-only window ``root[lo:hi]`` into a device-supplied buffer of
    unknown content and length.  lo/hi are positions ``(base, off)`` with base
    a hashable symbolic part (or None) and off an int; hi may be None."""

    def __init__(self, root, lo=(None, 0), hi=None, hi_val=None, length=None):
        self.root = root
        self.lo = lo
        self.hi = hi          # position or None (unknown / end of root)
        self.hi_val = hi_val  # the abstract value that bounded it (int | Sym)
        self.length = length  # static length if known (int) else None

    def __repr__(self):
        return "View(%s[%s:%s])" % (self.root, pos_str(self.lo),
                                    pos_str(self.hi) if self.hi else "")


def mem_byte(root, pos):
    """the 8 bits of byte ``pos`` of ``root``"""
    return Sym(bits=[frozenset([("m", root, pos, b)]) for b in range(8)],
               poly=p_sym(("rd", root, pos, 1)), origin=("mem", root, pos))


def pos_add(pos, k):
    return (pos[0], pos[1] + k)


class SymList:
    """A list of statically unknown length whose elements look like ``elem``."""

    def __init__(self, elem, name=None, length=None):
        self.elem = elem
        self.name = name
        self.length = length


class SymDict:
    """A caller-supplied dictionary: keys are not known statically.  Reads are
    recorded (``reads``) so key agreement can be checked."""

    def __init__(self, name, known=None):
        self.name = name
        self.known = dict(known or {})   # key -> value for keys assumed present
        self.reads = []                  # (key, how)  how in {'sub','get','in'}
        self.writes = []
        self.present = {}                # key -> True/False decided on this path

    def __repr__(self):
        return "SymDict(%s)" % (self.name,)


class SymStr:
    def __init__(self, name, length=None):
        self.name = name
        self.length = length

    def __repr__(self):
        return "SymStr(%s)" % (self.name,)


class SymBytes:
    """opaque caller bytes of symbolic length"""

    def __init__(self, name, length=None):
        self.name = name
        self.length = length if length is not None else Sym.opaque(("len", name))

    def __repr__(self):
        return "SymBytes(%s)" % (self.name,)
