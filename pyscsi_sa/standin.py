"""Abstract stand-ins for the external bindings (sgio, iscsi, open, os.stat):
nondeterministic models used while *statically* interpreting the transports and
the facade.  A stand-in never runs anything: it records the call, and forks the
analysis on each outcome the real binding may have (return / raise)."""
from __future__ import annotations

from .rt import *
from .values import *


class ExtExc(External):
    def __init__(self, name, bases=("Exception", "BaseException")):
        super().__init__(name)
        self.exc_bases = bases


class StandIn:
    def __init__(self, prog, check_condition="fork", device_bytes=None, close_fails="never", stat_fails="never",
                 other_sgio_error="never", replug="fork", fill_limit=128, maybe_missing=(), open_fails="never", node_model=False):
        # node_model: the device node has an identity (a generation counter the scenario driver bumps between commands);
        # stat results and handles remember the generation they saw, inode comparisons are concrete
        self.open_fails = open_fails
        self.node_model = node_model
        self.node_gen = 0
        self.closed = set()
        # maybe_missing: attribute names of binding objects that the analysed code itself expects to be absent
        # sometimes (it reads them under `except AttributeError`): reading one forks on "absent"
        self.maybe_missing = set(maybe_missing)
        self.fill_limit = fill_limit
        self.prog = prog
        self.I = prog.I
        self.cc = check_condition
        self.device_bytes = device_bytes
        self.close_fails = close_fails
        self.stat_fails = stat_fails
        self.other = other_sgio_error
        self.replug = replug
        self.counter = 0
        self.vanished = False

    def install(self):
        self.I.external_hook = self.hook
        self.I.external_attr_hook = self.attr_hook if self.maybe_missing else None
        return self

    def remove(self):
        self.I.external_hook = None
        self.I.external_attr_hook = None

    def attr_hook(self, obj, name, node, frame):
        if name in self.maybe_missing and self.I.decide("%s has no attribute %s" % (obj.name, name), node, frame):
            raise PyRaise(Instance(self.I.bclasses["AttributeError"], ("%s has no attribute %r" % (obj.name, name),)),
                          node, frame.where(node))

    def fill(self, buf):
        if isinstance(buf, Buf) and buf.cells is not None:
            n = min(len(buf.cells), self.fill_limit)
            if self.device_bytes is not None:
                data = self.device_bytes(n)
                buf.cells = list(data) + buf.cells[len(data):]
            else:
                buf.cells = [mem_byte("device", (None, i)) for i in range(n)] + buf.cells[n:]
            buf.filled_by_device = True
        elif isinstance(buf, Buf):
            buf.filled_by_device = True

    def hook(self, fn, args, kwargs, node, frame):
        I = self.I
        name = fn.name
        if name == "sgio.execute":
            if self.cc == "always" or (self.cc == "fork" and I.decide("sgio.execute raises CheckConditionError", node, frame)):
                raise PyRaise(ExtExc("sgio.CheckConditionError"), node, frame.where(node))
            if self.other == "fork" and I.decide("sgio.execute raises another error", node, frame):
                raise PyRaise(ExtExc("sgio.UnspecifiedError", "*"), node, frame.where(node))
            if len(args) >= 4:
                self.fill(args[3])
            return None
        if name.endswith(".command") and len(args) >= 4:
            self.fill(args[3])
            return None
        if name == "open":
            mode = args[1] if len(args) > 1 else kwargs.get("mode", "r")
            if self.vanished and isinstance(mode, str) and not any(c in mode for c in "wax"):
                # python's open(): a mode that does not create fails on a missing node
                raise PyRaise(ExtExc("FileNotFoundError", ("FileNotFoundError", "OSError", "Exception", "BaseException")),
                              node, frame.where(node))
            if self.open_fails == "fork" and I.decide("open() raises PermissionError", node, frame):
                raise PyRaise(ExtExc("PermissionError", ("PermissionError", "OSError", "Exception", "BaseException")), node, frame.where(node))
            self.counter += 1
            h = External("file-handle#%d" % self.counter)
            h.created_missing_node = bool(self.vanished)
            if self.node_model:
                h.opened_on_gen = self.node_gen
            return h
        if name.startswith("file-handle") and name.endswith(".close"):
            self.closed.add(name[:-len(".close")])
            if self.close_fails == "fork" and I.decide("file.close() raises OSError", node, frame):
                raise PyRaise(ExtExc("OSError", ("OSError", "Exception", "BaseException")), node, frame.where(node))
            return None
        if name == "os.stat":
            if self.stat_fails == "fork" and I.decide("os.stat raises FileNotFoundError", node, frame):
                self.vanished = True
                raise PyRaise(ExtExc("FileNotFoundError", ("FileNotFoundError", "OSError", "Exception", "BaseException")),
                              node, frame.where(node))
            self.counter += 1
            st = External("stat#%d" % self.counter)
            if self.node_model:
                st.inode_gen = self.node_gen        # (the scenario driver replaces the node between commands)
            return st
        return None
