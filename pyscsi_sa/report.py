"""Obligations, violations, known findings, evidence, exit protocol."""
from __future__ import annotations

import json
import os
import sys
import time

from .values import AnalysisError

VERIF = os.path.dirname(os.path.dirname(os.path.abspath(__file__)))


def jsonable(v, depth=0):
    if depth > 6:
        return "..."
    if v is None or isinstance(v, (bool, int, float, str)):
        return v
    if isinstance(v, (list, tuple, set, frozenset)):
        return [jsonable(x, depth + 1) for x in list(v)[:60]]
    if isinstance(v, dict):
        return {str(k): jsonable(x, depth + 1) for k, x in list(v.items())[:80]}
    return repr(v)[:300]


RESOURCE_LIMITS = ("path-limit", "loop-bound", "combo-limit", "call-depth", "fork-limit", "floor", "rule-coverage-floor")


class Run:
    def __init__(self, pid, tier="quick", repo="/repo", out_dir=None, evidence_path=None,
                 findings_path=None, quiet=False):
        self.pid = pid
        self.tier = tier
        self.repo = repo
        self.t0 = time.time()
        self.obligations = 0
        self.discharged = 0
        self.violations = []     # dicts
        self.known_seen = []
        self.samples = []
        self.sample_by_rule = {}
        self.analysed = {}
        self.rules = {}
        self.notes = []
        self.assumptions = []
        self.trusted = []
        self.unconstrained = []
        self.explanation = ""
        self.rule_text = ""
        self.exhaustive = False
        self.nontrivial = set()
        self.floors = []
        self.extra = {}
        self.out_dir = out_dir or os.path.join(VERIF, "out", pid)
        self.evidence_path = evidence_path if evidence_path is not None else os.path.join(VERIF, "evidence", pid + ".json")
        self.findings_path = findings_path or os.path.join(VERIF, "known_findings.json")
        self.quiet = quiet
        self.known = self._load_known()

    def _load_known(self):
        try:
            with open(self.findings_path) as f:
                data = json.load(f)
        except FileNotFoundError:
            return {}
        out = {}
        for e in data:
            if e.get("status") == "known":
                out[(e["property"], e["rule"], e["construct"])] = e
        return out

    # -- recording ---------------------------------------------------------
    def count(self, key, n=1):
        self.analysed[key] = self.analysed.get(key, 0) + n

    def ok(self, rule, construct, sample=None, nontrivial=True):
        self.obligations += 1
        self.discharged += 1
        self.rules[rule] = self.rules.get(rule, 0) + 1
        if nontrivial:
            self.nontrivial.add((rule, construct))
        n = self.sample_by_rule.get(rule, 0)
        if n < 3:
            self.sample_by_rule[rule] = n + 1
            s = {"rule": rule, "construct": construct, "verdict": "holds"}
            if sample:
                s.update(jsonable(sample))
            self.samples.append(s)

    def violation(self, rule, construct, message, file=None, line=None, function=None, facts=None):
        self.obligations += 1
        self.rules[rule] = self.rules.get(rule, 0) + 1
        self.nontrivial.add((rule, construct))
        v = {"property": self.pid, "rule": rule, "construct": construct, "message": message,
             "file": file, "line": line, "function": function, "facts": jsonable(facts or {})}
        # de-duplicate
        for o in self.violations:
            if o["rule"] == rule and o["construct"] == construct:
                return
        self.violations.append(v)

    # an exploration budget that ran out after violations were already established does not take them back: the run reports
    # them (exit 1) and prints the limit as what stopped it; every other analysis error is a broken check (exit 2)
    def floor(self, name, measured, minimum):
        self.floors.append({"name": name, "measured": measured, "floor": minimum})
        if measured < minimum:
            if any((self.pid, v["rule"], v["construct"]) not in self.known for v in self.violations):
                # fewer instances on a tree that is already reported as violating: part of what is wrong with it
                self.notes.append("%s: %d instances < confirmed floor %d (violations are reported)" % (name, measured, minimum))
                return
            raise AnalysisError("floor", "%s: %d instances < confirmed floor %d" % (name, measured, minimum))

    def require(self, cond, reason, detail=""):
        if not cond:
            raise AnalysisError(reason, detail)

    # -- finishing -----------------------------------------------------------
    def finish(self, error=None):
        wall = time.time() - self.t0
        lines = []
        new = []
        for v in self.violations:
            k = (self.pid, v["rule"], v["construct"])
            if k in self.known:
                self.known_seen.append(v)
                lines.append("KNOWN-FINDING: property=%s rule=%s construct=%s -- %s"
                             % (self.pid, v["rule"], v["construct"], self.known[k].get("what_fails", v["message"])))
            else:
                new.append(v)
        if not self.quiet:
            os.makedirs(self.out_dir, exist_ok=True)
        if error is None and not self.quiet:
            for f in os.listdir(self.out_dir):
                if f.startswith("v-"):
                    try:
                        os.unlink(os.path.join(self.out_dir, f))
                    except OSError:
                        pass
        for i, v in enumerate(new):
            path = os.path.join(self.out_dir, "v-%04d.json" % (i + 1))
            if not self.quiet:
                with open(path, "w") as f:
                    json.dump(v, f, indent=1)
            lines.append("VIOLATION property=%s replay=%s" % (self.pid, path))
            lines.append("  %s: %s [%s%s] %s" % (v["rule"], v["construct"], v.get("file") or "",
                                                 (":%s" % v["line"]) if v.get("line") else "", v["message"]))
        if error is not None:
            lines.append("ANALYSIS-ERROR property=%s reason=%s detail=%s" % (self.pid, error.reason, error.detail))
        cov = {
            "explanation": self.explanation or "static analysis of /repo source",
            "obligations": self.obligations,
            "discharged": self.discharged,
            "evaluations": max(self.obligations, 1),
            "distinct_nontrivial": len(self.nontrivial),
            "rule": self.rule_text,
            "samples": self.samples[:40] or [{"note": "no obligations generated"}],
            "analysed": self.analysed,
            "rules": self.rules,
            "floors": self.floors,
            "trusted_base": self.trusted,
            "known_findings_seen": [{"rule": v["rule"], "construct": v["construct"]} for v in self.known_seen],
            "unconstrained": self.unconstrained[:200],
            "notes": self.notes[:100],
            "violations_detail": [{"rule": v["rule"], "construct": v["construct"], "message": v["message"],
                                   "file": v.get("file"), "line": v.get("line")} for v in new][:50],
        }
        if self.exhaustive:
            cov["exhaustive"] = True
        cov.update(self.extra)
        if error is not None:
            cov["analysis_error"] = {"reason": error.reason, "detail": error.detail}
        ev = {
            "property_id": self.pid,
            "tier": self.tier,
            "seed": int(os.environ.get("VERIF_SEED", "0") or 0),
            "level": "other",
            "coverage": cov,
            "assumptions": self.assumptions,
            "wall_s": round(wall, 3),
            "violations": len(new),
        }
        if self.evidence_path and not self.quiet:
            os.makedirs(os.path.dirname(self.evidence_path), exist_ok=True)
            tmp = self.evidence_path + ".tmp"
            with open(tmp, "w") as f:
                json.dump(ev, f, indent=1)
            os.replace(tmp, self.evidence_path)
        self.lines = lines
        self.new_violations = new
        if error is not None and not (new and error.reason in RESOURCE_LIMITS):
            code = 2
        elif new:
            code = 1
        else:
            code = 0
        if not self.quiet:
            for ln in lines:
                print(ln)
            print("%s %s: %d obligations, %d discharged, %d known finding(s), %d new violation(s), %.2fs"
                  % (self.pid, self.tier, self.obligations, self.discharged, len(self.known_seen), len(new), wall))
        return code
