"""Attribute and subscript semantics of the abstract interpreter."""
from __future__ import annotations

import ast

from .rt import *
from .rt import _Return, _Break, _Continue
from .values import *
from .ops import DictView, fact_key

_ABSENT = ABSENT


# attributes a class object has through its metaclass chain ending in `type` (and `object`)
TYPE_ATTRIBUTES = frozenset(n for n in dir(type) if n not in ("__name__", "__doc__", "__module__", "__dict__", "__getattr__", "__getitem__"))

_SUPER_TYPE = object()


class AccessMixin:
    # ------------------------------------------------------------------
    # attributes
    # ------------------------------------------------------------------
    def real_type_of(self, obj):
        """the python type a model value stands for, when it is a builtin one"""
        import builtins
        if isinstance(obj, ClassVal) and obj.builtin:
            t = getattr(builtins, obj.name, None)
            return t if isinstance(t, type) else None
        if isinstance(obj, bool):
            return None
        for mt, rt in (((int, Sym), int), ((str, SymStr), str), ((bytes, SymBytes), bytes), ((Buf, View), bytearray),
                       ((list, SymList), list), ((dict, SymDict), dict), ((tuple,), tuple), ((set,), set), ((float,), float)):
            if isinstance(obj, mt):
                return rt
        return None

    def attr_error(self, obj, name, node, frame):
        rt = self.real_type_of(obj)
        if rt is not None and hasattr(rt, name):
            # python has this attribute; the model does not: that is this analysis's gap, never the library's error
            raise AnalysisError("unmodelled-builtin", "%s.%s used at %s" % (rt.__name__, name, frame.where(node)))
        self.event("attr-error", obj=obj, name=name, where=frame.where(node), node=node)
        raise PyRaise(Instance(self.bclasses["AttributeError"],
                               ("%s has no attribute '%s'" % (self.describe_obj(obj), name),)),
                      node, frame.where(node))

    def describe_obj(self, obj):
        if isinstance(obj, ClassVal):
            return "type object '%s'" % obj.name
        if isinstance(obj, ModuleVal):
            return "module '%s'" % obj.name
        if isinstance(obj, Instance):
            return "'%s' object" % obj.cls.name
        if isinstance(obj, EnumVal):
            return "Enum %s" % (obj.origin or "")
        return "'%s' object" % self.kind_of(obj)

    def get_attr(self, obj, name, node, frame):
        if isinstance(obj, slice) and name in ("start", "stop", "step"):
            return getattr(obj, name)
        if isinstance(obj, PropertyVal):
            if name in ("fget", "fset"):
                return getattr(obj, name)
            if name == "fdel":
                return None
            if name in ("setter", "getter"):
                return Builtin("property.%s" % name, lambda a, k, n, f: PropertyVal(a[0] if name == "getter" else obj.fget,
                                                                                     a[0] if name == "setter" else obj.fset))
            if name == "__doc__":
                return self.get_attr(obj.fget, "__doc__", node, frame) if obj.fget is not None else None
            raise AnalysisError("unmodelled-builtin", "property.%s used at %s" % (name, frame.where(node)))
        if isinstance(obj, (NTuple, IntEnumMember, EnumMember, PartialVal, ChainMapVal)) or (isinstance(obj, ClassVal) and name.startswith("_")):
            from .stdlib_model import _NO
            r = self.stdlib_attr(obj, name, node, frame)
            if r is not _NO:
                return r
        if name == "__dict__" and isinstance(obj, (EnumVal, ClassVal, Instance)):
            return self.bi_vars([obj], {}, node, frame)          # the namespace vars() shows
        if isinstance(obj, ModuleVal):
            if obj.state == "new":
                self.load_module(obj.name)
            if name in obj.env:
                return obj.env[name]
            if name == "__dict__":
                return obj.env
            sub = self.modules.get(obj.name + "." + name)
            if sub is not None and not sub.external:
                return sub
            if isinstance(obj.env.get("__getattr__"), FuncVal) and not obj.external:
                return self.call_function(obj.env["__getattr__"], [name], {}, node, frame)        # PEP 562
            return self.attr_error(obj, name, node, frame)
        if isinstance(obj, ClassVal):
            return self.class_attr(obj, name, node, frame)
        if isinstance(obj, Instance):
            dv = self.descriptor_of(obj.cls, name) if isinstance(obj.cls, ClassVal) else None
            if dv is not None and dv[1]:
                # a data descriptor on the class (it defines __set__ / __delete__) wins over the instance's own attribute
                return self.call_function(dv[0], [dv[2], obj, obj.cls], {}, node, frame)
            if name in obj.attrs:
                return obj.attrs[name]
            if dv is not None:
                return self.call_function(dv[0], [dv[2], obj, obj.cls], {}, node, frame)
            if name == "__class__":
                return obj.cls
            if name == "args" and any(c.builtin for c in obj.cls.mro()):
                return tuple(obj.args)
            v, owner = obj.cls.lookup(name)
            if owner is None:
                if isinstance(obj.cls, ClassVal) and any(isinstance(b, (External, Unknown)) for c in obj.cls.mro() for b in c.bases):
                    return Unknown("attribute %s of instance with external base" % name)
                ga, gowner = obj.cls.lookup("__getattr__")
                if isinstance(ga, FuncVal) and not name.startswith("__"):
                    return self.call_function(ga, [obj, name], {}, node, frame)
                return self.attr_error(obj, name, node, frame)
            if isinstance(v, FuncVal):
                if v.kind == "staticmethod":
                    return v
                if v.kind == "classmethod":
                    return BoundMethod(v, obj.cls)
                return BoundMethod(v, obj)
            if isinstance(v, PropertyVal):
                if v.fget is None:
                    return self.attr_error(obj, name, node, frame)
                return self.call_function(v.fget, [obj], {}, node, frame)
            return v
        if isinstance(obj, EnumVal):
            if obj.cls is not None and not name.startswith("__"):
                # type.__getattribute__: a data descriptor (property) of the metaclass wins over the class's own namespace
                mv, mowner = obj.cls.lookup(name)
                if isinstance(mv, PropertyVal) and mv.fget is not None:
                    return self.call_function(mv.fget, [obj], {}, node, frame)
                dv = self.descriptor_of(obj.cls, name)
                if dv is not None and dv[1]:
                    return self.call_function(dv[0], [dv[2], obj, obj.cls], {}, node, frame)
            if name in obj.members:
                return obj.members[name]
            if obj.cls is not None:
                v, owner = obj.cls.lookup(name)
                if isinstance(v, PropertyVal) and v.fget is not None:
                    return self.call_function(v.fget, [obj], {}, node, frame)
                if isinstance(v, FuncVal):
                    return BoundMethod(v, obj)
                dv = self.descriptor_of(obj.cls, name)
                if dv is not None:
                    return self.call_function(dv[0], [dv[2], obj, obj.cls], {}, node, frame)
            if name == "__name__":
                return getattr(obj, "type_name", None) or "Enum"
            if name in TYPE_ATTRIBUTES:
                return Unknown("type.%s" % name)                   # what every class object inherits from `type` / `object`
            if obj.cls is not None and not name.startswith("__"):
                ga, owner = obj.cls.lookup("__getattr__")        # a metaclass fallback for names the class does not have
                if isinstance(ga, FuncVal):
                    return self.call_function(ga, [obj, name], {}, node, frame)
            return self.attr_error(obj, name, node, frame)
        if isinstance(obj, External):
            w = getattr(obj, "written", None)
            if w is not None and name in w:
                return w[name]           # the repository's own code stored this attribute on the binding's object
            hook = getattr(self, "external_attr_hook", None)
            if hook is not None:
                hook(obj, name, node, frame)        # may fork on "the binding's object has no such attribute"
            r = External(obj.name + "." + name)
            r.parent = obj
            if self.loading and not self.exploring:
                r.at_import = True       # the object the name referred to when the module was imported
            if obj.name.startswith("stat#"):
                r.stat_field = name              # a field of a stat result: the same for the same node
                if getattr(obj, "inode_gen", None) is not None:
                    r.inode_gen = obj.inode_gen
            return r
        if isinstance(obj, Unknown):
            return Unknown("attr %s of unknown(%s)" % (name, obj.reason))
        if type(obj).__name__ == "SuperProxy":
            I = self
            r = self.super_attr(obj, name, node, frame)
            if r is not _SUPER_TYPE:
                return r
            if name == "__new__":
                def type_new(a, k, n, f):
                    # type.__new__(mcs, name, bases, namespace): a new class whose
                    # namespace is a *copy* of the mapping passed in
                    if len(a) >= 4 and isinstance(a[3], dict):
                        e = EnumVal(dict(a[3]), a[0] if isinstance(a[0], ClassVal) else None)
                        e.type_name = a[1]
                        e.bases = a[2]
                        e.namespace_arg = a[3]
                        I.event("type-new", enum=e, namespace=a[3], where=f.where(n), node=n)
                        # type.__new__ calls __set_name__(owner, name) on every namespace value that defines it
                        for key_, val_ in list(a[3].items()):
                            if isinstance(val_, Instance) and isinstance(val_.cls, ClassVal):
                                sn, snowner = val_.cls.lookup("__set_name__")
                                if isinstance(sn, FuncVal):
                                    I.call_function(sn, [val_, e, key_], {}, n, f)
                        return e
                    return Unknown("type.__new__ with unexpected arguments")
                return Builtin("type.__new__", type_new)
            if name == "__init__":
                return Builtin("type.__init__", lambda a, k, n, f: None)
            return Unknown("super().%s" % name)
        if isinstance(obj, TypeOf):
            if name == "__name__":
                return obj.name
            return Unknown("type attr")
        if isinstance(obj, SymAny):
            # a caller value of unknown type: method calls are modelled loosely
            m = self.any_method(obj, name, node, frame)
            if m is not None:
                return m
            return SymAny(obj.path + ("." + name,))
        if isinstance(obj, BoundMethod) or isinstance(obj, FuncVal):
            fobj = obj.func if isinstance(obj, BoundMethod) else obj
            extra = getattr(fobj, "fattrs", None)
            if extra and name in extra:
                return extra[name]                       # functions take arbitrary attributes
            if name in ("__doc__",):
                return ast.get_docstring(fobj.node) if isinstance(getattr(fobj, "node", None), (ast.FunctionDef, ast.AsyncFunctionDef)) else None
            if name in ("__qualname__",):
                return fobj.name
            if name in ("__module__",):
                return fobj.module.name if getattr(fobj, "module", None) is not None else None
            if name in ("__wrapped__", "__dict__", "__annotations__", "__defaults__", "__kwdefaults__", "__code__", "__closure__", "__globals__"):
                raise AnalysisError("unmodelled-builtin", "function.%s used at %s" % (name, frame.where(node)))
            if name == "__name__":
                return (obj.func if isinstance(obj, BoundMethod) else obj).name
            if name == "__func__" and isinstance(obj, BoundMethod):
                return obj.func
            if name == "__func__" and isinstance(obj, FuncVal) and obj.kind in ("staticmethod", "classmethod"):
                # (read off the staticmethod / classmethod object in a class body: the function it wraps)
                f2 = FuncVal(obj.name, obj.node, obj.module, kind="function", cls=obj.cls, closure=obj.closure)
                f2.defaults, f2.kw_defaults = getattr(obj, "defaults", []), getattr(obj, "kw_defaults", [])
                f2.qualname = obj.qualname
                return f2
            return self.attr_error(obj, name, node, frame)
        m = self.method_of(obj, name, node, frame)
        if m is not None:
            return m
        rt = self.real_type_of(obj)
        if rt is not None and hasattr(rt, name) and name in ("__getitem__", "__setitem__", "__len__", "__contains__", "__iter__", "__delitem__"):
            # the special methods of the built-in containers, called by name: what the corresponding syntax does
            I = self
            if name == "__getitem__":
                return Builtin(name, lambda a, k, n, f: I.get_item(obj, a[0], n, f))
            if name == "__setitem__":
                return Builtin(name, lambda a, k, n, f: I.set_item(obj, a[0], a[1], n, f))
            if name == "__len__":
                return Builtin(name, lambda a, k, n, f: I.len_of(obj, n, f))
            if name == "__contains__":
                return Builtin(name, lambda a, k, n, f: I.contains(obj, a[0], n, f))
            if name == "__iter__":
                return Builtin(name, lambda a, k, n, f: I.bi_iter([obj], {}, n, f))
        return self.attr_error(obj, name, node, frame)

    def super_attr(self, sp, name, node, frame):
        """super().name: the next definition of `name` after the class the running method was written in, along the MRO of the
        object's class, bound to the object; the built-in ends of the chain (object, type, the exception classes) as python
        defines them.  _SUPER_TYPE: the chain ends in `type` itself (a metaclass creating its class)"""
        start, o = sp.start, sp.obj
        if isinstance(o, Instance):
            chain = o.cls.mro()
        elif isinstance(o, ClassVal):
            chain = o.mro() if (isinstance(start, ClassVal) and start in o.mro()) else (o.metaclass.mro() if isinstance(o.metaclass, ClassVal) else [])
        elif isinstance(o, EnumVal) and isinstance(o.cls, ClassVal):
            chain = o.cls.mro()
        else:
            chain = []
        if not isinstance(start, ClassVal) or start not in chain:
            if isinstance(start, ClassVal) and any(c.builtin and c.name == "type" for c in start.mro()):
                chain = start.mro()                  # a metaclass method running for a class it is creating
            else:
                raise AnalysisError("unmodelled-builtin", "super() outside the class hierarchy of its object at %s" % frame.where(node))
        rest = chain[chain.index(start) + 1:]
        for c in rest:
            if c.builtin:
                break
            if name in c.attrs or name in c.injected:
                v = c.attrs[name] if name in c.attrs else c.injected[name]
                if isinstance(v, FuncVal):
                    if v.kind == "staticmethod" or name == "__new__":
                        return v
                    if v.kind == "classmethod":
                        return BoundMethod(v, o if isinstance(o, (ClassVal, EnumVal)) else o.cls)
                    if name == "__init_subclass__" and isinstance(o, ClassVal):
                        return BoundMethod(v, o)
                    return BoundMethod(v, o)
                if isinstance(v, PropertyVal):
                    if v.fget is None:
                        return self.attr_error(o, name, node, frame)
                    return self.call_function(v.fget, [o], {}, node, frame)
                return v
        builtin_tail = [c for c in rest if c.builtin]
        if any(c.name == "type" for c in builtin_tail):
            if name in ("__new__", "__init__"):
                return _SUPER_TYPE
            if name in ("__call__", "__getattribute__", "__setattr__", "__delattr__", "mro", "__prepare__", "__instancecheck__", "__subclasscheck__"):
                raise AnalysisError("unmodelled-builtin", "super().%s of a metaclass at %s" % (name, frame.where(node)))
        if name == "__init__":
            exc = any(c.name in ("BaseException", "Exception") for c in builtin_tail)

            def base_init(a, k, n, f):
                if exc and isinstance(o, Instance):
                    o.args = tuple(a)
                elif (a or k) and not exc and not builtin_tail[:-1]:
                    raise PyRaise(Instance(self.bclasses["TypeError"], ("object.__init__() takes exactly one argument (the instance to initialize)",)), n, f.where(n))
                return None
            return Builtin("super().__init__", base_init)
        if name in ("__init_subclass__", "__set_name__", "__post_init__"):
            return Builtin("object.%s" % name, lambda a, k, n, f: None)
        if name == "__setattr__" and isinstance(o, Instance):
            return Builtin("object.__setattr__", lambda a, k, n, f: self.get_attr(self.bclasses["object"], "__setattr__", n, f).fn([o] + list(a), k, n, f))
        if name == "__enter__" or name == "__exit__":
            return self.attr_error(o, name, node, frame)
        if name in ("__str__", "__repr__", "__eq__", "__ne__", "__hash__", "__getattribute__", "__getattr__", "__delattr__", "__new__",
                    "__reduce__", "__format__", "__sizeof__", "__dir__", "__class__"):
            raise AnalysisError("unmodelled-builtin", "super().%s reaching a built-in class at %s" % (name, frame.where(node)))
        return self.attr_error(o, name, node, frame)

    def full_mro(self, cls):
        m = cls.mro()
        return m if any(c.builtin and c.name == "object" for c in m) else m + [self.bclasses["object"]]

    def descriptor_of(self, cls, name):
        """(its __get__, is-a-data-descriptor, the descriptor object) when the class attribute `name` is an object whose
        class defines __get__ -- python's descriptor protocol for objects other than functions and properties"""
        v, owner = cls.lookup(name)
        if owner is None or not isinstance(v, Instance) or not isinstance(v.cls, ClassVal):
            return None
        g, gowner = v.cls.lookup("__get__")
        if not isinstance(g, FuncVal):
            return None
        data = isinstance(v.cls.lookup("__set__")[0], FuncVal) or isinstance(v.cls.lookup("__delete__")[0], FuncVal)
        return g, data, v

    def class_attr(self, cls, name, node, frame):
        dv = self.descriptor_of(cls, name)
        if dv is not None and not getattr(self, "_raw_class_attr", False):
            return self.call_function(dv[0], [dv[2], None, cls], {}, node, frame)        # Class.attr: __get__(None, Class)
        v, owner = cls.lookup(name)
        if owner is None and name == "__subclasses__":
            # the classes written (so far) directly below this one, in the order they were created
            subs = [c for c in getattr(self, "all_classes", []) if cls in c.bases]
            return Builtin("%s.__subclasses__" % cls.name, lambda a, k, n, f: list(subs))
        if owner is None:
            if name == "__name__":
                return cls.name
            if name == "__dict__":
                return cls.attrs
            if name == "__mro__":
                return tuple(self.full_mro(cls))
            if name == "mro":
                return Builtin("%s.mro" % cls.name, lambda a, k, n, f: list(self.full_mro(cls)))
            if name == "__bases__":
                return tuple(cls.bases) if cls.bases else (self.bclasses["object"],)
            if name == "__qualname__":
                return cls.name
            if name == "__module__":
                return cls.module.name if cls.module is not None else "builtins"
            if cls.builtin and cls.name == "type" and name == "__new__":
                I0 = self

                def explicit_type_new(a, k, n, f):
                    # type.__new__(mcs, name, bases, namespace) called by name from a metaclass: a new class object whose
                    # namespace is a copy of the mapping
                    if len(a) == 4 and isinstance(a[3], dict) and isinstance(a[1], str):
                        bs = [b for b in (I0.iterate(a[2], n, f) or []) if isinstance(b, ClassVal)]
                        c = ClassVal(a[1], f.module if f is not None and hasattr(f, "module") else None, bs,
                                     metaclass=a[0] if isinstance(a[0], ClassVal) else None)
                        c.attrs = dict(a[3])
                        c.made_by_type_new = True
                        for key_, val_ in list(c.attrs.items()):
                            if isinstance(val_, Instance) and isinstance(val_.cls, ClassVal):
                                sn, snowner = val_.cls.lookup("__set_name__")
                                if isinstance(sn, FuncVal):
                                    I0.call_function(sn, [val_, c, key_], {}, n, f)
                        return c
                    raise AnalysisError("unmodelled-builtin", "type.__new__ with these arguments at %s" % f.where(n))
                return Builtin("type.__new__", explicit_type_new)
            if cls.builtin or any(c.builtin for c in cls.mro()):
                if name == "__setattr__":
                    I2 = self

                    def object_setattr(a, k, n, f):
                        # object.__setattr__(obj, name, value): the plain store, past any __setattr__ of the class
                        was = getattr(I2, "_object_setattr", False)
                        I2._object_setattr = True
                        try:
                            I2.set_attr(a[0], a[1], a[2], n, f)
                        finally:
                            I2._object_setattr = was
                        return None
                    return Builtin("object.__setattr__", object_setattr)
                if name == "__init_subclass__":
                    return Builtin("object.__init_subclass__", lambda a, k, n, f: None)
                if name in ("__init__", "__new__", "mro", "__doc__", "__module__", "__qualname__", "__subclasses__"):
                    return Builtin("%s.%s" % (cls.name, name), lambda a, k, n, f: None)
                if cls.name == "dict" and name == "fromkeys":
                    I1 = self

                    def fromkeys(a, k, n, f):
                        keys = I1.iterate(a[0], n, f)
                        if keys is None:
                            raise AnalysisError("unmodelled-builtin", "dict.fromkeys over a dynamic iterable at %s" % f.where(n))
                        return {I1.hash_check(x, n, f): (a[1] if len(a) > 1 else None) for x in keys}
                    return Builtin("dict.fromkeys", fromkeys)
                if cls.name == "int" and name == "from_bytes":
                    I = self

                    def from_bytes(a, k, n, f):
                        order = a[1] if len(a) > 1 else k.get("byteorder", "big")
                        items = I.iterate(a[0], n, f)
                        if items is None or order not in ("big", "little") or k.get("signed"):
                            return Unknown("int.from_bytes of a dynamic buffer / order")
                        if order == "little":
                            items = list(reversed(items))
                        acc = 0
                        for x in items:
                            acc = I.binop("|", I.binop("<<", acc, 8, n, f), x, n, f)
                        return acc
                    return Builtin("int.from_bytes", from_bytes)
            if any(isinstance(b, (External, Unknown)) for c in cls.mro() for b in c.bases):
                return Unknown("attribute %s of class with external base" % name)
            return self.attr_error(cls, name, node, frame)
        if isinstance(v, FuncVal):
            if v.kind == "classmethod":
                return BoundMethod(v, cls)
            return v
        return v

    def set_attr(self, obj, name, v, node, frame):
        if isinstance(obj, Instance) and isinstance(obj.cls, ClassVal):
            dobj, downer = obj.cls.lookup(name)
            if isinstance(dobj, Instance) and isinstance(dobj.cls, ClassVal) and not getattr(self, "_object_setattr", False):
                sf, sowner = dobj.cls.lookup("__set__")
                if isinstance(sf, FuncVal):
                    self.call_function(sf, [dobj, obj, v], {}, node, frame)
                    return
                if isinstance(dobj.cls.lookup("__delete__")[0], FuncVal):
                    raise PyRaise(Instance(self.bclasses["AttributeError"], ("__set__",)), node, frame.where(node))
        if isinstance(obj, Instance):
            pv, owner = obj.cls.lookup(name)
            if isinstance(pv, PropertyVal):
                if pv.fset is None:
                    return self.attr_error(obj, name, node, frame)
                self.call_function(pv.fset, [obj, v], {}, node, frame)
                return
            if getattr(obj.cls, "dc_frozen", False) or any(getattr(c, "dc_frozen", False) for c in obj.cls.mro()):
                if not getattr(self, "_object_setattr", False):
                    from .standin import ExtExc
                    raise PyRaise(ExtExc("FrozenInstanceError", ("FrozenInstanceError", "AttributeError", "Exception", "BaseException")),
                                  node, frame.where(node))
            self.event("attr-store", target="instance", cls=obj.cls.qualname, name=name, value=v,
                       where=frame.where(node), node=node, obj=obj)
            obj.attrs[name] = v
            return
        if isinstance(obj, ClassVal):
            if name == "__name__" and isinstance(v, str):
                obj.name = v                  # a class renamed after its creation answers to the new name
                return
            if name in ("__qualname__", "__doc__", "__module__"):
                obj.attrs[name] = v
                return
            if not self.loading or self.exploring:
                self.journal.append(("attr", obj.attrs, name, obj.attrs.get(name, _ABSENT)))
                self.event("class-store", cls=obj.qualname, name=name, value=v, where=frame.where(node), node=node)
            obj.attrs[name] = v
            return
        if isinstance(obj, ModuleVal):
            if not self.loading or self.exploring:
                self.journal.append(("attr", obj.env, name, obj.env.get(name, _ABSENT)))
                self.event("global-store", module=obj.name, name=name, where=frame.where(node))
            obj.env[name] = v
            return
        if isinstance(obj, EnumVal):
            if obj.cls is not None and not name.startswith("__"):
                mv, mowner = obj.cls.lookup(name)
                if isinstance(mv, PropertyVal):        # type.__setattr__: the metaclass's data descriptor takes the store
                    if mv.fset is None:
                        raise PyRaise(Instance(self.bclasses["AttributeError"], ("property '%s' of '%s' object has no setter" % (name, obj.cls.name),)),
                                      node, frame.where(node))
                    self.call_function(mv.fset, [obj, v], {}, node, frame)
                    return
            if id(obj) in self.static_ids and (not self.loading or self.exploring):
                self.journal.append(("dict", obj.members, None, dict(obj.members)))
                self.event("static-mutation", obj=obj, origin=self.static_ids[id(obj)], where=frame.where(node))
            obj.members[name] = v
            return
        if isinstance(obj, FuncVal):
            if getattr(obj, "fattrs", None) is None:
                obj.fattrs = {}
            obj.fattrs[name] = v
            return
        if isinstance(obj, (External, Unknown, SymAny)):
            self.event("external-attr-store", obj=obj, name=name, value=v, where=frame.where(node), node=node)
            if isinstance(obj, External):
                w = getattr(obj, "written", None)
                if w is None:
                    w = obj.written = {}
                self.journal.append(("dict", w, None, dict(w)))
                w[name] = v
            return
        self.attr_error(obj, name, node, frame)

    # ------------------------------------------------------------------
    # subscripts
    # ------------------------------------------------------------------
    SMALL_TABLE = 12

    def small_table_lookup(self, table, key, node, frame):
        """a dictionary with a handful of integer keys subscripted by a symbolic integer is a dispatch table: one case per key
        (key == k, recorded as a path fact like the if/elif chain it replaces) and the case of no match.
        Returns (found, value) or None when the table is not of that kind."""
        if not (0 < len(table) <= self.SMALL_TABLE) or "**" in table:
            return None
        if not all(isinstance(k, int) and not isinstance(k, bool) for k in table):
            return None
        for k in table:
            if self.compare(ast.Eq(), key, k, node, frame):
                return (True, table[k])
        return (False, None)

    def key_error(self, key, node, frame, obj=None):
        self.event("key-error", key=key, where=frame.where(node), node=node, obj=obj)
        raise PyRaise(Instance(self.bclasses["KeyError"], (key,)), node, frame.where(node))

    def index_error(self, node, frame):
        raise PyRaise(Instance(self.bclasses["IndexError"], ("index out of range",)), node, frame.where(node))

    def static_slice(self, sl, n):
        """concrete (start, stop) for a slice with static bounds over length n"""
        lo, hi = norm_int(sl.start), norm_int(sl.stop)
        if sl.step is not None:
            return None
        if not (lo is None or isinstance(lo, int)) or not (hi is None or isinstance(hi, int)):
            return None
        s, e, _ = slice(lo, hi).indices(n)
        return s, max(s, e)

    def get_item(self, obj, key, node, frame):
        key = norm_int(key) if not isinstance(key, slice) else key
        if isinstance(obj, ChainMapVal):
            for m in obj.maps:
                if self.contains(m, key, node, frame):
                    return self.get_item(m, key, node, frame)
            return self.key_error(key, node, frame, obj.maps[0])
        if isinstance(obj, ClassVal) and self.enum_class_of(obj) is not None:
            if isinstance(key, str):
                members = self.enum_class_of(obj).enum_members
                if key in members:
                    return members[key]
                return self.key_error(key, node, frame, members)
            raise AnalysisError("unmodelled-stdlib", "%s[<not a constant name>] at %s" % (obj.name, frame.where(node)))
        if isinstance(obj, Unknown):
            return Unknown("item of unknown(%s)" % obj.reason)
        if isinstance(obj, External):
            return External(obj.name + "[]")
        if isinstance(obj, dict):
            if isinstance(key, Sym) or (isinstance(key, External) and not isinstance(key, type) and obj and all(isinstance(k, int) for k in obj)):
                # (a number the binding handed over -- a status byte -- is a number too: compared with each key in turn)
                hit = self.small_table_lookup(obj, key, node, frame)
                if hit is not None:
                    if hit[0]:
                        return hit[1]
                    return self.key_error(key, node, frame, obj)
            if isinstance(key, (Sym, SymAny, SymStr, Unknown)):
                guarded = any(t & {"*", "KeyError", "LookupError", "Exception", "BaseException"} for t in self.try_stack)
                self.event("dynamic-dict-lookup", obj=obj, key=key, where=frame.where(node), node=node,
                           origin=self.origin_of.get(id(obj)), guarded=guarded)
                if guarded and self.decide("the key is not in the table", node, frame):
                    # the code itself expects a miss (it subscripts under a handler for KeyError): evaluate that path
                    return self.key_error(key, node, frame, obj)
                return Unknown("dict lookup with dynamic key")
            try:
                if key in obj:
                    return obj[key]
            except TypeError:
                return Unknown("unhashable key")
            if "**" in obj and isinstance(obj["**"], (SymDict, SymAny)):
                return self.get_item(obj["**"], key, node, frame)
            if isinstance(obj, DefaultDictVal) and obj.factory is not None:
                v = self.call(obj.factory, [], {}, node, frame)       # a missing key is made on the spot
                self.set_item(obj, key, v, node, frame)
                return v
            return self.key_error(key, node, frame, obj)
        if isinstance(obj, SymDict):
            if isinstance(key, (str, int)) and not isinstance(key, Sym):
                obj.reads.append((key, "sub", frame.where(node)))
                if key in obj.known:
                    return obj.known[key]
                if obj.present.get(key) is False:
                    return self.key_error(key, node, frame, obj)
                self.event("symdict-sub", dict=obj.name, key=key, where=frame.where(node), node=node)
                v = SymAny((obj.name, key))
                obj.known[key] = v
                self.journal.append(("symknown", obj, key, None))
                return v
            return SymAny((obj.name, "[?]"))
        if isinstance(obj, SymAny):
            if isinstance(key, slice):
                r = SymAny(obj.path + ("[%s:%s]" % (self.brief(key.start), self.brief(key.stop)),))
                r.slice_of = (obj, key)
                return r
            if isinstance(key, (str, int)):
                self.event("symany-sub", path=obj.path, key=key, where=frame.where(node), node=node)
                return SymAny(obj.path + (key,))
            return SymAny(obj.path + ("[?]",))
        if isinstance(obj, (list, tuple, str, bytes)):
            if isinstance(key, slice):
                ss = self.static_slice(key, len(obj))
                if ss is None:
                    return Unknown("dynamic slice of static sequence")
                return obj[ss[0]:ss[1]]
            if isinstance(key, int):
                try:
                    return obj[key]
                except IndexError:
                    return self.index_error(node, frame)
            if isinstance(obj, list) and getattr(frame, "loop_depth", 0):
                return obj[0] if obj else Unknown("element of empty summary list")
            return Unknown("dynamic index into static sequence")
        if isinstance(obj, range):
            if isinstance(key, int):
                return obj[key]
            return Unknown("range index")
        if isinstance(obj, SymList):
            if isinstance(key, slice):
                return obj
            return obj.elem
        if isinstance(obj, Buf):
            return self.buf_get(obj, key, node, frame)
        if isinstance(obj, View):
            return self.view_get(obj, key, node, frame)
        if isinstance(obj, SymBytes):
            if isinstance(key, slice):
                lo = norm_int(key.start) or 0
                hi = norm_int(key.stop)
                r = SymBytes((obj.name, "[%s:%s]" % (self.brief(lo), self.brief(hi))))
                if isinstance(lo, int) and isinstance(hi, int):
                    # length is min(hi-lo, len-lo): assume long enough, note it
                    r.length = max(0, hi - lo)
                    r.assumed_long_enough = True
                r.slice_of = (obj, key)
                return r
            return Sym(bits=[frozenset([("p", (obj.name, key if isinstance(key, int) else "?"), j)]) for j in range(8)])
        if isinstance(obj, SymStr):
            return SymStr((obj.name, "[...]"))
        if isinstance(obj, EnumVal):
            v, owner = obj.cls.lookup("__getitem__") if obj.cls else (None, None)
            if isinstance(v, FuncVal):
                return self.call_function(v, [obj, key], {}, node, frame)
        if isinstance(obj, Instance):
            v, owner = obj.cls.lookup("__getitem__")
            if isinstance(v, FuncVal):
                return self.call_function(v, [obj, key], {}, node, frame)
        self.event("type-error", op="subscript", left=obj, where=frame.where(node), node=node)
        raise PyRaise(Instance(self.bclasses["TypeError"], ("%r object is not subscriptable" % self.kind_of(obj),)),
                      node, frame.where(node))

    def brief(self, v):
        v = norm_int(v)
        if v is None:
            return ""
        if isinstance(v, int):
            return str(v)
        return repr(v)

    def buf_get(self, b, key, node, frame):
        if isinstance(key, slice):
            if b.cells is not None:
                ss = self.static_slice(key, len(b.cells))
                if ss is not None:
                    r = Buf(cells=list(b.cells[ss[0]:ss[1]]))
                    r.pytype = getattr(b, "pytype", None)
                    return r
            r = Buf(cells=None, length=Sym.opaque(("len", "slice", id(b), self.brief(key.start), self.brief(key.stop))))
            r.parts = [("slice", b, key)]
            r.pytype = getattr(b, "pytype", None)
            return r
        if isinstance(key, int):
            if b.cells is not None:
                try:
                    return b.cells[key]
                except IndexError:
                    return self.index_error(node, frame)
            return Sym(bits=[frozenset([("p", ("cell", id(b), key), j)]) for j in range(8)])
        return Unknown("dynamic index into buffer")

    def cursor_split(self, x, registered=True):
        """x = cursor + rest for one loop cursor (an integer variable a summarised loop advances): (cursor name, rest).
        registered=False: after the path has ended (the registry of live cursors is gone): any loop variable symbol"""
        x = norm_int(x)
        if not isinstance(x, Sym) or x.poly is None or (registered and not self.cursors):
            return None
        found = None
        for m, c in x.poly.items():
            for name in m:
                if isinstance(name, tuple) and name and name[0] == "loopvar" and (name in self.cursors or not registered):
                    if len(m) != 1 or c != 1 or (found is not None and found != name):
                        return None
                    found = name
        if found is None:
            return None
        rest = {m: c for m, c in x.poly.items() if m != (found,)}
        if p_is_const(rest):
            return found, p_const_value(rest)
        # (every symbol of a position is a length or a field read: non-negative; the bound holds when no term is subtracted)
        lo = p_const_value(rest) if all(c >= 0 for m, c in rest.items() if m != ()) else -(1 << 64)
        return found, Sym(bits=None, poly=rest, lo=lo)

    def cursor_view(self, v, cname):
        """the view that starts where the cursor stands in v (v itself where the cursor started, advanced by the loop)"""
        rec = self.cursors[cname]
        hit = rec["views"].get(id(v))
        if hit is not None:
            return hit[1]
        pre = norm_int(rec["pre"])
        if isinstance(pre, int):
            start = pos_add(v.lo, pre)
        else:
            start = (("dyn", v.lo, self.sym_name(pre)), 0)
        W = View(v.root, lo=(("loop", cname[1], cname[2], start), 0), hi=v.hi, hi_val=v.hi_val)
        W.end = getattr(v, "end", None)
        W.cursor_of = (v, cname)
        P = View(v.root, lo=start, hi=v.hi, hi_val=v.hi_val)        # where the walk starts: v from the cursor's first value
        P.end = getattr(v, "end", None)
        rec["views"][id(v)] = (v, W, P)
        return W

    def view_get(self, v, key, node, frame):
        if isinstance(key, slice) and key.step is None:
            cs = self.cursor_split(key.start)
            if cs is not None and cs[0][1] in self.loop_stack:
                ch = self.cursor_split(key.stop) if key.stop is not None else None
                if key.stop is None or (ch is not None and ch[0] == cs[0]):
                    W = self.cursor_view(v, cs[0])
                    return self.view_get(W, slice(cs[1], ch[1] if ch is not None else None), node, frame)
                stop = norm_int(key.stop)
                if ch is None and isinstance(stop, (int, Sym)) and not isinstance(stop, bool):
                    # V[cursor + a : E] with E a position in V that does not move with the cursor: the rest of the window
                    W = self.cursor_view(v, cs[0])
                    nv = self.view_get(W, slice(cs[1], None), node, frame)
                    if isinstance(nv, View):
                        nv.end = (v.lo, stop)
                        nv.hi = pos_add(v.lo, stop) if isinstance(stop, int) else (("dyn", v.lo, self.sym_name(stop)), 0)
                        nv.hi_val = stop
                        nv.length = None
                    return nv
        elif not isinstance(key, slice):
            cs = self.cursor_split(key)
            if cs is not None and cs[0][1] in self.loop_stack and isinstance(cs[1], int):
                return self.view_get(self.cursor_view(v, cs[0]), cs[1], node, frame)
        if isinstance(key, slice):
            if key.step is not None:
                return Unknown("stepped slice of view")
            lo, hi = norm_int(key.start), norm_int(key.stop)
            if lo is None:
                lo = 0
            if isinstance(lo, int) and lo < 0 or isinstance(hi, int) and hi < 0:
                return Unknown("negative slice bound on device view")
            self.event("view-slice", view=v, lo=lo, hi=hi, where=frame.where(node), node=node)
            # new lower position
            if isinstance(lo, int):
                nlo = pos_add(v.lo, lo)
            else:
                nlo = (("dyn", v.lo, self.sym_name(lo)), 0)
            nv = View(v.root, lo=nlo, hi=v.hi, hi_val=v.hi_val)
            nv.parent = v
            nv.lo_val = lo
            nv.end = getattr(v, "end", None)     # (anchor position, length value): the view ends at anchor + length
            if hi is not None:
                nv.end = (v.lo, hi)
            if hi is not None:
                if isinstance(hi, int) and isinstance(lo, int):
                    nv.hi = pos_add(v.lo, hi)
                    nv.hi_val = hi
                    nv.length = max(0, hi - lo)
                    if v.length is not None:
                        nv.length = max(0, min(hi, v.length) - lo)
                else:
                    nv.hi = (("dyn", v.lo, self.sym_name(hi)), 0)
                    nv.hi_val = hi
                    nv.length = None
            else:
                if v.length is not None and isinstance(lo, int):
                    nv.length = max(0, v.length - lo)
            nv.window = (v, lo, hi)
            return nv
        if isinstance(key, int):
            if key < 0:
                return Unknown("negative index on device view")
            if v.length is not None and key >= v.length:
                return self.index_error(node, frame)
            self.event("view-byte", view=v, index=key, where=frame.where(node), node=node)
            return mem_byte(v.root, pos_add(v.lo, key))
        return Unknown("dynamic index into device view")

    def sym_name(self, v):
        if isinstance(v, Sym):
            k = ("sym", v.key())
            self.dyn_syms[k] = v
            return k
        return v

    def set_item(self, obj, key, v, node, frame):
        key = norm_int(key) if not isinstance(key, slice) else key
        if isinstance(obj, ChainMapVal):
            obj = obj.maps[0]                 # writes go to the first mapping
        if isinstance(obj, dict):
            if id(obj) in self.static_ids and (not self.loading or self.exploring):
                self.journal.append(("dict", obj, None, dict(obj)))
                self.event("static-mutation", obj=obj, origin=self.static_ids[id(obj)], where=frame.where(node), node=node)
            try:
                obj[key] = v
            except TypeError:
                self.notes.append(("unhashable-key-store", frame.where(node)))
            if isinstance(v, View) and isinstance(key, str):
                self.event("view-stored", key=key, view=v, where=frame.where(node), node=node)
            return
        if isinstance(obj, SymDict):
            obj.writes.append((key, v, frame.where(node)))
            self.event("caller-dict-store", dict=obj.name, key=key, value=v, where=frame.where(node), node=node)
            if isinstance(key, (str, int)):
                if key not in obj.known:
                    self.journal.append(("symknown", obj, key, None))
                obj.known[key] = v
            return
        if isinstance(obj, list):
            if id(obj) in self.static_ids and (not self.loading or self.exploring):
                self.journal.append(("list", obj, None, list(obj)))
                self.event("static-mutation", obj=obj, origin=self.static_ids[id(obj)], where=frame.where(node), node=node)
            if isinstance(key, int):
                try:
                    obj[key] = v
                except IndexError:
                    self.index_error(node, frame)
            return
        if isinstance(obj, Buf):
            return self.buf_set(obj, key, v, node, frame)
        if isinstance(obj, (Unknown, SymAny)):
            self.event("caller-obj-store", obj=obj, key=key, value=v, where=frame.where(node), node=node)
            return
        if isinstance(obj, (View, SymBytes, bytes, str, tuple)):
            self.event("type-error", op="item-store", left=obj, where=frame.where(node), node=node)
            if isinstance(obj, (View, SymBytes)):
                # device/caller buffers are bytearrays in practice: writing is possible
                self.event("input-buffer-store", obj=obj, key=key, where=frame.where(node), node=node)
                return
            raise PyRaise(Instance(self.bclasses["TypeError"], ("%r does not support item assignment" % self.kind_of(obj),)),
                          node, frame.where(node))
        self.event("type-error", op="item-store", left=obj, where=frame.where(node), node=node)
        raise PyRaise(Instance(self.bclasses["TypeError"], ("%r does not support item assignment" % self.kind_of(obj),)),
                      node, frame.where(node))

    def buf_set(self, b, key, v, node, frame):
        if getattr(b, "pytype", None) in ("bytes", "memoryview-ro"):
            raise PyRaise(Instance(self.bclasses["TypeError"], ("'%s' object does not support item assignment" % b.pytype,)), node, frame.where(node))
        self.journal_buf(b)
        v = norm_int(v)
        if isinstance(key, int):
            if isinstance(v, (Buf, View, bytes, list, str, dict)) or v is None:
                self.event("type-error", op="byte-store", left=b, right=v, where=frame.where(node), node=node)
                raise PyRaise(Instance(self.bclasses["TypeError"], ("an integer is required",)), node, frame.where(node))
            self.event("buf-store", buf=b, index=key, value=v, where=frame.where(node), node=node)
            if b.cells is not None:
                if key >= len(b.cells) or key < -len(b.cells):
                    return self.index_error(node, frame)
                if isinstance(v, Sym) and (v.hi is None or v.hi > 255):
                    self.event("byte-overflow-possible", buf=b, index=key, value=v, where=frame.where(node), node=node)
                b.cells[key] = v
            return
        if isinstance(key, slice):
            self.event("buf-slice-store", buf=b, key=key, value=v, where=frame.where(node), node=node)
            if isinstance(v, (int, Sym)) or v is None:
                self.event("type-error", op="slice-store", left=b, right=v, where=frame.where(node), node=node)
                raise PyRaise(Instance(self.bclasses["TypeError"], ("can assign only bytes, buffers, or iterables of ints",)),
                              node, frame.where(node))
            if isinstance(v, GenVal):
                rest = v.items[v.pos:]
                self.gen_advance(v, len(v.items), node, frame)
                v = Buf(cells=rest)
            if isinstance(v, list):
                v = Buf(cells=list(v))
            cells = self.buf_cells(v)
            if b.cells is not None:
                ss = self.static_slice(key, len(b.cells))
                if ss is not None and cells is not None:
                    b.cells[ss[0]:ss[1]] = cells
                    b.length = len(b.cells)
                    if len(cells) != ss[1] - ss[0]:
                        self.event("buf-resized", buf=b, key=key, old=ss[1] - ss[0], new=len(cells),
                                   where=frame.where(node), node=node)
                    return
                if ss is not None:
                    # value of dynamic length written over a static slice: the
                    # buffer is resized unless the lengths happen to agree
                    vlen = self.len_of(v, node, frame)
                    self.event("buf-dynamic-splice", buf=b, key=key, value=v, vlen=vlen, span=ss,
                               where=frame.where(node), node=node)
                    if isinstance(vlen, int) and vlen == ss[1] - ss[0]:
                        for i in range(ss[0], ss[1]):
                            b.cells[i] = Sym(bits=[frozenset([("p", ("blob", self.name_of(v), i - ss[0]), j)]) for j in range(8)])
                        return
                    if not hasattr(b, "splices"):
                        b.splices = []
                    b.splices.append((ss, v, vlen))
                    for i in range(ss[0], ss[1]):
                        b.cells[i] = Sym(bits=[frozenset([("p", ("blob", self.name_of(v), i - ss[0]), j)]) for j in range(8)])
                    return
                # dynamic bounds
                self.event("buf-dynamic-slice-store", buf=b, key=key, value=v, where=frame.where(node), node=node)
                if not hasattr(b, "dyn_stores"):
                    b.dyn_stores = []
                b.dyn_stores.append((key, v))
                return
            if not hasattr(b, "dyn_stores"):
                b.dyn_stores = []
            b.dyn_stores.append((key, v))
            return
        return

    def del_item(self, obj, key, node, frame):
        if isinstance(obj, dict):
            if id(obj) in self.static_ids and (not self.loading or self.exploring):
                self.journal.append(("dict", obj, None, dict(obj)))
                self.event("static-mutation", obj=obj, origin=self.static_ids[id(obj)], where=frame.where(node), node=node)
            try:
                if key in obj:
                    del obj[key]
                    return
            except TypeError:
                return
            return self.key_error(key, node, frame, obj)
        if isinstance(obj, SymDict):
            obj.known.pop(key, None)
            obj.present[key] = False
            self.event("caller-dict-store", dict=obj.name, key=key, value=None, where=frame.where(node), node=node)
            return
        if isinstance(obj, list) and isinstance(key, int):
            try:
                del obj[key]
            except IndexError:
                self.index_error(node, frame)
            return
        if isinstance(obj, list) and isinstance(key, slice):
            ss = self.static_slice(key, len(obj))
            if ss is not None:
                del obj[ss[0]:ss[1]]
                return
        if isinstance(obj, Buf):
            # bytes and memoryview objects cannot shrink; a bytearray can
            if getattr(obj, "pytype", None) in ("bytes", "memoryview", "memoryview-ro"):
                raise PyRaise(Instance(self.bclasses["TypeError"], ("'%s' object doesn't support item deletion" % obj.pytype,)), node, frame.where(node))
            if obj.cells is not None:
                self.journal_buf(obj)
                if isinstance(key, slice):
                    ss = self.static_slice(key, len(obj.cells))
                    if ss is not None:
                        del obj.cells[ss[0]:ss[1]]
                        obj.length = len(obj.cells)
                        return
                elif isinstance(key, int) and -len(obj.cells) <= key < len(obj.cells):
                    del obj.cells[key]
                    obj.length = len(obj.cells)
                    return
                else:
                    return self.index_error(node, frame)
            self.notes.append(("dynamic-buffer-delete", frame.where(node)))
            return
