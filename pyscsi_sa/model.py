"""Program model: every module of /repo/pyscsi loaded into the abstract
interpreter, plus AST-level indexes used by the structural rules."""
from __future__ import annotations

import ast
import os

from .interp import Interp
from .rt import *
from .values import *


def is_table(d):
    """a layout table: {name: [mask, off] | (kind, off, len)}"""
    if not isinstance(d, dict) or not d:
        return False
    for k, v in d.items():
        if not isinstance(k, str):
            return False
        if not isinstance(v, (list, tuple)):
            return False
        if len(v) == 2 and isinstance(v[0], int) and isinstance(v[1], int) and not isinstance(v[0], bool):
            continue
        if len(v) == 3 and isinstance(v[0], str) and isinstance(v[1], int) and isinstance(v[2], int):
            continue
        return False
    return True


class Program:
    def __init__(self, repo="/repo", missing=(), mode=None):
        """mode: None = the default interpreter; "-O" = assert statements removed; "-W error" = warnings.warn raises;
        "-bb" = comparing bytes with str raises BytesWarning"""
        mode = mode if mode is not None else os.environ.get("PYSCSI_SA_MODE") or None
        self.mode = mode
        self.repo = os.path.abspath(repo)
        self.I = Interp(self.repo)
        self.I.strip_asserts = (mode == "-O")
        self.I.warnings_raise = (mode == "-W error")
        self.I.bytes_warning = (mode == "-bb")
        self.I.missing_modules = set(missing)
        self.module_names = []
        pkg = os.path.join(self.repo, "pyscsi")
        if not os.path.isdir(pkg):
            raise AnalysisError("anchor-missing", "no pyscsi package under %s" % self.repo)
        for root, dirs, files in os.walk(pkg):
            dirs[:] = sorted(d for d in dirs if d != "__pycache__")
            for f in sorted(files):
                if f.endswith(".py"):
                    p = os.path.relpath(os.path.join(root, f), self.repo)[:-3].replace(os.sep, ".")
                    if p.endswith(".__init__"):
                        p = p[: -len(".__init__")]
                    self.module_names.append(p)
        # import order: the facade first (it imports every command module in a
        # fixed order, like a user's ``from pyscsi.pyscsi.scsi import SCSI``)
        order = sorted(self.module_names)
        for m in order:
            self.I.load_module(m)
        self.modules = {m: self.I.modules[m] for m in order}
        self.load_events = list(self.I.events)
        self.external_modules = sorted(n for n, m in self.I.modules.items() if m.external)
        self._func_index = None

    # -- lookups -----------------------------------------------------------
    def module(self, name):
        m = self.modules.get(name)
        if m is None:
            raise AnalysisError("anchor-missing", "module %s" % name)
        return m

    def get(self, modname, name):
        m = self.module(modname)
        if name not in m.env:
            if isinstance(m.env.get("__getattr__"), FuncVal):
                # a module that makes its attributes on first access (PEP 562): ask it
                class _W:
                    def where(self, node=None):
                        return "module attribute probe"
                try:
                    return self.I.get_attr(m, name, None, _W())
                except PyRaise:
                    pass
            raise AnalysisError("anchor-missing", "%s:%s" % (modname, name))
        return m.env[name]

    def cls(self, modname, name):
        m = self.modules.get(modname)
        if m is None or name not in m.env:
            # the class moved to another module of the library: it is still the one class of that name
            same = [c for c in self.classes() if c.name == name]
            if len(same) == 1:
                return same[0]
        c = self.get(modname, name)
        if not isinstance(c, ClassVal):
            raise AnalysisError("anchor-missing", "%s:%s is not a class" % (modname, name))
        return c

    def rel(self, module):
        return os.path.relpath(module.path, self.repo) if module.path else module.name

    def classes(self):
        seen = []
        for m in self.modules.values():
            for k, v in m.env.items():
                if isinstance(v, ClassVal) and v.module is m and v not in seen:
                    seen.append(v)
        return seen

    def command_classes(self):
        base = self.cls("pyscsi.pyscsi.scsi_command", "SCSICommand")
        return [c for c in self.classes() if c is not base and c.is_subclass(base)]

    def tables(self):
        """every literal layout table: (origin, owner, attr, dict, file, line)"""
        out = []
        seen = set()

        def visit_dict(origin, owner, attr, d, module, line):
            if id(d) in seen:
                return
            if is_table(d):
                seen.add(id(d))
                out.append({"origin": origin, "owner": owner, "attr": attr, "table": d,
                            "file": self.rel(module), "line": line, "module": module})

        for c in self.classes():
            lines = self.class_attr_lines(c)
            for k, v in c.attrs.items():
                if isinstance(v, dict):
                    visit_dict("%s.%s" % (c.qualname, k), c, k, v, c.module, lines.get(k))
        for m in self.modules.values():
            lines = self.module_attr_lines(m)
            for k, v in m.env.items():
                if isinstance(v, dict):
                    visit_dict("%s:%s" % (m.name, k), m, k, v, m, lines.get(k))
                    if not is_table(v):
                        for kk, vv in v.items():
                            if isinstance(vv, dict) and isinstance(kk, str):
                                visit_dict("%s:%s.%s" % (m.name, k, kk), m, "%s.%s" % (k, kk), vv, m, lines.get(k))
        # tables held inside Enum(...) objects (MODESENSE6/10 bundles)
        for m in self.modules.values():
            lines = self.module_attr_lines(m)
            for k, v in m.env.items():
                if isinstance(v, EnumVal):
                    for kk, vv in v.members.items():
                        if isinstance(vv, dict):
                            visit_dict("%s:%s.%s" % (m.name, k, kk), m, "%s.%s" % (k, kk), vv, m, lines.get(k))
        return out

    def class_attr_lines(self, c):
        out = {}
        if c.node is None:
            return out
        for st in c.node.body:
            if isinstance(st, ast.Assign):
                for t in st.targets:
                    if isinstance(t, ast.Name):
                        out[t.id] = st.lineno
            elif isinstance(st, ast.AnnAssign) and isinstance(st.target, ast.Name):
                out[st.target.id] = st.lineno
            elif isinstance(st, (ast.FunctionDef, ast.ClassDef)):
                out[st.name] = st.lineno
        return out

    def module_attr_lines(self, m):
        out = {}
        if m.tree is None:
            return out
        for st in m.tree.body:
            if isinstance(st, ast.Assign):
                for t in st.targets:
                    if isinstance(t, ast.Name):
                        out[t.id] = st.lineno
            elif isinstance(st, (ast.FunctionDef, ast.ClassDef)):
                out[st.name] = st.lineno
        return out

    def read_class_attr(self, cls, name):
        """what `Class.name` evaluates to (through a descriptor if the class keeps one under that name); None when it has none"""
        class _W:
            def where(self, node=None):
                return "class attribute probe"
        try:
            return self.I.get_attr(cls, name, None, _W())
        except PyRaise:
            return None

    def func(self, modname, clsname, fname):
        """FuncVal of a method / function; AnalysisError if the anchor vanished"""
        if clsname:
            c = self.cls(modname, clsname)
            v, owner = c.lookup(fname)
            if isinstance(v, PropertyVal):
                v = v.fget
            if not isinstance(v, FuncVal):
                raise AnalysisError("anchor-missing", "%s:%s.%s" % (modname, clsname, fname))
            return v
        v = self.get(modname, fname)
        if not isinstance(v, FuncVal):
            raise AnalysisError("anchor-missing", "%s:%s" % (modname, fname))
        return v

    def all_functions(self):
        """every FuncVal defined in pyscsi/ (methods and module functions)"""
        if self._func_index is None:
            out = []
            for m in self.modules.values():
                for k, v in m.env.items():
                    if isinstance(v, FuncVal) and v.module is m:
                        out.append(v)
            for c in self.classes():
                for k, v in c.attrs.items():
                    if isinstance(v, FuncVal):
                        out.append(v)
                    elif isinstance(v, PropertyVal):
                        for f in (v.fget, v.fset):
                            if f is not None:
                                out.append(f)
            self._func_index = out
        return self._func_index

    def file_of(self, f):
        return self.rel(f.module)
