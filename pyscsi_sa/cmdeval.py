"""Abstract evaluation of every command constructor over the argument domains
the reference gives (spec/cdb.py): shared by C01, C03, C05, C09, C17."""
from __future__ import annotations

import fnmatch
import itertools

from .rt import *
from .values import *

ENUM_MOD = "pyscsi.pyscsi.scsi_enum_command"
SETS = ["spc", "sbc", "ssc", "smc", "mmc"]
CMD_MOD = "pyscsi.pyscsi.scsi_command"


class _F:
    def __init__(self, w="cmdeval"):
        self.w = w

    def where(self, node=None):
        return self.w


def domain_choices(name, dom):
    """list of (label, factory) for one parameter"""
    kind = dom[0]
    if kind == "bits":
        return [("any%d" % dom[1], lambda: Sym.param(name, dom[1]))]
    if kind == "nz":
        return [("nonzero", lambda: Sym.param(name, dom[1], nonzero=True))]
    if kind == "enum":
        return [(repr(v), (lambda v=v: v)) for v in dom[1]]
    if kind == "data":
        return [("buffer", lambda: SymBytes(name))]
    if kind == "dict":
        import copy
        return [("dict", lambda: copy.deepcopy(dom[1]))]
    if kind == "choice":
        out = []
        for d in dom[1]:
            out.extend(domain_choices(name, d))
        return out
    if kind == "const":
        return [(repr(dom[1]), lambda: dom[1])]
    raise AnalysisError("spec-domain", repr(dom))


def opcode_entries(prog, names):
    """[(set, key, OpCode instance)] for every table that defines one of names"""
    mod = prog.module(ENUM_MOD)
    out = []
    for s in SETS:
        e = mod.env.get(s)
        if not isinstance(e, EnumVal):
            raise AnalysisError("anchor-missing", "%s:%s" % (ENUM_MOD, s))
        for pat in names:
            for k, v in e.members.items():
                if fnmatch.fnmatchcase(k, pat):
                    out.append((s, k, v))
    return out


def pub_attr(I, inst, name):
    """what a caller reads as inst.<name> -- through the class's own property, wherever the class keeps the value"""
    if not isinstance(inst, Instance):
        return None
    try:
        return I.get_attr(inst, name, None, _F("read .%s" % name))
    except PyRaise:
        return None


def set_pub(I, inst, name, value):
    """inst.<name> = value, through the class's own setter"""
    I.set_attr(inst, name, value, None, _F("store .%s" % name))


PUBLIC = ("cdb", "dataout", "datain", "result", "sense", "raw_sense_data")


def pub_view(I, inst):
    return {n: pub_attr(I, inst, n) for n in PUBLIC}


class Construction:
    def __init__(self, cls, setname, opkey, opcode, labels, args, path):
        self.cls = cls
        self.setname = setname
        self.opkey = opkey
        self.opcode = opcode
        self.labels = labels
        self.args = args
        self.path = path

    @property
    def inst(self):
        return self.path.value[0] if self.path.returned else None

    @property
    def pub(self):
        """the command's public attributes as read (through its properties) right after construction"""
        return self.path.value[2] if self.path.returned else {}

    def label(self):
        return "%s/%s %s%s" % (self.setname, self.opkey,
                               ",".join("%s=%s" % kv for kv in self.labels.items() if not kv[1].startswith("any")),
                               (" [" + self.path.cond_str() + "]") if self.path.path else "")


def install_watches(prog):
    I = prog.I

    def w_build_cdb(I_, f, locs, node, frame):
        I_.event("build_cdb", kwargs=dict(locs.get("kwargs", {})), self_obj=locs.get("self"),
                 where=frame.where(node) if frame else None)

    def w_base_init(I_, f, locs, node, frame):
        I_.event("base-init", self_obj=locs.get("self"), dataout_alloclen=locs.get("dataout_alloclen"),
                 datain_alloclen=locs.get("datain_alloclen"), opcode=locs.get("opcode"),
                 where=frame.where(node) if frame else None)

    # SCSICommand's build_cdb / __init__, in whichever class of its hierarchy they are written
    names = {"build_cdb": CMD_MOD + ":SCSICommand.build_cdb", "__init__": CMD_MOD + ":SCSICommand.__init__"}
    mod = I.modules.get(CMD_MOD)
    base = mod.env.get("SCSICommand") if mod is not None else None
    if isinstance(base, ClassVal):
        for n in list(names):
            f, owner = base.lookup(n)
            if isinstance(f, FuncVal):
                names[n] = f.qualname
    I.watch[names["build_cdb"]] = w_build_cdb
    I.watch[names["__init__"]] = w_base_init


def construct_all(prog, key, entry, sets=None, max_combos=600, extra_kwargs=None, args_override=None):
    """evaluate the constructor of class ``key`` for every (command set that
    defines its opcode) x (choice of each enumerated argument) x (path)"""
    I = prog.I
    modname, clsname = key.split(":")
    cls = prog.cls(modname, clsname)
    install_watches(prog)
    args = args_override if args_override is not None else entry["args"]
    choices = [domain_choices(n, d) for n, d in args]
    combos = list(itertools.product(*choices)) if choices else [()]
    if len(combos) > max_combos:
        raise AnalysisError("combo-limit", "%s: %d argument combinations" % (key, len(combos)))
    out = []
    ops = opcode_entries(prog, entry["names"])
    if sets is not None:
        ops = [o for o in ops if o[0] in sets]
    for setname, opkey, op in ops:
        for combo in combos:
            labels = {n: c[0] for (n, _), c in zip(args, combo)}
            holder = {}

            def thunk(combo=combo, op=op):
                kw = {n: c[1]() for (n, _), c in zip(args, combo)}
                if extra_kwargs:
                    kw.update(extra_kwargs())
                holder["args"] = kw
                inst = I.instantiate(cls, [op], dict(kw), None, _F("construct %s" % clsname))
                return (inst, kw, pub_view(I, inst))

            for p in I.explore(thunk, max_paths=64):
                a = dict(p.value[1]) if p.returned else dict(holder.get("args", {}))
                out.append(Construction(cls, setname, opkey, op, labels, a, p))
    return out


def value_bits(v, width=None):
    """bits (LSB first) of an argument value: symbolic atoms or constants"""
    v = norm_int(v)
    if isinstance(v, bool):
        v = int(v)
    if isinstance(v, int):
        n = max(v.bit_length(), width or 0)
        return tuple((v >> i) & 1 for i in range(n))
    if isinstance(v, Sym) and v.bits is not None:
        b = tuple(v.bits)
        if width is not None and len(b) < width:
            b = b + (0,) * (width - len(b))
        return b
    return None


def cell_bits(c):
    c = norm_int(c)
    if isinstance(c, bool):
        c = int(c)
    if isinstance(c, int):
        if c < 0 or c > 255:
            return None
        return tuple((c >> i) & 1 for i in range(8))
    if isinstance(c, Sym) and c.bits is not None:
        if len(c.bits) > 8:
            return None
        return tuple(c.bits) + (0,) * (8 - len(c.bits))
    return None
