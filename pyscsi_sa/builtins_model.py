"""Models of the python builtins and container methods python-scsi uses.
These are the *trusted* part of the analysis (DESIGN 2.4)."""
from __future__ import annotations

import ast

from .rt import *
from .rt import _Return, _Break, _Continue
from .values import *
from .ops import DictView
from .access import AccessMixin

_ABSENT = ABSENT

EXC_TREE = {
    "BaseException": None,
    "Exception": "BaseException",
    "TypeError": "Exception",
    "ValueError": "Exception",
    "LookupError": "Exception",
    "KeyError": "LookupError",
    "IndexError": "LookupError",
    "AttributeError": "Exception",
    "NameError": "Exception",
    "RuntimeError": "Exception",
    "NotImplementedError": "RuntimeError",
    "ImportError": "Exception",
    "ModuleNotFoundError": "ImportError",
    "OSError": "Exception",
    "IOError": "OSError",
    "FileNotFoundError": "OSError",
    "StopIteration": "Exception",
    "ArithmeticError": "Exception",
    "ZeroDivisionError": "ArithmeticError",
    "OverflowError": "ArithmeticError",
    "UnicodeDecodeError": "ValueError",
    "AssertionError": "Exception",
    "KeyboardInterrupt": "BaseException",
}


def _complete_exc_tree():
    """every exception / warning class python itself defines, with its real base (first base for the multiple-inheritance ones)"""
    import builtins
    for name in dir(builtins):
        obj = getattr(builtins, name)
        if isinstance(obj, type) and issubclass(obj, BaseException) and name not in EXC_TREE and obj.__name__ == name:
            EXC_TREE[name] = obj.__mro__[1].__name__ if obj.__mro__[1] is not object else None
    # aliases (IOError, EnvironmentError) keep the entry given above


_complete_exc_tree()


def make_builtin_classes():
    out = {}
    for name in EXC_TREE:
        out[name] = ClassVal(name, None, [], builtin=True)
    for name, base in EXC_TREE.items():
        if base:
            out[name].bases = [out[base]]
    for name in ("object", "type", "dict", "list", "int", "str", "float", "bytes", "bytearray",
                 "tuple", "set", "bool", "frozenset"):
        out[name] = ClassVal(name, None, [], builtin=True)
    out["type"].bases = [out["object"]]
    return out


class BuiltinsMixin(AccessMixin):
    def make_builtins(self):
        b = {}
        for name, cls in self.bclasses.items():
            b[name] = cls
        for name in ("len", "range", "reversed", "sum", "next", "hex", "isinstance", "getattr", "setattr",
                     "delattr", "hasattr", "callable", "vars", "print", "open", "min", "max", "enumerate",
                     "zip", "sorted", "iter", "any", "all", "abs", "ord", "chr", "repr", "super", "id",
                     "issubclass", "format", "divmod", "round", "map", "filter", "property", "staticmethod", "classmethod", "slice",
                     "globals", "locals", "dir"):
            b[name] = Builtin(name, getattr(self, "bi_" + name))
        b["True"], b["False"], b["None"] = True, False, None
        b["NotImplemented"] = Unknown("NotImplemented")
        b["__name__"] = "__analysed__"
        self.builtin_ctors = {
            "dict": self.bi_dict, "list": self.bi_list, "int": self.bi_int, "str": self.bi_str,
            "bytes": self.bi_bytes, "bytearray": self.bi_bytearray, "tuple": self.bi_tuple,
            "id": self.bi_id,
            "set": self.bi_set, "bool": self.bi_bool, "type": self.bi_type, "float": self.bi_float,
            "frozenset": self.bi_set, "object": lambda a, k, n, f: Instance(self.bclasses["object"]),
        }
        return b

    # -- simple builtins ---------------------------------------------------
    def bi_id(self, args, kwargs, node, frame):
        """the identity of an object: an integer that is unique among the objects alive at the same time (the model keeps
        every object alive, so it never shows the reuse of a freed object's identity)"""
        self.event("id-taken", obj=args[0], where=frame.where(node), node=node)
        return id(args[0])

    def bi_len(self, args, kwargs, node, frame):
        return self.len_of(args[0], node, frame)

    def bi_range(self, args, kwargs, node, frame):
        a = [norm_int(x) for x in args]
        if all(isinstance(x, int) for x in a):
            return range(*a)
        self.event("range-dynamic", args=a, where=frame.where(node), node=node)
        sl = SymList(Sym.opaque(("range-elem", self.fresh("r"))), name=("range",) + tuple(self.name_of(x) for x in a))
        sl.range_args = a
        sl.length = a[0] if len(a) == 1 else None
        return sl

    def bi_reversed(self, args, kwargs, node, frame):
        items = self.iterate(args[0], node, frame)
        if items is None:
            return args[0]
        return list(reversed(items))

    def bi_sum(self, args, kwargs, node, frame):
        items = self.iterate(args[0], node, frame)
        start = args[1] if len(args) > 1 else 0
        if items is None:
            v = args[0]
            if isinstance(v, SymList):
                s = Sym.opaque(("sum", v.name))
                s.sum_of = v
                return s
            return Unknown("sum of dynamic")
        acc = start
        for x in items:
            acc = self.binop("+", acc, x, node, frame)
        return acc

    def bi_next(self, args, kwargs, node, frame):
        g = args[0]
        if isinstance(g, GenVal):
            if g.pos < len(g.items):
                self.gen_advance(g, g.pos + 1, node, frame)
                return g.items[g.pos - 1]
            if getattr(g, "truncated", False):
                raise AnalysisError("unmodelled-stdlib", "next() runs past the items the model lays out for an endless iterator at %s"
                                    % frame.where(node))
            if len(args) > 1:
                return args[1]
            self.event("stop-iteration", where=frame.where(node), node=node)
            raise PyRaise(Instance(self.bclasses["StopIteration"]), node, frame.where(node))
        if isinstance(g, (list, tuple, dict, str, set, range, bytes)):
            raise PyRaise(Instance(self.bclasses["TypeError"], ("%r object is not an iterator" % self.kind_of(g),)), node, frame.where(node))
        return Unknown("next of dynamic")

    def bi_iter(self, args, kwargs, node, frame):
        if len(args) == 2:
            raise AnalysisError("unmodelled-builtin", "iter(callable, sentinel) at %s" % frame.where(node))
        items = self.iterate(args[0], node, frame)
        if items is None:
            return args[0]
        g = GenVal(items)
        g.truncated = isinstance(items, TruncList)
        return g

    def bi_hex(self, args, kwargs, node, frame):
        v = norm_int(args[0])
        if isinstance(v, int):
            return hex(v)
        if isinstance(v, (Sym, SymAny)):
            return SymStr(("hex", self.name_of(v)))
        self.event("type-error", op="hex", left=v, where=frame.where(node), node=node)
        raise PyRaise(Instance(self.bclasses["TypeError"], ("cannot be interpreted as an integer",)), node, frame.where(node))

    def bi_isinstance(self, args, kwargs, node, frame):
        v, t = args[0], args[1]
        types = list(t) if isinstance(t, tuple) else [t]
        v = norm_int(v)
        if isinstance(v, (SymAny, Unknown)):
            return self.decide(self.describe_cond(node), node, frame)
        kind = self.kind_of(v)
        if any(isinstance(ty, Builtin) and ty.name == "property" for ty in types) and isinstance(v, PropertyVal):
            return True
        if isinstance(v, External) and hasattr(v, "exc_bases") and not getattr(v, "is_exc_class", False):
            # an exception object raised by a binding: an instance of the binding's class of that name and of the builtin
            # exception classes the stand-in says it derives from
            for ty in types:
                if isinstance(ty, External) and ty.name == v.name:
                    return True
                if isinstance(ty, ClassVal) and ty.builtin and (v.exc_bases == "*" or ty.name in v.exc_bases):
                    return True
            if all(isinstance(ty, (External, ClassVal)) for ty in types):
                return False
        if isinstance(v, NTuple):
            kind = "tuple"
        elif isinstance(v, IntEnumMember):
            kind = "int"
        if isinstance(v, (NTuple, IntEnumMember, EnumMember)):
            own = v.ntcls if isinstance(v, NTuple) else v.ecls
            if any(isinstance(ty, ClassVal) and not ty.builtin and own.is_subclass(ty) for ty in types):
                return True
        tnames = set(ty.name for ty in types if isinstance(ty, ClassVal) and ty.builtin)
        if {"bytes", "bytearray"} <= tnames and isinstance(v, (View, SymBytes, Buf)) and getattr(v, "pytype", None) in (None, "bytes", "bytearray"):
            return True         # a byte buffer is one or the other
        for ty in types:
            if isinstance(ty, ClassVal):
                if ty.builtin:
                    if ty.name == kind or (ty.name == "int" and kind == "bool") or ty.name == "object":
                        return True
                    if ty.name in ("bytes", "bytearray") and kind == "bytearray" and isinstance(v, (View, SymBytes)) \
                            and getattr(v, "pytype", None) is None:
                        return self.decide(self.describe_cond(node), node, frame)
                if isinstance(v, Instance) and v.cls.is_subclass(ty):
                    return True
        return False

    def bi_issubclass(self, args, kwargs, node, frame):
        a, b = args
        if isinstance(a, External) and getattr(a, "is_exc_class", False):
            for ty in (list(b) if isinstance(b, tuple) else [b]):
                if isinstance(ty, External) and ty.name == a.name:
                    return True
                if isinstance(ty, ClassVal) and ty.builtin and (a.exc_bases == "*" or ty.name in a.exc_bases):
                    return True
            return False
        if isinstance(a, ClassVal) and isinstance(b, ClassVal):
            return a.is_subclass(b)
        return Unknown("issubclass")

    def bi_getattr(self, args, kwargs, node, frame):
        obj, name = args[0], args[1]
        if not isinstance(name, str):
            if isinstance(name, (SymStr, Unknown, SymAny)):
                return Unknown("getattr with dynamic name")
            raise PyRaise(Instance(self.bclasses["TypeError"], ("attribute name must be string, not '%s'" % self.kind_of(name),)), node, frame.where(node))
        if len(args) > 2:
            try:
                return self.get_attr(obj, name, node, frame)
            except PyRaise as e:
                if e.exc_class() is self.bclasses["AttributeError"]:
                    return args[2]
                raise
        return self.get_attr(obj, name, node, frame)

    def bi_hasattr(self, args, kwargs, node, frame):
        try:
            self.get_attr(args[0], args[1], node, frame)
            return True
        except PyRaise:
            return False

    def bi_setattr(self, args, kwargs, node, frame):
        obj, name, v = args
        if isinstance(name, str):
            self.event("setattr-call", obj=obj, name=name, where=frame.where(node), node=node, loading=self.loading)
            self.set_attr(obj, name, v, node, frame)
        else:
            self.event("setattr-dynamic", obj=obj, name=name, where=frame.where(node), node=node)
            if isinstance(obj, EnumVal):
                self.event("enum-setattr", obj=obj, name=name, value=v, where=frame.where(node), node=node)
        return None

    def bi_delattr(self, args, kwargs, node, frame):
        obj, name = args
        self.event("delattr-call", obj=obj, name=name, where=frame.where(node), node=node)
        if isinstance(obj, EnumVal) and isinstance(name, str):
            if name in obj.members:
                del obj.members[name]
                return None
            raise PyRaise(Instance(self.bclasses["AttributeError"], (name,)), node, frame.where(node))
        if isinstance(obj, Instance) and isinstance(name, str):
            if name in obj.attrs:
                del obj.attrs[name]
                return None
            raise PyRaise(Instance(self.bclasses["AttributeError"], (name,)), node, frame.where(node))
        if isinstance(obj, EnumVal):
            # dynamic name: may or may not exist
            if self.decide("hasattr(enum, %s)" % self.name_of(name), node, frame):
                return None
            raise PyRaise(Instance(self.bclasses["AttributeError"], (name,)), node, frame.where(node))
        return None

    def bi_callable(self, args, kwargs, node, frame):
        v = args[0]
        if isinstance(v, (FuncVal, BoundMethod, Builtin, ClassVal, EnumVal, PartialVal)):
            return True
        if isinstance(v, Instance) and isinstance(v.cls, ClassVal) and isinstance(v.cls.lookup("__call__")[0], FuncVal):
            return True
        if isinstance(v, (Unknown, SymAny)):
            return self.decide(self.describe_cond(node), node, frame)
        if isinstance(v, Instance):
            return v.cls.lookup("__call__")[0] is not None
        return False

    def namespace_here(self, frame):
        """the namespace of the code that is running: locals(), vars() without an argument"""
        if frame.cls_ns is not None:
            return frame.cls_ns
        if frame.func is None:
            return frame.module.env
        return frame.locals

    def bi_globals(self, args, kwargs, node, frame):
        return frame.module.env

    def bi_locals(self, args, kwargs, node, frame):
        return self.namespace_here(frame)

    def bi_dir(self, args, kwargs, node, frame):
        if not args:
            return sorted(k for k in self.namespace_here(frame) if isinstance(k, str))
        v = args[0]
        if isinstance(v, ModuleVal):
            d = v.env.get("__dir__")
            if isinstance(d, FuncVal):
                r = self.iterate(self.call_function(d, [], {}, node, frame), node, frame)
                if r is not None:
                    return sorted(r)
            return sorted(k for k in v.env if isinstance(k, str))
        if isinstance(v, ClassVal):
            names = set()
            for c in v.mro():
                if isinstance(c, ClassVal) and not c.builtin:
                    names.update(k for k in c.attrs if isinstance(k, str))
                    names.update(k for k in c.injected if isinstance(k, str))
            return sorted(names)
        if isinstance(v, Instance) and isinstance(v.cls, ClassVal):
            d = v.cls.lookup("__dir__")[0]
            if isinstance(d, FuncVal):
                r = self.iterate(self.call_function(d, [v], {}, node, frame), node, frame)
                if r is not None:
                    return sorted(r)
            return sorted(set(self.bi_dir([v.cls], {}, node, frame)) | set(k for k in v.attrs if isinstance(k, str)))
        raise AnalysisError("unmodelled-builtin", "dir() of %s at %s" % (self.kind_of(v), frame.where(node)))

    def bi_vars(self, args, kwargs, node, frame):
        if not args:
            return self.namespace_here(frame)
        v = args[0]
        if isinstance(v, EnumVal):
            d = dict(v.members)
            # what ``type`` adds to every class namespace
            d.setdefault("__module__", "pyscsi.utils.enum")
            d.setdefault("__dict__", Instance(self.bclasses["object"]))      # getset descriptors:
            d.setdefault("__weakref__", Instance(self.bclasses["object"]))   # not callable
            d.setdefault("__doc__", None)
            return d
        if isinstance(v, ClassVal):
            if v.injected:
                d = dict(v.injected)          # (what the metaclass put into the namespace is part of it)
                d.update(v.attrs)
                return d
            return v.attrs
        if isinstance(v, Instance):
            return v.attrs
        if isinstance(v, ModuleVal):
            return v.env
        return Unknown("vars")

    def bi_print(self, args, kwargs, node, frame):
        self.event("print", args=args, file=kwargs.get("file"), where=frame.where(node), node=node)
        return None

    def bi_open(self, args, kwargs, node, frame):
        self.event("external-call", name="open", args=args, kwargs=kwargs, node=node, where=frame.where(node))
        hook = getattr(self, "external_hook", None)
        if hook is not None:
            r = hook(External("open"), args, kwargs, node, frame)
            if r is not None:
                return r
        return External("open()")

    def bi_min(self, args, kwargs, node, frame):
        items = args if len(args) > 1 else self.iterate(args[0], node, frame)
        if items is not None and all(isinstance(norm_int(x), int) for x in items):
            return min(norm_int(x) for x in items)
        if items is not None and len(items) >= 2:
            # min(<static position>, len(<device view of unknown length>)): the view model takes a device buffer to be long
            # enough for every static position the decoder names (exactly what a static slice of it assumes); buffers that
            # are shorter are decided separately, on buffers of concrete length
            vals = [norm_int(x) for x in items]
            lens = [x for x in vals if isinstance(x, Sym) and isinstance(getattr(x, "view", None), View) and x.view.length is None]
            rest = [x for x in vals if not (isinstance(x, Sym) and isinstance(getattr(x, "view", None), View))]
            if lens and rest and all(isinstance(x, int) for x in rest):
                self.event("assumed-long-enough", view=lens[0].view, upto=min(rest), where=frame.where(node), node=node)
                return min(rest)
            if lens and len(rest) == 1 and isinstance(rest[0], Sym):
                # min(<position computed from a length field>, len(<view>)): the same assumption
                self.event("assumed-long-enough", view=lens[0].view, upto=rest[0], where=frame.where(node), node=node)
                capped = Sym(bits=rest[0].bits, poly=rest[0].poly, lo=rest[0].lo, hi=rest[0].hi)
                capped.origin = getattr(rest[0], "origin", None)
                capped.capped_by_view = lens[0].view      # whatever the field says, never beyond the end of the buffer
                return capped
        return Unknown("min of dynamic")

    def bi_max(self, args, kwargs, node, frame):
        items = args if len(args) > 1 else self.iterate(args[0], node, frame)
        if items is not None and all(isinstance(norm_int(x), int) for x in items):
            return max(norm_int(x) for x in items)
        return Unknown("max of dynamic")

    def bi_enumerate(self, args, kwargs, node, frame):
        items = self.iterate(args[0], node, frame)
        if items is None:
            return SymList((Sym.opaque(("enum-index", self.fresh("e"))), self.element_of(args[0], node, frame)))
        start = args[1] if len(args) > 1 else kwargs.get("start", 0)
        return [(i + start, x) for i, x in enumerate(items)]

    def bi_zip(self, args, kwargs, node, frame):
        lists = [self.iterate(a, node, frame) for a in args]
        if any(l is None for l in lists):
            return Unknown("zip of dynamic")
        out = list(zip(*lists))
        if lists and all(isinstance(l, TruncList) for l in lists):
            return TruncList(out)
        if any(isinstance(l, TruncList) and len(l) == len(out) for l in lists) and not any(
                not isinstance(l, TruncList) and len(l) == len(out) for l in lists):
            raise AnalysisError("unmodelled-stdlib", "zip with an endless iterator runs past the model at %s" % frame.where(node))
        return out

    def bi_sorted(self, args, kwargs, node, frame):
        items = self.iterate(args[0], node, frame)
        if items is not None and self.is_static(items) and not kwargs:
            try:
                return sorted(items)
            except TypeError:
                pass
        return Unknown("sorted of dynamic")

    def bi_any(self, args, kwargs, node, frame):
        items = self.iterate(args[0], node, frame)
        if items is None:
            return Unknown("any of dynamic")
        for x in items:
            if self.truth(x, node, frame):
                return True
        return False

    def bi_all(self, args, kwargs, node, frame):
        items = self.iterate(args[0], node, frame)
        if items is None:
            return Unknown("all of dynamic")
        for x in items:
            if not self.truth(x, node, frame):
                return False
        return True

    def bi_abs(self, args, kwargs, node, frame):
        v = norm_int(args[0])
        return abs(v) if isinstance(v, int) else v

    def bi_ord(self, args, kwargs, node, frame):
        return ord(args[0]) if isinstance(args[0], str) and len(args[0]) == 1 else Unknown("ord")

    def bi_chr(self, args, kwargs, node, frame):
        v = norm_int(args[0])
        return chr(v) if isinstance(v, int) else SymStr(("chr", self.name_of(v)))

    def bi_repr(self, args, kwargs, node, frame):
        return repr(args[0]) if self.is_static(args[0]) else SymStr(("repr", self.name_of(args[0])))

    def bi_format(self, args, kwargs, node, frame):
        return SymStr(("format",))

    def bi_id(self, args, kwargs, node, frame):
        """the identity of an object: an integer that is unique among the objects alive at the same time (the model keeps
        every object alive, so it never shows the reuse of a freed object's identity)"""
        self.event("id-taken", obj=args[0], where=frame.where(node), node=node)
        return id(args[0])

    def bi_divmod(self, args, kwargs, node, frame):
        return (self.binop("//", args[0], args[1], node, frame), self.binop("%", args[0], args[1], node, frame))

    def bi_round(self, args, kwargs, node, frame):
        return Unknown("round")

    def bi_map(self, args, kwargs, node, frame):
        cols = [self.iterate(a, node, frame) for a in args[1:]]
        if any(c is None for c in cols):
            return Unknown("map over dynamic")
        n = min(len(c) for c in cols)
        g = GenVal([self.call(args[0], [c[i] for c in cols], {}, node, frame) for i in range(n)])
        g.truncated = all(isinstance(c, TruncList) for c in cols)
        return g

    def bi_filter(self, args, kwargs, node, frame):
        items = self.iterate(args[1], node, frame)
        if items is None:
            return Unknown("filter over dynamic")
        out = []
        for x in items:
            keep = x if args[0] is None else self.call(args[0], [x], {}, node, frame)
            if self.truth(keep, node, frame):
                out.append(x)
        return GenVal(out)

    def bi_slice(self, args, kwargs, node, frame):
        a = [norm_int(x) for x in args]
        return slice(*a) if 1 <= len(a) <= 3 else Unknown("slice()")

    def bi_property(self, args, kwargs, node, frame):
        """property(fget=None, fset=None, fdel=None, doc=None) called as a function"""
        names = ("fget", "fset", "fdel", "doc")
        got = dict(zip(names, args))
        got.update(kwargs)
        p = PropertyVal(fget=got.get("fget"))
        p.fset = got.get("fset")
        p.fdel = got.get("fdel")
        return p

    def bi_staticmethod(self, args, kwargs, node, frame):
        f = args[0]
        if isinstance(f, FuncVal):
            f2 = FuncVal(f.name, f.node, f.module, kind="staticmethod", cls=f.cls, closure=f.closure)
            f2.defaults, f2.kw_defaults = getattr(f, "defaults", []), getattr(f, "kw_defaults", [])
            return f2
        return f

    def bi_classmethod(self, args, kwargs, node, frame):
        f = args[0]
        if isinstance(f, FuncVal):
            f2 = FuncVal(f.name, f.node, f.module, kind="classmethod", cls=f.cls, closure=f.closure)
            f2.defaults, f2.kw_defaults = getattr(f, "defaults", []), getattr(f, "kw_defaults", [])
            return f2
        return f

    def bi_super(self, args, kwargs, node, frame):
        sp = SuperProxy(frame)
        if len(args) == 2:
            sp.start, sp.obj = args[0], args[1]
            return sp
        if args:
            raise AnalysisError("unmodelled-builtin", "super() with one argument at %s" % frame.where(node))
        # zero-argument form: the class the running method was written in, and the method's first argument
        fr = frame
        while fr is not None and not (fr.func is not None and getattr(fr.func, "cls", None) is not None):
            fr = fr.parent
        if fr is None:
            raise PyRaise(Instance(self.bclasses["RuntimeError"], ("super(): no arguments",)), node, frame.where(node))
        params = [a.arg for a in fr.func.node.args.posonlyargs + fr.func.node.args.args]
        sp.start = fr.func.cls
        sp.obj = fr.locals.get(params[0]) if params else None
        return sp

    # -- constructors ------------------------------------------------------
    def bi_dict(self, args, kwargs, node, frame):
        d = {}
        if args:
            src = args[0]
            if isinstance(src, dict):
                d.update(src)
            elif isinstance(src, SymDict):
                nd = SymDict(src.name, src.known)
                nd.reads = src.reads
                nd.copy_of = src
                return nd
            else:
                items = self.iterate(src, node, frame)
                if items is None:
                    if isinstance(src, (BoundMethod, FuncVal, Builtin)):
                        self.event("type-error", op="dict()", left=src, where=frame.where(node), node=node)
                        raise PyRaise(Instance(self.bclasses["TypeError"], ("%r object is not iterable" % self.kind_of(src),)),
                                      node, frame.where(node))
                    return Unknown("dict() of dynamic")
                for it in items:
                    if isinstance(it, tuple) and len(it) == 2:
                        d[it[0]] = it[1]
                    else:
                        return Unknown("dict() of non-pairs")
        d.update(kwargs)
        return d

    def bi_list(self, args, kwargs, node, frame):
        if not args:
            return []
        items = self.iterate(args[0], node, frame)
        if items is None:
            v = args[0]
            if isinstance(v, SymList):
                return v
            return SymList(self.element_of(v, node, frame), name=("list", self.name_of(v)))
        return list(items)

    def bi_tuple(self, args, kwargs, node, frame):
        if not args:
            return ()
        items = self.iterate(args[0], node, frame)
        return tuple(items) if items is not None else Unknown("tuple of dynamic")

    def bi_set(self, args, kwargs, node, frame):
        if not args:
            return set()
        items = self.iterate(args[0], node, frame)
        if items is None:
            if isinstance(args[0], SymDict):
                ks = KeySet(args[0])
                return ks
            return Unknown("set of dynamic")
        try:
            return set(items)
        except TypeError:
            return Unknown("set of unhashable")

    def bi_bool(self, args, kwargs, node, frame):
        return self.truth(args[0], node, frame) if args else False

    def bi_float(self, args, kwargs, node, frame):
        v = norm_int(args[0]) if args else 0
        return float(v) if isinstance(v, (int, float)) else Unknown("float")

    def bi_int(self, args, kwargs, node, frame):
        if not args:
            return 0
        v = norm_int(args[0])
        if isinstance(v, (int, Sym)):
            return v
        if isinstance(v, str):
            try:
                base = args[1] if len(args) > 1 else kwargs.get("base", 10)
                return int(v, base)
            except Exception:
                raise PyRaise(Instance(self.bclasses["ValueError"], ("invalid literal for int()",)), node, frame.where(node))
        if isinstance(v, SymAny):
            return self.any_as_int(v)
        if isinstance(v, SymFloat):
            return v.floor
        if isinstance(v, float):
            return int(v)
        if isinstance(v, Unknown):
            return Unknown("int() of %s" % v.reason)
        return Unknown("int() of %s" % self.kind_of(v))

    def bi_str(self, args, kwargs, node, frame):
        if not args:
            return ""
        v = norm_int(args[0])
        if isinstance(v, (int, str)) and not isinstance(v, bool):
            return str(v)
        return SymStr(("str", self.name_of(v)))

    def bi_bytes(self, args, kwargs, node, frame):
        r = self.bi_bytearray(args, kwargs, node, frame)
        if isinstance(r, Buf) and r.cells is not None and all(isinstance(c, int) for c in r.cells):
            return bytes(r.cells)
        return r

    def bi_bytearray(self, args, kwargs, node, frame):
        if not args:
            return Buf(cells=[], origin=frame.where(node))
        v = norm_int(args[0])
        if isinstance(v, bool):
            v = int(v)
        if isinstance(v, int):
            if v < 0:
                raise PyRaise(Instance(self.bclasses["ValueError"], ("negative count",)), node, frame.where(node))
            if v > 1 << 16:
                b = Buf(cells=None, length=v, origin=frame.where(node))
                b.zero = True
                return b
            return Buf(cells=[0] * v, origin=frame.where(node))
        if isinstance(v, Sym):
            self.event("alloc-dynamic", size=v, where=frame.where(node), node=node)
            b = Buf(cells=None, length=v, origin=frame.where(node))
            b.zero = True
            return b
        if isinstance(v, SymAny):
            # bytearray(<caller value>): an int gives zeros, bytes gives a copy
            b = Buf(cells=None, length=self.any_as_int(v), origin=frame.where(node))
            b.zero = True
            b.from_any = v
            return b
        if isinstance(v, (GenVal, list, tuple, range)):
            items = self.iterate(v, node, frame)
            return Buf(cells=[norm_int(x) for x in items], origin=frame.where(node))
        if isinstance(v, bytes):
            return Buf(cells=list(v), origin=frame.where(node))
        if isinstance(v, Buf):
            return v.copy()
        if isinstance(v, (View, SymBytes)):
            cells = self.buf_cells(v)
            if cells is not None:
                return Buf(cells=cells, origin=frame.where(node))
            b = Buf(cells=None, length=self.len_of(v, node, frame), origin=frame.where(node))
            b.parts = [("piece", v)]
            return b
        if isinstance(v, SymList):
            b = Buf(cells=None, length=self.len_of(v, node, frame), origin=frame.where(node))
            b.parts = [("list", v)]
            return b
        if isinstance(v, str):
            raise PyRaise(Instance(self.bclasses["TypeError"], ("string argument without an encoding",)), node, frame.where(node))
        if isinstance(v, Unknown):
            b = Buf(cells=None, length=Unknown("bytearray of unknown"), origin=frame.where(node))
            return b
        self.event("type-error", op="bytearray()", left=v, where=frame.where(node), node=node)
        raise PyRaise(Instance(self.bclasses["TypeError"], ("cannot convert %r object to bytearray" % self.kind_of(v),)),
                      node, frame.where(node))

    def bi_type(self, args, kwargs, node, frame):
        if len(args) == 3 and not kwargs:
            return self.make_class(args[0], args[1], args[2], node, frame)
        if len(args) == 1:
            v = args[0]
            if isinstance(v, Instance):
                return v.cls
            if isinstance(v, NTuple):
                return v.ntcls
            if isinstance(v, (IntEnumMember, EnumMember)):
                return v.ecls
            if isinstance(v, (Unknown, SymAny)):
                return TypeOf(SymStr(("typename", self.name_of(v))))
            k = self.kind_of(v)
            if k in self.bclasses and k in ("int", "bool", "str", "bytes", "bytearray", "list", "dict", "tuple", "set", "float"):
                return self.bclasses[k]         # `type(x) is int` etc. compare with the builtin class itself
            return TypeOf(k)
        return Unknown("type() with 3 arguments")

    # ------------------------------------------------------------------
    # methods of builtin containers
    # ------------------------------------------------------------------
    def mk(self, name, fn):
        return Builtin(name, fn)

    def method_of(self, obj, name, node, frame):
        I = self
        where = frame.where(node)

        def static_guard(o):
            if id(o) in I.static_ids and (not I.loading or I.exploring):
                if isinstance(o, dict):
                    I.journal.append(("dict", o, None, dict(o)))
                elif isinstance(o, list):
                    I.journal.append(("list", o, None, list(o)))
                I.event("static-mutation", obj=o, origin=I.static_ids[id(o)], where=where, node=node, method=name)

        if isinstance(obj, dict):
            if name == "keys":
                return I.mk("dict.keys", lambda a, k, n, f: DictView(obj, "keys"))
            if name == "values":
                return I.mk("dict.values", lambda a, k, n, f: DictView(obj, "values"))
            if name == "items":
                return I.mk("dict.items", lambda a, k, n, f: DictView(obj, "items"))
            if name == "get":
                def get(a, k, n, f):
                    key = norm_int(I.hash_check(a[0], n, f))
                    dflt = a[1] if len(a) > 1 else None
                    if isinstance(key, Sym) or (isinstance(key, External) and obj and all(isinstance(k_, int) for k_ in obj)):
                        hit = I.small_table_lookup(obj, key, n, f)
                        if hit is not None:
                            return hit[1] if hit[0] else dflt
                    if isinstance(key, (Sym, SymAny, SymStr, Unknown)):
                        return Unknown("dict.get with dynamic key")
                    try:
                        if key in obj:
                            return obj[key]
                    except TypeError:
                        return dflt
                    if "**" in obj and isinstance(obj["**"], SymDict):
                        return I.method_of(obj["**"], "get", n, f).fn(a, k, n, f)
                    return dflt
                return I.mk("dict.get", get)
            if name == "update":
                def update(a, k, n, f):
                    static_guard(obj)
                    if a:
                        src = a[0]
                        if isinstance(src, dict):
                            obj.update(src)
                            for kk, vv in src.items():
                                if isinstance(vv, View) and isinstance(kk, str):
                                    I.event("view-stored", key=kk, view=vv, where=where, node=n)
                        elif isinstance(src, SymDict):
                            obj["**"] = src
                        else:
                            items = I.iterate(src, n, f)
                            if items is None:
                                I.notes.append(("dict.update-dynamic", where))
                            else:
                                for it in items:
                                    pair = I.iterate(it, n, f)
                                    if pair is None or len(pair) != 2:
                                        raise AnalysisError("unmodelled-builtin", "dict.update over items that are not pairs at %s" % where)
                                    obj[I.hash_check(pair[0], n, f)] = pair[1]
                                    if isinstance(pair[1], View) and isinstance(pair[0], str):
                                        I.event("view-stored", key=pair[0], view=pair[1], where=where, node=n)
                    obj.update(k)
                    for kk, vv in k.items():
                        if isinstance(vv, View):
                            I.event("view-stored", key=kk, view=vv, where=where, node=n)
                    return None
                return I.mk("dict.update", update)
            if name == "copy":
                return I.mk("dict.copy", lambda a, k, n, f: dict(obj))
            if name == "pop":
                def pop(a, k, n, f):
                    static_guard(obj)
                    key = a[0]
                    if key in obj:
                        return obj.pop(key)
                    if len(a) > 1:
                        return a[1]
                    return I.key_error(key, n, f, obj)
                return I.mk("dict.pop", pop)
            if name == "setdefault":
                def setdefault(a, k, n, f):
                    static_guard(obj)
                    return obj.setdefault(a[0], a[1] if len(a) > 1 else None)
                return I.mk("dict.setdefault", setdefault)
            if name == "clear":
                def clear(a, k, n, f):
                    static_guard(obj)
                    obj.clear()
                return I.mk("dict.clear", clear)
            return None
        if isinstance(obj, SymDict):
            if name == "get":
                def sget(a, k, n, f):
                    key = a[0]
                    dflt = a[1] if len(a) > 1 else None
                    obj.reads.append((key, "get", f.where(n)))
                    if key in obj.known:
                        return obj.known[key]
                    if key in obj.present:
                        pres = obj.present[key]
                    else:
                        pres = I.decide("%r in %s" % (key, obj.name), n, f)
                        obj.present[key] = pres
                    if not pres:
                        return dflt
                    v = SymAny((obj.name, key))
                    obj.known[key] = v
                    return v
                return I.mk("symdict.get", sget)
            if name == "keys":
                return I.mk("symdict.keys", lambda a, k, n, f: KeySet(obj))
            if name == "copy":
                def scopy(a, k, n, f):
                    nd = SymDict(obj.name, obj.known)
                    nd.reads = obj.reads
                    nd.present = obj.present
                    nd.copy_of = obj
                    return nd
                return I.mk("symdict.copy", scopy)
            if name == "items":
                return I.mk("symdict.items", lambda a, k, n, f: SymList((SymStr(("key-of", obj.name)), SymAny((obj.name, "[*]"))), name=("items", obj.name)))
            if name == "values":
                return I.mk("symdict.values", lambda a, k, n, f: SymList(SymAny((obj.name, "[*]")), name=("values", obj.name)))
            if name == "update":
                def supdate(a, k, n, f):
                    src = a[0] if a else {}
                    if isinstance(src, dict):
                        for kk, vv in src.items():
                            I.set_item(obj, kk, vv, n, f)
                    for kk, vv in k.items():
                        I.set_item(obj, kk, vv, n, f)
                return I.mk("symdict.update", supdate)
            if name == "pop":
                def spop(a, k, n, f):
                    v = I.get_item(obj, a[0], n, f)
                    obj.known.pop(a[0], None)
                    obj.present[a[0]] = False
                    I.event("caller-dict-store", dict=obj.name, key=a[0], value=None, where=f.where(n), node=n)
                    return v
                return I.mk("symdict.pop", spop)
            return None
        if isinstance(obj, tuple):
            if name == "index":
                def tindex(a, k, n, f):
                    for i, x in enumerate(obj):
                        if x is a[0] or I.compare(ast.Eq(), x, a[0], n, f):
                            return i
                    raise PyRaise(Instance(I.bclasses["ValueError"], ("tuple.index(x): x not in tuple",)), n, f.where(n))
                return I.mk("tuple.index", tindex)
            if name == "count":
                return I.mk("tuple.count", lambda a, k, n, f: sum(1 for x in obj if x is a[0] or I.compare(ast.Eq(), x, a[0], n, f)))
            return None
        if isinstance(obj, DequeVal) and name in ("appendleft", "extendleft", "popleft", "rotate"):
            def dq(a, k, n, f):
                static_guard(obj)
                if name == "appendleft":
                    obj.insert(0, a[0])
                elif name == "extendleft":
                    items = I.iterate(a[0], n, f)
                    if items is None:
                        raise AnalysisError("unmodelled-stdlib", "deque.extendleft over a dynamic iterable at %s" % f.where(n))
                    for x in items:
                        obj.insert(0, x)
                elif name == "popleft":
                    if not obj:
                        raise PyRaise(Instance(I.bclasses["IndexError"], ("pop from an empty deque",)), n, f.where(n))
                    return obj.pop(0)
                else:
                    k_ = norm_int(a[0]) if a else 1
                    if not isinstance(k_, int):
                        raise AnalysisError("unmodelled-stdlib", "deque.rotate by a dynamic amount at %s" % f.where(n))
                    if obj:
                        k_ %= len(obj)
                        obj[:] = obj[-k_:] + obj[:-k_] if k_ else obj[:]
                return None
            return I.mk("deque." + name, dq)
        if isinstance(obj, list):
            if name == "append":
                def append(a, k, n, f):
                    static_guard(obj)
                    obj.append(a[0])
                return I.mk("list.append", append)
            if name == "extend":
                def extend(a, k, n, f):
                    static_guard(obj)
                    items = I.iterate(a[0], n, f)
                    if items is not None:
                        obj.extend(items)
                    else:
                        obj.append(I.element_of(a[0], n, f))
                return I.mk("list.extend", extend)
            if name == "copy":
                return I.mk("list.copy", lambda a, k, n, f: list(obj))
            if name == "pop":
                def lpop(a, k, n, f):
                    static_guard(obj)
                    try:
                        return obj.pop(*[norm_int(x) for x in a])
                    except IndexError:
                        return I.index_error(n, f)
                return I.mk("list.pop", lpop)
            if name == "index":
                def lindex(a, k, n, f):
                    # list.index / tuple.index: the first position whose element equals the value (== as python compares)
                    for i, x in enumerate(obj):
                        if x is a[0] or I.compare(ast.Eq(), x, a[0], n, f):
                            return i
                    raise PyRaise(Instance(I.bclasses["ValueError"], ("%r is not in list" % (a[0],),)), n, f.where(n))
                return I.mk("list.index", lindex)
            if name in ("sort", "reverse", "insert", "remove", "clear"):
                def mut(a, k, n, f):
                    static_guard(obj)
                    try:
                        getattr(obj, name)(*a)
                    except Exception:
                        pass
                return I.mk("list." + name, mut)
            if name == "count":
                return I.mk("list.count", lambda a, k, n, f: sum(1 for x in obj if x is a[0] or I.compare(ast.Eq(), x, a[0], n, f)))
            return None
        if isinstance(obj, (set, frozenset)):
            if name == "union":
                def union(a, k, n, f):
                    r = set(obj)
                    for x in a:
                        items = I.iterate(x, n, f)
                        if items is None:
                            return Unknown("union with dynamic")
                        r.update(items)
                    return r
                return I.mk("set.union", union)
            if name == "issubset":
                return I.mk("set.issubset", lambda a, k, n, f: obj.issubset(a[0]) if isinstance(a[0], (set, frozenset)) else Unknown("issubset"))
            if name == "add":
                def add(a, k, n, f):
                    static_guard(obj)
                    obj.add(a[0])
                return I.mk("set.add", add)
            if name in ("intersection", "difference"):
                return I.mk("set." + name, lambda a, k, n, f: getattr(obj, name)(*a) if all(isinstance(x, (set, frozenset)) for x in a) else Unknown(name))
            if name in ("isdisjoint", "issuperset", "symmetric_difference", "copy"):
                def setop(a, k, n, f):
                    others = []
                    for x in a:
                        items = x if isinstance(x, (set, frozenset)) else I.iterate(x, n, f)
                        if items is None or not I.is_static(list(items)) or not I.is_static(list(obj)):
                            raise AnalysisError("unmodelled-builtin", "set.%s over dynamic members at %s" % (name, f.where(n)))
                        others.append(set(items))
                    return getattr(obj, name)(*others)
                return I.mk("set." + name, setop)
            return None
        if isinstance(obj, KeySet):
            if name == "issubset":
                def issub(a, k, n, f):
                    other = a[0]
                    I.event("keyset-issubset", dict=obj.d.name, allowed=other, where=f.where(n), node=n)
                    c = I.decide("keys(%s) <= allowed" % obj.d.name, n, f)
                    if c:
                        obj.d.allowed = other
                    else:
                        obj.nonempty = True
                    return c
                return I.mk("keyset.issubset", issub)
            return None
        if isinstance(obj, str):
            if not name.startswith("__") and callable(getattr(str, name, None)):
                def smeth(a, k, n, f):
                    if all(I.is_static(x) for x in a) and all(I.is_static(x) for x in k.values()):
                        try:
                            return getattr(obj, name)(*a, **k)
                        except Exception as ex:
                            ecls = I.bclasses.get(type(ex).__name__) or I.bclasses["TypeError"]      # the error python itself raises
                            raise PyRaise(Instance(ecls, (str(ex),)), n, f.where(n))
                    if name == "join":
                        return SymStr(("join", obj, I.name_of(a[0])))
                    if name == "format":
                        return I.str_dot_format(obj, a, k, n, f)
                    return SymStr((name, obj))
                return I.mk("str." + name, smeth)
            return None
        if isinstance(obj, SymStr):
            if name == "encode":
                def enc(a, k, n, f):
                    sb = SymBytes(("encode", obj.name))
                    sb.length = I.len_of(obj, n, f)   # ASCII assumption recorded by the rule that uses it
                    sb.of_str = obj
                    return sb
                return I.mk("symstr.encode", enc)
            if name in ("rstrip", "lstrip", "strip", "upper", "lower", "replace"):
                return I.mk("symstr." + name, lambda a, k, n, f: SymStr((name, obj.name)))
            if name == "split":
                return I.mk("symstr.split", lambda a, k, n, f: SymList(SymStr(("split-part", obj.name)), name=("split", obj.name)))
            if name in ("startswith", "endswith", "isdigit"):
                return I.mk("symstr." + name, lambda a, k, n, f: I.decide(I.describe_cond(n), n, f))
            return None
        if isinstance(obj, bytes):
            if name == "join":
                def bjoin(a, k, n, f):
                    src = a[0]
                    items = I.iterate(src, n, f)
                    summary = isinstance(src, list) and getattr(src, "_summary", False)
                    if items is not None and not I.list_is_summary(src):
                        out = Buf(cells=[])
                        for i, it in enumerate(items):
                            if i and len(obj):
                                out = I.buf_concat(out, Buf(cells=list(obj)))       # the separator
                            out = I.buf_concat(out, it)
                        return out
                    if len(obj):
                        raise AnalysisError("unmodelled-builtin", "bytes.join with a separator over a summarised list at %s" % f.where(n))
                    b = Buf(cells=None, length=Sym.opaque(("sumlen", I.list_name(src))), origin=f.where(n))
                    b.parts = [("join", src)]
                    b.join_of = src
                    return b
                return I.mk("bytes.join", bjoin)
            if name == "decode":
                return I.mk("bytes.decode", lambda a, k, n, f: obj.decode(*a))
            return None
        if isinstance(obj, (Buf, View, SymBytes)):
            if name == "join" and isinstance(obj, Buf) and obj.cells is not None and all(isinstance(norm_int(c), int) for c in obj.cells):
                # bytearray(...).join(parts): the same as bytes.join with that separator (a bytearray comes out)
                return I.method_of(bytes(norm_int(c) for c in obj.cells), "join", node, frame)
            if name == "decode":
                def dec(a, k, n, f):
                    if isinstance(obj, Buf) and obj.cells is not None and all(isinstance(norm_int(c), int) for c in obj.cells):
                        try:
                            return bytes(norm_int(c) for c in obj.cells).decode(*a)
                        except Exception as ex:
                            raise PyRaise(Instance(I.bclasses["UnicodeDecodeError"], (str(ex),)), n, f.where(n))
                    codec = (a[0] if a else k.get("encoding", "utf-8"))
                    errors = (a[1] if len(a) > 1 else k.get("errors", "strict"))
                    total = isinstance(codec, str) and codec.lower().replace("_", "-") in ("latin-1", "latin1", "iso-8859-1", "iso8859-1", "cp437", "cp850")
                    if not total and errors == "strict" and isinstance(obj, (View, Buf)) \
                            and I.decide("the bytes are not valid %s" % (codec if isinstance(codec, str) else "text"), n, f):
                        # bytes a device chose need not be text in that encoding
                        raise PyRaise(Instance(I.bclasses["UnicodeDecodeError"], ("invalid start byte",)), n, f.where(n))
                    s = SymStr(("decode", I.name_of(obj) if not isinstance(obj, View) else ("view", obj.root, obj.lo, obj.hi)))
                    s.of_bytes = obj
                    return s
                return I.mk("bytes.decode", dec)
            if name in ("rstrip", "lstrip", "strip"):
                def bstrip(a, k, n, f):
                    chars = a[0] if a else None
                    if isinstance(chars, Buf) and chars.cells is not None and all(isinstance(norm_int(c), int) for c in chars.cells):
                        chars = bytes(norm_int(c) for c in chars.cells)
                    if isinstance(obj, Buf) and obj.cells is not None and all(isinstance(norm_int(c), int) for c in obj.cells) \
                            and (chars is None or isinstance(chars, bytes)):
                        r = Buf(cells=list(getattr(bytes(norm_int(c) for c in obj.cells), name)(*([chars] if chars is not None else []))))
                        r.pytype = getattr(obj, "pytype", None)
                        return r
                    I.event("bytes-strip", obj=obj, how=name, where=f.where(n), node=n)
                    if isinstance(obj, View) and name == "rstrip":
                        r = View(obj.root, lo=obj.lo, hi=None)        # the same start, an end that depends on the content
                        r.stripped_of = obj
                        return r
                    r = Buf(cells=None, length=Sym.opaque(("len", name, I.fresh("s"))), origin=f.where(n))
                    r.parts = [(name, obj)]
                    return r
                return I.mk("bytes." + name, bstrip)
            if name == "copy":
                def bcopy(a, k, n, f):
                    if isinstance(obj, Buf):
                        return obj.copy()
                    return obj
                return I.mk("bytearray.copy", bcopy)
            if name == "hex":
                return I.mk("bytearray.hex", lambda a, k, n, f: SymStr(("hex", id(obj))))
            if name in ("ljust", "rjust") and isinstance(obj, Buf) and obj.cells is not None:
                def just(a, k, n, f):
                    width = norm_int(a[0])
                    fill = a[1] if len(a) > 1 else b" "
                    fillv = fill[0] if isinstance(fill, (bytes, bytearray)) and len(fill) == 1 else (
                        norm_int(fill.cells[0]) if isinstance(fill, Buf) and fill.cells is not None and len(fill.cells) == 1 else None)
                    if not isinstance(width, int) or fillv is None:
                        return Unknown("%s with dynamic width / fill" % name)
                    pad = [fillv] * max(0, width - len(obj.cells))
                    return Buf(cells=(list(obj.cells) + pad) if name == "ljust" else (pad + list(obj.cells)), origin=f.where(n))
                return I.mk("bytearray." + name, just)
            if name in ("reverse", "insert", "pop", "clear") and isinstance(obj, Buf) and obj.cells is not None:
                def bmut(a, k, n, f):
                    if getattr(obj, "pytype", None) in ("bytes", "memoryview"):
                        raise PyRaise(Instance(I.bclasses["AttributeError"], ("'%s' object has no attribute '%s'" % (obj.pytype, name),)), n, f.where(n))
                    I.journal_buf(obj)
                    idx = [norm_int(x) for x in a]
                    if name == "reverse":
                        obj.cells.reverse()
                        return None
                    if name == "clear":
                        obj.cells[:] = []
                    elif name == "insert" and isinstance(idx[0], int):
                        obj.cells.insert(idx[0], idx[1])
                    elif name == "pop" and (not idx or isinstance(idx[0], int)):
                        if not obj.cells:
                            raise PyRaise(Instance(I.bclasses["IndexError"], ("pop from empty bytearray",)), n, f.where(n))
                        r = obj.cells.pop(*idx[:1])
                        obj.length = len(obj.cells)
                        return r
                    else:
                        raise AnalysisError("unmodelled-builtin", "bytearray.%s with a dynamic index at %s" % (name, f.where(n)))
                    obj.length = len(obj.cells)
                    return None
                return I.mk("bytearray." + name, bmut)
            if name in ("extend", "append") and isinstance(obj, Buf):
                def bext(a, k, n, f):
                    if name == "append":
                        I.buf_concat(obj, Buf(cells=[norm_int(a[0])]), inplace=True)
                    else:
                        I.buf_concat(obj, a[0] if isinstance(a[0], (Buf, View, SymBytes, bytes)) else Buf(cells=I.iterate(a[0], n, f) or []), inplace=True)
                return I.mk("bytearray." + name, bext)
            return None
        if isinstance(obj, (int, Sym)) and not isinstance(obj, bool):
            if name == "to_bytes":
                def to_bytes(a, k, n, f):
                    length = norm_int(a[0] if a else k.get("length", 1))
                    order = a[1] if len(a) > 1 else k.get("byteorder", "big")
                    if not isinstance(length, int) or order not in ("big", "little"):
                        return Unknown("to_bytes with dynamic length / byte order")
                    cells = []
                    for i in range(length):
                        cells.append(norm_int(sym_binop("&", sym_binop(">>", obj, 8 * i), 0xFF)) if not isinstance(obj, int)
                                     else (obj >> (8 * i)) & 0xFF)
                    if isinstance(obj, int) and (obj < 0 or obj >> (8 * length)):
                        raise PyRaise(Instance(I.bclasses["OverflowError"], ("int too big to convert",)), n, f.where(n))
                    # (a symbolic value wider than the array raises OverflowError at run time: the caller's rule sees the
                    # lost bits as missing provenance)
                    if order == "big":
                        cells.reverse()
                    return Buf(cells=cells, origin=f.where(n))
                return I.mk("int.to_bytes", to_bytes)
            if name == "bit_length":
                return I.mk("int.bit_length", lambda a, k, n, f: obj.bit_length() if isinstance(obj, int) else Unknown("bit_length"))
            return None
        if isinstance(obj, GenVal):
            return None
        if isinstance(obj, ExitStackVal):
            if name == "callback":
                def cb(a, k, n, f):
                    obj.callbacks.append((a[0], list(a[1:]), dict(k)))
                    return a[0]
                return I.mk("ExitStack.callback", cb)
            if name == "close":
                return I.mk("ExitStack.close", lambda a, k, n, f: I.run_exit_stack(obj, n, f))
            if name == "__enter__":
                return I.mk("ExitStack.__enter__", lambda a, k, n, f: obj)
            raise AnalysisError("unmodelled-stdlib", "contextlib.ExitStack.%s used at %s" % (name, where))
        if isinstance(obj, SymList):
            if name == "append":
                return I.mk("symlist.append", lambda a, k, n, f: None)
            return None
        return None

    def list_is_summary(self, lst):
        return isinstance(lst, list) and id(lst) in getattr(self, "summary_lists", {})

    def list_name(self, lst):
        if isinstance(lst, SymList):
            return lst.name
        if isinstance(lst, list):
            return ("list", id(lst))
        return self.name_of(lst)

    def any_method(self, obj, name, node, frame):
        I = self
        if name == "get":
            def aget(a, k, n, f):
                I.event("symany-get", path=obj.path, key=a[0], where=f.where(n), node=n)
                key = a[0]
                dk = ("any-has", obj.path, key)
                if dk in I.facts:
                    pres = I.facts[dk]
                else:
                    pres = I.decide("%r in %s" % (key, obj.path), n, f)
                    I.facts[dk] = pres
                if pres:
                    return SymAny(obj.path + (key,))
                return a[1] if len(a) > 1 else None
            return I.mk("any.get", aget)
        if name == "keys":
            return I.mk("any.keys", lambda a, k, n, f: KeySet(I.any_as_dict(obj)))
        if name == "items":
            return I.mk("any.items", lambda a, k, n, f: SymList((SymStr(("key-of", obj.path)), SymAny(obj.path + ("[*]",))), name=("items", obj.path)))
        if name == "copy":
            return I.mk("any.copy", lambda a, k, n, f: obj)
        if name == "encode":
            def aenc(a, k, n, f):
                sb = SymBytes(("encode", obj.path))
                sb.length = Sym.opaque(("len", obj.path))
                return sb
            return I.mk("any.encode", aenc)
        if name == "decode":
            return I.mk("any.decode", lambda a, k, n, f: SymStr(("decode", obj.path)))
        if name in ("append", "update", "extend", "pop"):
            def amut(a, k, n, f):
                I.event("caller-obj-store", obj=obj, key=name, value=a, where=f.where(n), node=n)
                return SymAny(obj.path + ("." + name + "()",))
            return I.mk("any." + name, amut)
        return None

    def any_as_dict(self, obj):
        d = SymDict(obj.path)
        d.of_any = obj
        return d


class KeySet:
    """set(d.keys()) of a caller dictionary"""

    def __init__(self, d):
        self.d = d
        self.nonempty = False


class SuperProxy:
    def __init__(self, frame):
        self.frame = frame
        self.start = None
        self.obj = None
