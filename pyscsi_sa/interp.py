"""Abstract interpreter over python-scsi's source text (``ast`` only).

Static constants are propagated exactly; dynamic integers are ``Sym`` (bit
provenance + polynomial + interval); device buffers are ``View``s; built buffers
are ``Buf``s.  Branches on undetermined conditions are *forked* (decision
vectors, re-evaluated from the start) with equality / truthiness refinement;
loops with a dynamic test are summarised (body evaluated once under havoc).
There is no solver.  See DESIGN.md section 2.
"""
from __future__ import annotations

import ast
import os

from .rt import *
from .rt import _Return, _Break, _Continue
from .values import *
from .ops import OpsMixin
from .builtins_model import BuiltinsMixin, make_builtin_classes
from .stdlib_model import StdlibMixin, _NO


class PathLimit(Exception):
    pass


class _Undetermined(Exception):
    pass


class Frame:
    def __init__(self, interp, module, func=None, locals_=None, cls_ns=None, parent=None):
        self.module = module
        self.func = func
        self.locals = locals_ if locals_ is not None else {}
        self.cls_ns = cls_ns
        self.parent = parent  # lexical parent frame for closures
        self.globals_decl = set()

    def where(self, node=None):
        q = self.func.qualname if self.func else self.module.name
        if node is not None and hasattr(node, "lineno"):
            return "%s@L%d" % (q, node.lineno)
        return q


class Interp(OpsMixin, BuiltinsMixin, StdlibMixin):
    MAX_LOOP = 5000
    MAX_DEPTH = 120
    MAX_RECURSION = 72

    def __init__(self, repo_root, package_dirs=("pyscsi",)):
        self.repo_root = repo_root
        self.modules = {}
        self.bclasses = make_builtin_classes()
        self.builtins = self.make_builtins()
        self.static_ids = {}      # id(obj) -> origin  (objects created at import)
        self.origin_of = {}       # id(obj) -> "module:Class.attr"
        self._keep = []           # keep static objects alive (ids stay valid)
        self.loading = True
        # per-path state
        self.decisions = []
        self.dpos = 0
        self.path = []
        self.facts = {}
        self.events = []
        self.journal = []
        self.callstack = []
        self.rec_marks = {}
        self.watch = {}
        self.stubs = {}
        self.no_decide = 0
        self.unknown_decorators = []
        self.memo_store = {}
        self.memo_args = {}
        self.visited = set()
        self.loop_stack = []
        self.try_stack = []
        self.cursors = {}
        self.dyn_syms = {}
        self.missing_modules = set()
        self.notes = []
        self.sym_counter = 0
        self.fork_limit = 4096
        self.exploring = False

    # ------------------------------------------------------------------
    # modules
    # ------------------------------------------------------------------
    def module_path(self, name):
        rel = name.replace(".", os.sep)
        for cand in (rel + ".py", os.path.join(rel, "__init__.py")):
            p = os.path.join(self.repo_root, cand)
            if os.path.isfile(p):
                return p
        return None

    def load_module(self, name):
        m = self.modules.get(name)
        if m is not None:
            return m
        path = self.module_path(name)
        if path is None:
            m = ModuleVal(name, external=True)
            self.modules[name] = m
            return m
        with open(path, "r", encoding="utf-8") as f:
            src = f.read()
        from .desugar import rewrite
        tree = rewrite(ast.parse(src, filename=path))
        m = ModuleVal(name, path=path, tree=tree, source=src)
        self.modules[name] = m
        m.state = "running"
        m.env["__name__"] = name
        m.env["__file__"] = path
        m.env["__package__"] = name if os.path.basename(path) == "__init__.py" else name.rpartition(".")[0]
        # parent packages first (python imports them)
        if "." in name:
            self.load_module(name.rsplit(".", 1)[0])
        frame = Frame(self, m)
        was = self.loading
        self.loading = True
        m.import_errors = []
        try:
            for st in tree.body:
                try:
                    self.exec_stmt(st, frame)
                except PyRaise as e:
                    m.import_errors.append((st.lineno, e.describe()))
        finally:
            self.loading = was
        m.state = "done"
        return m

    def rel_path(self, module):
        if module.path:
            return os.path.relpath(module.path, self.repo_root)
        return module.name

    def gen_advance(self, g, newpos, node=None, frame=None):
        """consume items of a one-shot iterator (journalled; an iterator created at import time is shared state)"""
        if newpos == g.pos:
            return
        self.journal.append(("genpos", g, None, g.pos))
        if id(g) in self.static_ids and (not self.loading or self.exploring):
            self.event("static-mutation", obj=g, origin=self.static_ids[id(g)], where=frame.where(node) if frame else None, node=node,
                       method="consume")
        g.pos = newpos

    def mark_static(self, obj, origin):
        if isinstance(obj, GenVal):
            if id(obj) not in self.static_ids:
                self.static_ids[id(obj)] = origin
                self._keep.append(obj)
            return
        if isinstance(obj, (dict, list, set, Buf, EnumVal)):
            if id(obj) not in self.static_ids:
                self.static_ids[id(obj)] = origin
                self._keep.append(obj)
            if isinstance(obj, dict):
                for v in obj.values():
                    self.mark_static(v, origin)
            elif isinstance(obj, list):
                for v in obj:
                    self.mark_static(v, origin)
            elif isinstance(obj, EnumVal):
                for v in obj.members.values():
                    self.mark_static(v, origin)

    # ------------------------------------------------------------------
    # path exploration
    # ------------------------------------------------------------------
    def begin_path(self, decisions):
        self.decisions = list(decisions)
        self.dpos = 0
        self.path = []
        self.facts = {}
        self.events = []
        self.journal = []
        self.callstack = []
        self.rec_marks = {}
        self.notes = []
        self.loop_stack = []
        self.try_stack = []
        self.cursors = {}
        self.memo_store = {}
        self.memo_args = {}

    def rollback(self):
        for kind, obj, key, old in reversed(self.journal):
            if kind == "attr":
                if old is _ABSENT:
                    obj.pop(key, None)
                else:
                    obj[key] = old
            elif kind == "dict":
                obj.clear()
                obj.update(old)
            elif kind == "list":
                obj[:] = old
            elif kind == "buf":
                obj.cells, obj.length = old
            elif kind == "genpos":
                obj.pos = old
        self.journal = []

    def explore(self, thunk, max_paths=512):
        """evaluate ``thunk`` along every path; returns list of PathResult"""
        results = []
        decisions = []
        self.exploring = True
        was_loading = self.loading
        self.loading = False
        try:
            while True:
                self.begin_path(decisions)
                try:
                    val = thunk()
                    outcome = ("return", val)
                except PyRaise as e:
                    outcome = ("raise", e)
                res = PathResult(outcome, list(self.path), list(self.events), dict(self.facts), list(self.notes))
                self.rollback()
                results.append(res)
                if len(results) > max_paths:
                    raise AnalysisError("path-limit", "more than %d paths" % max_paths)
                d = [c for (_, c, _, _) in self.path]
                while d and d[-1] is False:
                    d.pop()
                if not d:
                    break
                d[-1] = False
                decisions = d
        finally:
            self.exploring = False
            self.loading = was_loading
        return results

    def decide(self, desc, node=None, frame=None):
        """an undetermined branch: fork"""
        if self.no_decide:
            raise _Undetermined()
        if self.loading and not self.exploring:
            # at import time: no forking; take True and note it
            self.notes.append(("import-time-undetermined", desc))
            return True
        if self.dpos < len(self.decisions):
            c = self.decisions[self.dpos]
        else:
            c = True
            self.decisions.append(c)
        self.dpos += 1
        where = frame.where(node) if frame is not None else None
        self.path.append((desc, c, where, getattr(node, "lineno", None)))
        if len(self.path) > 200:
            raise AnalysisError("path-too-long", str(where))
        return c

    def event(self, kind, **kw):
        kw["kind"] = kind
        kw["loops"] = list(self.loop_stack)
        kw["stack"] = [q for q, _ in self.callstack]
        self.events.append(kw)

    def fresh(self, prefix):
        self.sym_counter += 1
        return "%s#%d" % (prefix, self.sym_counter)

    # ------------------------------------------------------------------
    # statements
    # ------------------------------------------------------------------
    def exec_block(self, stmts, frame):
        for s in stmts:
            self.exec_stmt(s, frame)

    def exec_stmt(self, s, frame):
        m = getattr(self, "st_" + type(s).__name__, None)
        if m is None:
            if type(s).__name__ in ("TypeAlias",):
                return
            # a statement the interpreter has no semantics for: skipping it would be guessing
            raise AnalysisError("unsupported-syntax", "%s statement at %s" % (type(s).__name__, frame.where(s)))
        return m(s, frame)

    def st_Expr(self, s, frame):
        v = self.eval(s.value, frame)
        if isinstance(s.value, ast.Call):
            self.event("expr-stmt-call", node=s, value=v, where=frame.where(s))

    def st_Pass(self, s, frame):
        pass

    def st_Global(self, s, frame):
        frame.globals_decl.update(s.names)

    def st_Nonlocal(self, s, frame):
        if not hasattr(frame, "nonlocal_decl"):
            frame.nonlocal_decl = set()
        frame.nonlocal_decl.update(s.names)

    def st_Assert(self, s, frame):
        # `python -O` removes assert statements, test expression and all (self.strip_asserts models that run)
        self.saw_assert = True
        if getattr(self, "strip_asserts", False):
            return
        v = self.eval(s.test, frame)
        if not self.truth(v, s.test, frame):
            msg = self.eval(s.msg, frame) if s.msg is not None else None
            raise PyRaise(Instance(self.bclasses["AssertionError"], (msg,) if msg is not None else ()), s, frame.where(s))

    def st_Import(self, s, frame):
        for a in s.names:
            m = self.import_module(a.name, frame, s)
            if a.asname:
                self.bind_name(a.asname, m, frame)
            else:
                top = a.name.split(".")[0]
                self.bind_name(top, self.import_module(top, frame, s), frame)

    def import_module(self, name, frame, node):
        if name.split(".")[0] in self.missing_modules:
            self.event("import-missing", name=name, where=frame.where(node))
            raise PyRaise(Instance(self.bclasses["ModuleNotFoundError"], ("No module named '%s'" % name,)), node, frame.where(node))
        m = self.load_module(name)
        if m.external and self.module_path(name.split(".")[0]) is not None:
            self.event("import-unresolved", module=name, name="", where=frame.where(node))
            raise PyRaise(Instance(self.bclasses["ModuleNotFoundError"], ("No module named '%s'" % name,)), node, frame.where(node))
        if m.external:
            if name.split(".")[0] in ("sgio", "iscsi"):
                self.event("import-binding", name=name, where=frame.where(node))
            return External(name)
        return m

    def st_ImportFrom(self, s, frame):
        modname = s.module or ""
        if not s.level and modname.split(".")[0] in self.missing_modules:
            raise PyRaise(Instance(self.bclasses["ModuleNotFoundError"], ("No module named '%s'" % modname,)), s, frame.where(s))
        if s.level:
            base = frame.module.name
            is_pkg = frame.module.path and os.path.basename(frame.module.path) == "__init__.py"
            parts = base.split(".")
            if not is_pkg:
                parts = parts[:-1]
            parts = parts[: len(parts) - (s.level - 1)] if s.level > 1 else parts
            modname = ".".join(parts + ([s.module] if s.module else []))
        m = self.load_module(modname)
        if m.external and modname and self.module_path(modname.split(".")[0]) is not None:
            self.event("import-unresolved", module=modname, name="", where=frame.where(s))
            raise PyRaise(Instance(self.bclasses["ModuleNotFoundError"], ("No module named '%s'" % modname,)), s, frame.where(s))
        for a in s.names:
            if a.name == "*":
                if m.external:
                    continue
                names = m.env.get("__all__")
                if names is None:
                    names = [k for k in m.env if not k.startswith("_")]
                for n in names:
                    if n in m.env:
                        self.bind_name(n, m.env[n], frame)
                    else:
                        sub = self.load_module(modname + "." + n)
                        if not sub.external:
                            self.bind_name(n, sub, frame)
                        else:
                            self.event("import-unresolved", module=modname, name=n, where=frame.where(s))
                continue
            if m.external:
                v = External("%s.%s" % (modname, a.name))
            elif a.name in m.env:
                v = m.env[a.name]
            else:
                sub = self.load_module(modname + "." + a.name)
                if sub.external and isinstance(m.env.get("__getattr__"), FuncVal):
                    v = self.call_function(m.env["__getattr__"], [a.name], {}, s, frame)       # PEP 562
                elif sub.external:
                    self.event("import-unresolved", module=modname, name=a.name, where=frame.where(s))
                    v = Unknown("unresolved import %s.%s" % (modname, a.name))
                else:
                    v = sub
            self.bind_name(a.asname or a.name, v, frame)

    def st_FunctionDef(self, s, frame):
        kind = "function"
        prop = None
        prop_base = None
        memo = False
        other_decorators = []
        for d in s.decorator_list:
            dn = d.func if isinstance(d, ast.Call) else d
            dname = dn.id if isinstance(dn, ast.Name) else (dn.attr if isinstance(dn, ast.Attribute) else None)
            if isinstance(d, ast.Name) and d.id in ("classmethod", "staticmethod"):
                kind = d.id
            elif isinstance(d, ast.Name) and d.id == "property":
                prop = "get"
            elif isinstance(d, ast.Attribute) and d.attr == "setter":
                prop = "set"
                prop_base = d.value        # `@x.setter`: a copy of the property bound to x, whatever this function is called
            elif dname in ("lru_cache", "cache", "cached_property", "memoize", "memoized"):
                memo = True      # functools memoisation: results are shared between calls with equal arguments
                if dname == "cached_property":
                    prop = "get"
            else:
                other_decorators.append(d)
        f = FuncVal(s.name, s, frame.module, kind=kind, closure=frame if frame.func else None)
        f.memo = memo
        f.other_decorators = [ast.unparse(d) for d in other_decorators]
        f.defaults = [self.eval(d, frame) for d in s.args.defaults]
        f.kw_defaults = [self.eval(d, frame) if d is not None else None for d in s.args.kw_defaults]
        for d in f.defaults:
            if isinstance(d, (dict, list, set, Buf)):
                self.mark_static(d, "default-arg of %s" % s.name)
                self.origin_of[id(d)] = "default-arg:%s:%s" % (frame.module.name, s.name)
        if prop == "get":
            self.bind_name(s.name, PropertyVal(fget=f), frame)
        elif prop == "set":
            try:
                old = self.eval(prop_base, frame)
            except PyRaise:
                old = None
            if isinstance(old, PropertyVal):
                self.bind_name(s.name, PropertyVal(fget=old.fget, fset=f), frame)
            else:
                self.bind_name(s.name, PropertyVal(fset=f), frame)
        else:
            # any other decorator is an ordinary call: the name is bound to what it returns (innermost first)
            bound = f
            for d in reversed(other_decorators):
                bound = self.apply_decorator(self.eval(d, frame), bound, d, frame)
            self.bind_name(s.name, bound, frame)

    st_AsyncFunctionDef = st_FunctionDef

    def apply_decorator(self, dec, f, node, frame):
        if isinstance(dec, External):
            origin = getattr(dec, "origin_call", None)
            name = origin[0] if origin else dec.name
            if name == "functools.wraps":
                return f                                   # copies names and the docstring: the function itself is unchanged
            if name in ("contextlib.contextmanager",):
                if isinstance(f, FuncVal):
                    f.context_manager = True
                return f
            if name.split(".")[0] == "typing" or name in ("abc.abstractmethod",):
                return f
            r = self.stdlib_call(dec, [f], {}, node, frame)
            if r is not _NO:
                return r
            raise AnalysisError("unmodelled-decorator", "@%s at %s" % (ast.unparse(node), frame.where(node)))
        if isinstance(dec, (FuncVal, BoundMethod, Builtin, ClassVal, PartialVal)):
            return self.call(dec, [f], {}, node, frame)
        if isinstance(dec, Unknown):
            raise AnalysisError("unmodelled-decorator", "@%s at %s (%s)" % (ast.unparse(node), frame.where(node), dec.reason))
        raise PyRaise(Instance(self.bclasses["TypeError"], ("%r object is not callable" % self.kind_of(dec),)), node, frame.where(node))

    def st_ClassDef(self, s, frame):
        bases = [self.eval(b, frame) for b in s.bases]
        std_kind, bases = self.stdlib_bases(s, bases, frame)
        for b in bases:
            if isinstance(b, External):
                top = b.name.split(".")[0]
                if b.name in ("abc.ABC", "typing.Generic", "typing.Protocol") or b.name.startswith("typing.Generic["):
                    continue                  # no behaviour of their own that matters here
                if top in ("typing", "enum", "collections", "dataclasses", "abc", "ctypes", "numbers"):
                    # a base class from the standard library that gives the class its behaviour (NamedTuple, IntEnum ...):
                    # without a model of it the analysis cannot say what instances do
                    raise AnalysisError("unmodelled-stdlib", "class %s(%s) at %s" % (s.name, b.name, frame.where(s)))
        meta = None
        for k in s.keywords:
            if k.arg == "metaclass":
                meta = self.eval(k.value, frame)
        cls = ClassVal(s.name, frame.module, bases, node=s, metaclass=meta)
        if not hasattr(self, "all_classes"):
            self.all_classes = []
        self.all_classes.append(cls)
        if meta is None:
            for b in bases:
                if isinstance(b, ClassVal) and b.metaclass is not None:
                    cls.metaclass = b.metaclass
                    break
        ns = {}
        cframe = Frame(self, frame.module, func=frame.func, locals_=frame.locals, cls_ns=ns, parent=frame.parent)
        cframe.in_class = cls
        cls.attrs = ns
        self.exec_block(s.body, cframe)
        for k, v in list(ns.items()):
            if isinstance(v, FuncVal):
                v.cls = cls
                v.qualname = "%s:%s.%s" % (frame.module.name, cls.name, v.name)
            elif isinstance(v, PropertyVal):
                for f in (v.fget, v.fset):
                    if f is not None:
                        f.cls = cls
                        f.qualname = "%s:%s.%s" % (frame.module.name, cls.name, f.name)
            if isinstance(v, (dict, list, set, GenVal, Buf)):
                self.origin_of[id(v)] = "%s.%s" % (cls.qualname, k)
                self.mark_static(v, "%s.%s" % (cls.qualname, k))
        if std_kind is not None:
            self.finish_stdlib_class(cls, std_kind, s, ns, frame)
        if cls.metaclass is not None and isinstance(cls.metaclass, ClassVal):
            cls.injected = self.run_metaclass(cls.metaclass, cls, s, bases, ns, frame)
        # type.__new__ tells every object in the namespace that wants to know under which name, in which class, it was stored
        # (after the metaclass has run: the class the name is bound to is the one that counts)
        for key_, val_ in list(ns.items()) + [kv for kv in cls.injected.items() if kv[0] not in ns]:
            if isinstance(val_, Instance) and isinstance(val_.cls, ClassVal):
                sn, snowner = val_.cls.lookup("__set_name__")
                if isinstance(sn, FuncVal):
                    self.call_function(sn, [val_, cls, key_], {}, s, frame)
        # __init_subclass__ of the nearest base that has one gets the new class and the class keywords
        ckw = {k.arg: self.eval(k.value, frame) for k in s.keywords if k.arg not in (None, "metaclass")}
        for b in cls.mro()[1:]:
            isub = b.attrs.get("__init_subclass__") if isinstance(b, ClassVal) else None
            if isinstance(isub, FuncVal):
                self.call_function(isub, [cls], ckw, s, frame)
                break
        else:
            if ckw and cls.metaclass is None:
                raise PyRaise(Instance(self.bclasses["TypeError"], ("%s.__init_subclass__() takes no keyword arguments" % s.name,)), s, frame.where(s))
        # containers kept by objects the class body created (strategy objects, descriptors with a table of their own) live
        # as long as the class does: one object for every user of the class
        if self.loading and not self.exploring:
            for key_, val_ in list(ns.items()):
                if isinstance(val_, Instance) and getattr(val_, "import_time", False):
                    for an_, av_ in val_.attrs.items():
                        if isinstance(av_, (dict, list, set, Buf)) and id(av_) not in self.static_ids:
                            self.mark_static(av_, "%s.%s.%s" % (cls.qualname, key_, an_))
        result = cls
        for d in reversed(s.decorator_list):
            result = self.apply_decorator(self.eval(d, frame), result, d, frame)
        self.bind_name(s.name, result, frame)

    def run_metaclass(self, meta, cls, s, bases, ns, frame):
        """what the metaclass adds to a class it creates: its own __new__ (and __init__) are interpreted with the class
        body's namespace, `type.__new__` building the class object; every name the resulting class has that the body did
        not define was put there by the metaclass.  (Python runs this once per class: each class gets its *own* objects.)"""
        new, nowner = meta.lookup("__new__")
        if not isinstance(new, FuncVal):
            return {}
        result = self.call_function(new, [meta, s.name, tuple(bases), dict(ns)], {}, s, frame)
        if not isinstance(result, ClassVal):
            raise AnalysisError("unmodelled-metaclass", "%s.__new__ returns %r for class %s" % (meta.name, result, s.name))
        init, iowner = meta.lookup("__init__")
        if isinstance(init, FuncVal):
            self.call_function(init, [cls, s.name, tuple(bases), dict(ns)], {}, s, frame)
        out = {}
        spaces = [c.attrs for c in result.mro() if isinstance(c, ClassVal) and getattr(c, "made_by_type_new", False)]
        for space in reversed(spaces):
            for k, v in space.items():
                if k in ns or k in ("__module__", "__qualname__", "__doc__", "__dict__", "__weakref__"):
                    continue
                out[k] = v
        for k, v in out.items():
            if isinstance(v, ClassVal):
                v.injected_into = cls
                for c in meta.mro():
                    f = c.attrs.get("__new__") if isinstance(c, ClassVal) else None
                    if isinstance(f, FuncVal) and v.node is not None and any(n is v.node for n in ast.walk(f.node)):
                        v.qualname = "%s:%s.%s" % (c.module.name, c.name, v.name)
        return out

    def metaclass_injections(self, meta, seen=None, owner=None):
        """names the metaclass' __new__ adds through attributes.update({...}) --
        read from the metaclass source (DESIGN 2.1)"""
        seen = seen if seen is not None else set()
        out = {}
        if meta in seen or not isinstance(meta, ClassVal):
            return out
        seen.add(meta)
        # (python runs the metaclass' __new__ once per class it creates: every class gets its *own* exception classes,
        # equal in name only)
        for c in meta.mro():
            new = c.attrs.get("__new__")
            if not isinstance(new, FuncVal):
                continue
            local_classes = {}
            for n in ast.walk(new.node):
                if isinstance(n, ast.ClassDef):
                    local_classes[n.name] = n
            for n in ast.walk(new.node):
                if (isinstance(n, ast.Call) and isinstance(n.func, ast.Attribute)
                        and n.func.attr == "update" and n.args
                        and isinstance(n.args[0], ast.Dict)):
                    for k, v in zip(n.args[0].keys, n.args[0].values):
                        if isinstance(k, ast.Constant) and isinstance(v, ast.Name) and v.id in local_classes:
                            cd = local_classes[v.id]
                            fr = Frame(self, c.module, func=new, locals_={})
                            ec = None
                            try:
                                # the class statement itself, as __new__ executes it (its body: methods, attributes)
                                self.exec_stmt(cd, fr)
                                ec = fr.locals.get(cd.name)
                            except PyRaise:
                                ec = None
                            if not isinstance(ec, ClassVal):
                                bases = [self.eval(b, Frame(self, c.module)) for b in cd.bases]
                                ec = ClassVal(cd.name, c.module, bases, node=cd)
                            ec.qualname = "%s:%s.%s" % (c.module.name, c.name, cd.name)
                            ec.injected_into = owner
                            out[k.value] = ec
        return out

    def st_Return(self, s, frame):
        raise _Return(self.eval(s.value, frame) if s.value is not None else None)

    def st_Break(self, s, frame):
        raise _Break()

    def st_Continue(self, s, frame):
        raise _Continue()

    def st_Raise(self, s, frame):
        if s.exc is None:
            cur = getattr(frame, "handling", None)
            if cur is not None:
                raise PyRaise(cur.exc, s, frame.where(s))
            raise PyRaise(Instance(self.bclasses["RuntimeError"]), s, frame.where(s))
        v = self.eval(s.exc, frame)
        if isinstance(v, ClassVal):
            v = self.instantiate(v, [], {}, s, frame)
        raise PyRaise(v, s, frame.where(s))

    def st_Delete(self, s, frame):
        for t in s.targets:
            if isinstance(t, ast.Subscript):
                obj = self.eval(t.value, frame)
                key = self.eval_index(t.slice, frame)
                self.del_item(obj, key, t, frame)
            elif isinstance(t, ast.Name):
                frame.locals.pop(t.id, None)
            elif isinstance(t, ast.Attribute):
                obj = self.eval(t.value, frame)
                if isinstance(obj, Instance):
                    obj.attrs.pop(t.attr, None)

    def st_Assign(self, s, frame):
        v = self.eval(s.value, frame)
        for t in s.targets:
            self.assign(t, v, frame)

    def st_AnnAssign(self, s, frame):
        if s.value is not None:
            self.assign(s.target, self.eval(s.value, frame), frame)

    def st_AugAssign(self, s, frame):
        t = s.target
        opname = BINOPS[type(s.op)]
        if isinstance(t, ast.Name):
            cur = self.eval(ast.Name(id=t.id, ctx=ast.Load(), lineno=t.lineno, col_offset=0), frame)
            new = self.binop(opname, cur, self.eval(s.value, frame), s, frame, inplace=True)
            self.assign(t, new, frame)
        elif isinstance(t, ast.Subscript):
            obj = self.eval(t.value, frame)
            key = self.eval_index(t.slice, frame)
            cur = self.get_item(obj, key, t, frame)
            new = self.binop(opname, cur, self.eval(s.value, frame), s, frame, inplace=True)
            self.set_item(obj, key, new, t, frame)
        elif isinstance(t, ast.Attribute):
            obj = self.eval(t.value, frame)
            cur = self.get_attr(obj, t.attr, t, frame)
            new = self.binop(opname, cur, self.eval(s.value, frame), s, frame, inplace=True)
            self.set_attr(obj, t.attr, new, t, frame)

    def assign(self, t, v, frame):
        if isinstance(t, ast.Name):
            self.bind_name(t.id, v, frame)
        elif isinstance(t, (ast.Tuple, ast.List)):
            items = self.iterate(v, t, frame)
            star = [i for i, te in enumerate(t.elts) if isinstance(te, ast.Starred)]
            if items is None:
                items = [Unknown("unpack of dynamic")] * len(t.elts)
                if star:
                    items[star[0]] = [Unknown("unpack of dynamic")]
            elif star:
                # a, b, *rest = items: the starred name takes what the others leave, as a list
                i = star[0]
                after = len(t.elts) - i - 1
                if len(items) < len(t.elts) - 1:
                    raise PyRaise(Instance(self.bclasses["ValueError"], ("not enough values to unpack",)), t, frame.where(t))
                items = list(items[:i]) + [list(items[i:len(items) - after])] + list(items[len(items) - after:] if after else [])
            if len(items) != len(t.elts):
                raise PyRaise(Instance(self.bclasses["ValueError"], ("unpack",)), t, frame.where(t))
            for te, ve in zip(t.elts, items):
                self.assign(te, ve, frame)
        elif isinstance(t, ast.Subscript):
            obj = self.eval(t.value, frame)
            key = self.eval_index(t.slice, frame)
            self.set_item(obj, key, v, t, frame)
        elif isinstance(t, ast.Attribute):
            obj = self.eval(t.value, frame)
            self.set_attr(obj, t.attr, v, t, frame)
        elif isinstance(t, ast.Starred):
            self.assign(t.value, v, frame)

    def bind_name(self, name, v, frame):
        if name in getattr(frame, "nonlocal_decl", ()):
            # `nonlocal name`: the binding of the nearest enclosing function that has it
            if getattr(self, "summarising", 0) and (not self.loading or self.exploring):
                # one evaluation of a loop body stands for all its iterations by forgetting what the body assigns -- which it
                # reads off the body's own statements; state a called function keeps in an enclosing scope is outside that
                raise AnalysisError("unmodelled-closure-state", "a loop whose trip count is not known changes `nonlocal %s` through a call at %s"
                                    % (name, frame.where()))
            p = frame.parent
            while p is not None:
                if name in p.locals:
                    if not self.loading or self.exploring:
                        self.journal.append(("attr", p.locals, name, p.locals.get(name, _ABSENT)))
                        if getattr(p, "import_time", False):
                            # the enclosing call happened while a module was imported: its variables live as long as the
                            # module does and are shared by everything that uses the closure
                            self.event("closure-store", name=name, func=p.func.qualname if p.func else "?", where=frame.where(), value=v)
                    p.locals[name] = v
                    return
                p = p.parent
            raise AnalysisError("unsupported-syntax", "nonlocal %s without an enclosing binding at %s" % (name, frame.where()))
        if frame.cls_ns is not None:
            frame.cls_ns[name] = v
        elif frame.func is None or name in frame.globals_decl:
            env = frame.module.env
            if not self.loading or self.exploring:
                self.journal.append(("attr", env, name, env.get(name, _ABSENT)))
                self.event("global-store", module=frame.module.name, name=name, where=frame.where())
            env[name] = v
            if self.loading and isinstance(v, (dict, list, set, EnumVal, GenVal, Buf)):
                self.origin_of.setdefault(id(v), "%s:%s" % (frame.module.name, name))
                self.mark_static(v, "%s:%s" % (frame.module.name, name))
        else:
            frame.locals[name] = v

    def lookup_name(self, name, frame, default=None, node=None):
        f = frame
        if f.cls_ns is not None and name in f.cls_ns:
            return f.cls_ns[name]
        if f.func is not None and name in f.locals and name not in f.globals_decl:
            return f.locals[name]
        p = f.parent
        while p is not None:
            if name in p.locals:
                return p.locals[name]
            p = p.parent
        if name in f.module.env:
            return f.module.env[name]
        if name in self.builtins:
            return self.builtins[name]
        return default

    def st_If(self, s, frame):
        if self.truth(self.eval(s.test, frame), s.test, frame):
            self.exec_block(s.body, frame)
        else:
            self.exec_block(s.orelse, frame)

    def st_With(self, s, frame):
        self.with_items(s.items, 0, s, frame)

    def with_items(self, items, i, s, frame):
        """the context-manager protocol: __enter__, the block, __exit__ on every way out (an exception it answers
        with a true value is swallowed)"""
        if i == len(items):
            self.exec_block(s.body, frame)
            return
        item = items[i]
        ctx = self.eval(item.context_expr, frame)

        def rest(entered):
            if item.optional_vars is not None:
                self.assign(item.optional_vars, entered, frame)
            self.with_items(items, i + 1, s, frame)
        if isinstance(ctx, CtxGen):
            return self.with_generator(ctx, rest, item.context_expr, frame)
        if isinstance(ctx, ExitStackVal):
            try:
                rest(ctx)
            finally:
                self.run_exit_stack(ctx, item.context_expr, frame)
            return
        if isinstance(ctx, SuppressVal):
            try:
                rest(None)
            except PyRaise as e:
                if not self.exception_is(e, tuple(ctx.classes)):
                    raise
            return
        if isinstance(ctx, Instance) and isinstance(ctx.cls.lookup("__exit__")[0], FuncVal):
            enter = ctx.cls.lookup("__enter__")[0]
            exit_ = ctx.cls.lookup("__exit__")[0]
            entered = self.call_function(enter, [ctx], {}, item.context_expr, frame) if isinstance(enter, FuncVal) else ctx
            try:
                rest(entered)
            except PyRaise as e:
                ec = e.exc_class()
                if ec is None and isinstance(e.exc, External):
                    # an exception raised by a binding: its type is the binding's class of that name
                    ec = External(e.exc.name)
                    ec.is_exc_class = True
                    ec.exc_bases = getattr(e.exc, "exc_bases", ("Exception", "BaseException"))
                r = self.call_function(exit_, [ctx, ec if ec is not None else e.exc, e.exc, None], {}, item.context_expr, frame)
                if self.truth(r, item.context_expr, frame):
                    return
                raise
            except (_Return, _Break, _Continue):
                self.call_function(exit_, [ctx, None, None, None], {}, item.context_expr, frame)
                raise
            self.call_function(exit_, [ctx, None, None, None], {}, item.context_expr, frame)
            return
        # an object from outside (a file, a lock ...): it is what `as` names; leaving the block is its own business
        rest(ctx)

    def with_generator(self, ctx, rest, node, frame):
        """`with cm(...)` for a @contextmanager function: the block runs where the generator yields (an exception from the
        block is raised there, inside whatever try the generator has around its yield)"""
        f = ctx.func
        nf = Frame(self, f.module, func=f, locals_=dict(ctx.locs), parent=f.closure)
        state = {"yielded": 0, "flow": None}

        def at_yield(value):
            state["yielded"] += 1
            if state["yielded"] > 1:
                raise PyRaise(Instance(self.bclasses["RuntimeError"], ("generator didn't stop",)), node, frame.where(node))
            try:
                rest(value)
            except (_Return, _Break, _Continue) as flow:
                state["flow"] = flow         # leaving the block by return / break / continue resumes the generator normally
        nf.yield_inline = at_yield
        self.callstack.append((f.qualname, getattr(node, "lineno", None)))
        try:
            try:
                self.exec_block(f.node.body, nf)
            except _Return:
                pass
        finally:
            self.callstack.pop()
        if not state["yielded"]:
            raise PyRaise(Instance(self.bclasses["RuntimeError"], ("generator didn't yield",)), node, frame.where(node))
        if state["flow"] is not None:
            raise state["flow"]

    def run_exit_stack(self, st, node, frame):
        pending = None
        while st.callbacks:
            fn, a, k = st.callbacks.pop()
            try:
                self.call(fn, list(a), dict(k), node, frame)
            except PyRaise as e:
                pending = e                  # a failing callback does not stop the earlier ones; the last error wins
        if pending is not None:
            raise pending

    def st_Try(self, s, frame):
        names = set()
        for h in s.handlers:
            if h.type is None:
                names.add("*")
            else:
                for n in ast.walk(h.type):
                    if isinstance(n, ast.Name):
                        names.add(n.id)
                    elif isinstance(n, ast.Attribute):
                        names.add(n.attr)
        try:
            try:
                self.try_stack.append(names)
                try:
                    self.exec_block(s.body, frame)
                finally:
                    self.try_stack.pop()
            except PyRaise as e:
                handled = False
                for h in s.handlers:
                    if self.handler_matches(h, e, frame):
                        handled = True
                        if h.name:
                            self.bind_name(h.name, e.exc, frame)
                        old = getattr(frame, "handling", None)
                        frame.handling = e
                        try:
                            self.exec_block(h.body, frame)
                        finally:
                            frame.handling = old
                        break
                if not handled:
                    raise
            else:
                self.exec_block(s.orelse, frame)
        finally:
            if s.finalbody:
                self.exec_block(s.finalbody, frame)

    def handler_matches(self, h, e, frame):
        if h.type is None:
            return True
        t = self.eval(h.type, frame)
        return self.exception_is(e, t)

    def exception_is(self, e, t):
        types = list(t) if isinstance(t, tuple) else [t]
        ec = e.exc_class()
        for ty in types:
            if isinstance(ty, ClassVal) and ec is not None and ec.is_subclass(ty):
                return True
            if isinstance(ty, External) and ec is None and isinstance(e.exc, External):
                if ty.name == e.exc.name:
                    return True
            if isinstance(ty, ClassVal) and ty.builtin and ec is None and isinstance(e.exc, External):
                # an exception raised by an external binding: it is an Exception
                # (and whatever builtin class the stand-in says it derives from)
                bases = getattr(e.exc, "exc_bases", ("Exception", "BaseException"))
                if bases == "*" or ty.name in bases:
                    return True          # "*": an error of a type the stand-in does not fix (matches any handler)
        return False

    # loops -------------------------------------------------------------
    def st_For(self, s, frame):
        it = self.eval(s.iter, frame)
        items = self.iterate(it, s, frame)
        if items is not None:
            n = 0
            broke = False
            endless = isinstance(items, TruncList) or getattr(it, "truncated", False)
            for x in items:
                n += 1
                if n > self.MAX_LOOP:
                    raise AnalysisError("loop-bound", frame.where(s))
                self.assign(s.target, x, frame)
                try:
                    self.exec_block(s.body, frame)
                except _Break:
                    broke = True
                    break
                except _Continue:
                    continue
            if not broke and endless:
                raise AnalysisError("unmodelled-stdlib", "a loop over an endless iterator runs past the %d items the model lays out at %s"
                                    % (len(items), frame.where(s)))
            if not broke:
                self.exec_block(s.orelse, frame)
            return
        # dynamic iterable: summarise
        elem = self.element_of(it, s, frame)
        ra = getattr(it, "range_args", None)
        if ra is not None and isinstance(s.target, ast.Name) and len(ra) in (2, 3) and isinstance(norm_int(ra[2] if len(ra) == 3 else 1), int) \
                and norm_int(ra[2] if len(ra) == 3 else 1) >= 1:
            # for pos in range(start, <dynamic stop>, step): pos is an index that walks in steps (see cursor views)
            loop_id = "%s:L%d" % (frame.func.qualname if frame.func else frame.module.name, s.lineno)
            cname = ("loopvar", loop_id, s.target.id)
            elem = Sym.opaque(cname)
            stop = norm_int(ra[1])
            self.cursors[cname] = {"pre": ra[0], "views": {}, "step": norm_int(ra[2] if len(ra) == 3 else 1),
                                   "stop": stop if isinstance(stop, (int, Sym)) and not getattr(stop, "view", None) else None}
        self.summarise_loop(s, frame, elem_target=s.target, elem=elem, iterable=it)

    def st_While(self, s, frame):
        n = 0
        while True:
            # is the test static?  (probe without forking)
            self.no_decide += 1
            try:
                t = self.eval(s.test, frame)
                tv = self.static_truth(t)
                if tv is True and self.static_truth(t, use_facts=False) is None:
                    tv = None      # true only by a path fact about a dynamic value: summarise, do not unroll
            except _Undetermined:
                tv = None
            finally:
                self.no_decide -= 1
            if tv is None:
                # (after n iterations decided by constants / path facts) the rest is summarised
                return self.summarise_loop(s, frame, test=s.test)
            if not tv:
                self.exec_block(s.orelse, frame)
                return
            n += 1
            if n > self.MAX_LOOP:
                self.event("nonterminating-static-loop", node=s, where=frame.where(s))
                raise AnalysisError("static-loop-does-not-terminate", frame.where(s))
            try:
                self.exec_block(s.body, frame)
            except _Break:
                return
            except _Continue:
                continue

    def assigned_names(self, stmts):
        out = set()
        for st in stmts:
            for n in ast.walk(st):
                if isinstance(n, ast.Name) and isinstance(n.ctx, (ast.Store, ast.Del)):
                    out.add(n.id)
        return out

    def summarise_loop(self, s, frame, test=None, elem_target=None, elem=None, iterable=None):
        """evaluate the body once under the head invariant (havoc of every
        variable the body assigns), record the loop facts, havoc again."""
        loop_id = "%s:L%d" % (frame.func.qualname if frame.func else frame.module.name, s.lineno)
        names = self.assigned_names(s.body)
        if test is not None and isinstance(test, ast.Compare) and self.test_relates_values(test, frame):
            # `while a < b` over two computed values: whether the loop runs at all is the test on the state before it -- the
            # same question an earlier guard on this path may have asked already
            if not self.truth(self.eval(test, frame), test, frame):
                self.event("loop-skipped", loop=loop_id, node=s, where=frame.where(s))
                return
        elif self.body_may_exit(s) and not getattr(iterable, "nonempty", False):
            if not self.decide("loop %s runs at least once" % loop_id, s, frame):
                for n in sorted(names):
                    if n in frame.locals:
                        frame.locals[n] = self.havoc_after(frame.locals[n], frame.locals[n], loop_id, n)
                self.event("loop-skipped", loop=loop_id, node=s, where=frame.where(s))
                return
        if elem_target is not None:
            names -= self.assigned_names([ast.Expr(elem_target)]) if False else set()
        head = {}
        pre = {}
        for n in sorted(names):
            if n in frame.locals:
                pre[n] = frame.locals[n]
                frame.locals[n] = self.havoc(frame.locals[n], loop_id, n)
                head[n] = frame.locals[n]
        if elem_target is not None:
            self.assign(elem_target, elem, frame)
        test_operands = None
        if test is not None:
            conj = test.values if isinstance(test, ast.BoolOp) and isinstance(test.op, ast.And) else [test]
            test_operands = []
            for cj in conj:
                if isinstance(cj, ast.Compare) and len(cj.ops) == 1:
                    # the two sides of (each conjunct of) the loop test at the head of an iteration: cursor against bound
                    self.no_decide += 1
                    try:
                        test_operands.append((type(cj.ops[0]).__name__, self.eval(cj.left, frame), self.eval(cj.comparators[0], frame)))
                    except (_Undetermined, PyRaise, AnalysisError):
                        pass
                    finally:
                        self.no_decide -= 1
            test_operands = test_operands or None
            tv = self.eval(test, frame)
            self.assume_true(tv, test, frame)
        exit_kind = "fallthrough"
        depth = getattr(frame, "loop_depth", 0)
        frame.loop_depth = depth + 1
        self.loop_stack.append(loop_id)
        self.summarising = getattr(self, "summarising", 0) + 1
        try:
            try:
                self.exec_block(s.body, frame)
            finally:
                self.summarising -= 1
        except _Break:
            exit_kind = "break"
        except _Continue:
            exit_kind = "continue"
        except (_Return, PyRaise) as e:
            self.loop_stack.pop()
            self.event("loop-body", loop=loop_id, node=s, head=head, pre=pre,
                       end=dict((n, frame.locals.get(n)) for n in head),
                       exit="return" if isinstance(e, _Return) else "raise",
                       test=test, where=frame.where(s), iterable=iterable, test_operands=test_operands)
            frame.loop_depth = depth
            raise
        end = dict((n, frame.locals.get(n)) for n in names if n in frame.locals)
        self.cursor_views_of_loop(s, frame, loop_id, head, end, pre, test_operands)
        self.loop_stack.pop()
        frame.loop_depth = depth
        self.event("loop-body", loop=loop_id, node=s, head=head, pre=pre, end=end,
                   exit=exit_kind, test=test, where=frame.where(s), iterable=iterable, test_operands=test_operands)
        # after the loop: havoc again (0..n iterations)
        for n in names:
            if n in frame.locals:
                frame.locals[n] = self.havoc_after(pre.get(n, _ABSENT), frame.locals[n], loop_id, n)

    def test_relates_values(self, test, frame):
        """is the loop test a comparison of two symbolic integers (neither a buffer length)?"""
        if len(test.ops) != 1:
            return False
        self.no_decide += 1
        try:
            a, b = norm_int(self.eval(test.left, frame)), norm_int(self.eval(test.comparators[0], frame))
        except (_Undetermined, PyRaise, AnalysisError):
            return False
        finally:
            self.no_decide -= 1
        return isinstance(a, Sym) and isinstance(b, Sym) and getattr(a, "view", None) is None and getattr(b, "view", None) is None

    def cursor_views_of_loop(self, s, frame, loop_id, head, end, pre, test_operands=None):
        """an integer the loop advances and uses to slice a device view is a cursor: V[pos + a : pos + b] was evaluated as
        W[a:b] with W the view that starts at the cursor (exactly what `V = V[stride:]` walks); here, at the end of the
        body, W and W advanced by this iteration's stride are added to the loop's head / end state under the name of the
        variable that holds V, so that a walk by index and a walk by re-slicing are the same facts"""
        for cname, rec in list(self.cursors.items()):
            if cname[1] != loop_id or not rec["views"]:
                continue
            posname = cname[2]
            if "step" in rec:
                d = rec["step"]
            else:
                if posname not in head or posname not in end:
                    continue
                cs = self.cursor_split(end[posname])
                if cs is None or cs[0] != cname:
                    if norm_int(end[posname]) is norm_int(head[posname]):
                        cs = (cname, 0)
                    else:
                        continue      # the cursor is not advanced by adding to it: no stride to state
                d = cs[1]
                if isinstance(d, Sym):
                    # the very value the body added, if a variable still holds it (its facts and bounds apply)
                    for val in frame.locals.values():
                        val = norm_int(val)
                        if isinstance(val, Sym) and val.poly is not None and val.poly == d.poly:
                            d = val
                            break
            bound = None
            for op, a, b in (test_operands or ()):
                if op in ("Gt", "GtE"):
                    a, b = b, a
                elif op not in ("Lt", "LtE"):
                    continue
                ca = self.cursor_split(a)
                if ca is not None and ca[0] == cname and ca[1] == 0 and self.cursor_split(b) is None \
                        and isinstance(norm_int(b), (int, Sym)) and not getattr(norm_int(b), "view", None):
                    bound = norm_int(b)       # `while cursor < E`: the walk ends at position E of the view
            if bound is None and "step" in rec and rec.get("stop") is not None:
                bound = rec["stop"]
            for vid, (v, W, P) in rec["views"].items():
                if isinstance(d, int) and d < 0:
                    continue
                if bound is not None and getattr(P, "end", None) is None:
                    P.end = (v.lo, bound)
                Wend = W if (isinstance(d, int) and d == 0) else self.view_get(W, slice(d, None), s, frame)
                vname = None
                for n, val in frame.locals.items():
                    if val is v:
                        vname = n
                        break
                key = vname or posname
                if key in head and key != posname:
                    continue          # the view variable itself is re-bound in the body: that walk is already described
                head[key] = W
                end[key] = Wend
                pre[key] = P

    def body_may_exit(self, s):
        c = getattr(s, "_may_exit", None)
        if c is None:
            c = False
            stack = list(s.body)
            while stack:
                n = stack.pop()
                if isinstance(n, (ast.Return, ast.Raise)):
                    c = True
                    break
                for ch in ast.iter_child_nodes(n):
                    if not isinstance(ch, (ast.FunctionDef, ast.ClassDef, ast.Lambda)):
                        stack.append(ch)
            s._may_exit = c
        return c

    def havoc(self, v, loop_id, name):
        """head-of-loop abstraction of a loop-carried variable"""
        if isinstance(v, View):
            base = ("loop", loop_id, name, v.lo)
            nv = View(v.root, lo=(base, 0), hi=v.hi, hi_val=v.hi_val)
            nv.end = getattr(v, "end", None)
            return nv
        if isinstance(v, list):
            return v  # summary list: appended elements stand for 0..n
        if isinstance(v, dict):
            return v
        if isinstance(v, Buf):
            b = Buf(cells=None, length=Sym.opaque(("len", loop_id, name)), origin=v.origin, name=v.name)
            b.parts = [("prefix", v)]
            return b
        if isinstance(v, bool):
            return Unknown("loop-carried %s" % name)
        if isinstance(v, int) or isinstance(v, Sym):
            cname = ("loopvar", loop_id, name)
            self.cursors[cname] = {"pre": v, "views": {}}
            return Sym.opaque(cname)
        if isinstance(v, (str, SymStr)):
            return SymStr(("loopvar", loop_id, name))
        return v

    def havoc_after(self, pre, cur, loop_id, name):
        if isinstance(cur, View):
            if isinstance(pre, View):
                base = ("after", loop_id, name)
                nv = View(cur.root, lo=(base, 0), hi=pre.hi, hi_val=pre.hi_val)
                nv.end = getattr(pre, "end", None)
                nv.after_of = pre
                return nv
            return cur
        if isinstance(cur, (list, dict)):
            return cur
        if isinstance(cur, Buf):
            if pre is not _ABSENT and isinstance(pre, Buf) and pre is cur:
                return cur
            b = Buf(cells=None, length=Sym.opaque(("len-after", loop_id, name)), origin=cur.origin, name=cur.name)
            b.parts = [("loop-result", loop_id, name)]
            if isinstance(pre, Buf):
                b.parts = [("prefix", pre), ("loop-result", loop_id, name)]
            return b
        if isinstance(cur, (int, Sym)) and not isinstance(cur, bool):
            return Sym.opaque(("after", loop_id, name))
        return cur

    # ------------------------------------------------------------------
    # calls
    # ------------------------------------------------------------------
    def call_function(self, f, args, kwargs, node, frame):
        if len(self.callstack) > self.MAX_DEPTH:
            raise AnalysisError("call-depth", f.qualname)
        self._calls = getattr(self, "_calls", 0) + 1
        if self._calls & 0x3FF == 0:
            import time as _time
            if getattr(self, "deadline", None) is None:
                lim = float(os.environ.get("PYSCSI_SA_TIME_LIMIT", "600"))
                self.deadline = _time.time() + lim
                from . import values as _values
                _values.DEADLINE[0] = self.deadline
            if _time.time() > self.deadline:
                # a run that does not come to an end is not a verdict (symbolic terms that keep growing, a path space that
                # does not close): refuse
                raise AnalysisError("time-limit", "the analysis did not finish within its time budget (in %s)" % f.qualname)
        depth = sum(1 for q, _ in self.callstack if q == f.qualname)
        marks = self.rec_marks.setdefault(f.qualname, [])
        # a recursive call made with no undetermined branch taken since the previous entry of the same function continues
        # by a constant (a counter, a mask): it is followed; one that an undetermined condition (device content) let
        # through is the recursion C11 is about
        steady = bool(marks) and marks[-1] == self.dpos and depth < self.MAX_RECURSION and not self.loading
        if depth >= 3 and not steady and not (depth < 80 and all(self.is_static(x) for x in list(args) + list(kwargs.values()))):
            # (a recursion over constants -- the bits of a mask, the items of a table -- is simply followed)
            self.event("recursion", func=f.qualname)
            return Unknown("recursion %s" % f.qualname)
        a = f.node.args
        locs = {}
        params = [p.arg for p in a.posonlyargs + a.args]
        defaults = getattr(f, "defaults", [])
        ndef = len(defaults)
        args = list(args)
        kwargs = dict(kwargs)
        kwargs_orig = dict(kwargs)
        args_orig = list(args)
        where = frame.where(node) if frame is not None else "?"
        # positional
        if len(args) > len(params) and a.vararg is None:
            raise PyRaise(Instance(self.bclasses["TypeError"],
                                   ("%s() takes %d positional arguments but %d were given"
                                    % (f.name, len(params), len(args)),)), node, where)
        for i, p in enumerate(params):
            if i < len(args):
                locs[p] = args[i]
                if p in kwargs:
                    raise PyRaise(Instance(self.bclasses["TypeError"],
                                           ("%s() got multiple values for argument '%s'" % (f.name, p),)), node, where)
            elif p in kwargs:
                locs[p] = kwargs.pop(p)
            else:
                di = i - (len(params) - ndef)
                if di >= 0:
                    locs[p] = defaults[di]
                else:
                    raise PyRaise(Instance(self.bclasses["TypeError"],
                                           ("%s() missing required argument '%s'" % (f.name, p),)), node, where)
        if a.vararg is not None:
            locs[a.vararg.arg] = tuple(args[len(params):])
        for i, p in enumerate(a.kwonlyargs):
            if p.arg in kwargs:
                locs[p.arg] = kwargs.pop(p.arg)
            elif f.kw_defaults[i] is not None or a.kw_defaults[i] is not None:
                locs[p.arg] = f.kw_defaults[i]
            else:
                raise PyRaise(Instance(self.bclasses["TypeError"], ("missing kw-only %s" % p.arg,)), node, where)
        if a.kwarg is not None:
            locs[a.kwarg.arg] = kwargs
        elif kwargs:
            raise PyRaise(Instance(self.bclasses["TypeError"],
                                   ("%s() got an unexpected keyword argument '%s'" % (f.name, sorted(kwargs, key=str)[0]),)),
                          node, where)
        if getattr(f, "memo", False):
            mk = (f.qualname,) + tuple((k, self.memo_key(v)) for k, v in sorted(locs.items(), key=lambda kv: kv[0]))
            if mk in self.memo_store:
                self.event("memo-hit", func=f.qualname, where=frame.where(node) if frame else None)
                return self.memo_store[mk]
            mk_eq = self.memo_find_equal(f, mk, locs, node, frame)
            if mk_eq is not None:
                self.event("memo-hit", func=f.qualname, where=frame.where(node) if frame else None)
                return self.memo_store[mk_eq]
            f2 = FuncVal(f.name, f.node, f.module, kind=f.kind, cls=f.cls, closure=f.closure)
            f2.qualname = f.qualname
            f2.defaults, f2.kw_defaults, f2.memo = f.defaults, f.kw_defaults, False
            f2.other_decorators = []
            r = self.call_function(f2, args_orig, kwargs_orig, node, frame)
            self.memo_store[mk] = r
            self.memo_args[mk] = dict(locs)
            # a cached value every caller shares is state only if it can change: numbers, strings and tuples of them cannot
            self.event("memo-store" if not self.is_immutable_value(r) else "memo-store-immutable", func=f.qualname,
                       where=frame.where(node) if frame else None, node=f.node)
            return r
        w = self.watch.get(f.qualname)
        if w is not None:
            w(self, f, locs, node, frame)
        st = self.stubs.get(f.qualname) or self.stubs.get("*." + f.name)
        if st is not None:
            return st(self, f, locs, node, frame)
        nf = Frame(self, f.module, func=f, locals_=locs, parent=f.closure)
        nf.import_time = bool(self.loading and not self.exploring)
        self.visited.add(f.qualname)
        self.callstack.append((f.qualname, getattr(node, "lineno", None)))
        marks.append(self.dpos)
        try:
            if getattr(f, "context_manager", False):
                return CtxGen(f, locs)
            if any(isinstance(n, (ast.Yield, ast.YieldFrom)) for n in self.own_nodes(f.node)):
                return self.run_generator(f, nf)
            try:
                self.exec_block(f.node.body, nf)
            except _Return as r:
                return r.value
            return None
        finally:
            self.callstack.pop()
            marks.pop()

    def is_immutable_value(self, v, _depth=0):
        v = norm_int(v)
        if v is None or isinstance(v, (bool, int, float, str, bytes, Sym, SymStr, frozenset, range, slice)):
            return True
        if isinstance(v, tuple):
            return all(self.is_immutable_value(x) for x in v)
        if isinstance(v, (FuncVal, BoundMethod)) and _depth < 3:
            # a function is a constant unless it carries state: a closure over something that can change, a `nonlocal`
            # it rebinds, attributes stored on it
            f = v.func if isinstance(v, BoundMethod) else v
            if isinstance(v, BoundMethod) and not self.is_immutable_value(v.self_val, _depth + 1):
                return False
            if getattr(f, "fattrs", None) or any(isinstance(n, ast.Nonlocal) for n in ast.walk(f.node)):
                return False
            cl = getattr(f, "closure", None)
            if cl is not None and getattr(cl, "func", None) is not None:
                free = set(n.id for n in ast.walk(f.node) if isinstance(n, ast.Name))
                return all(self.is_immutable_value(x, _depth + 1) for k, x in cl.locals.items() if k in free and x is not v)
            return True
        return False

    def memo_hashed_by_class(self, v):
        """an object whose class defines both __eq__ and __hash__: functools caches find it by those, not by identity"""
        if isinstance(v, Instance) and isinstance(v.cls, ClassVal):
            return isinstance(v.cls.lookup("__eq__")[0], FuncVal) and isinstance(v.cls.lookup("__hash__")[0], FuncVal)
        return False

    def memo_find_equal(self, f, mk, locs, node, frame):
        """a stored call of the memoised function whose arguments are *equal* to these as the arguments' classes define equality"""
        if not any(self.memo_hashed_by_class(v) for v in locs.values()):
            return None
        for mk2, locs2 in list(getattr(self, "memo_args", {}).items()):
            if mk2[0] != f.qualname or mk2 not in self.memo_store or set(locs2) != set(locs):
                continue
            same = True
            for k, v in locs.items():
                w = locs2[k]
                if self.memo_hashed_by_class(v) or self.memo_hashed_by_class(w):
                    if not self.truth(self.compare(ast.Eq(), w, v, node, frame), node, frame):
                        same = False
                        break
                elif self.memo_key(v) != self.memo_key(w):
                    same = False
                    break
            if same:
                return mk2
        return None

    def memo_key(self, v):
        v = norm_int(v)
        if v is None or isinstance(v, (bool, int, str, bytes, float)):
            return ("c", v)
        if isinstance(v, Sym):
            return ("s", v.key())
        if isinstance(v, tuple):
            return ("t",) + tuple(self.memo_key(x) for x in v)
        return ("o", id(v))       # objects hash by identity (self, devices, ...)

    def own_nodes(self, fnode):
        cached = getattr(fnode, "_own_nodes", None)
        if cached is None:
            cached = []
            stack = list(fnode.body)
            while stack:
                n = stack.pop()
                cached.append(n)
                if isinstance(n, (ast.FunctionDef, ast.AsyncFunctionDef, ast.ClassDef, ast.Lambda)):
                    continue               # a nested definition: what is inside belongs to it, not to this function
                for c in ast.iter_child_nodes(n):
                    if not isinstance(c, (ast.FunctionDef, ast.ClassDef, ast.Lambda)):
                        stack.append(c)
            fnode._own_nodes = cached
        return cached

    def run_generator(self, f, nf):
        """generator functions: collect yielded values eagerly"""
        out = []
        nf.yield_sink = out
        n0 = len(self.events)
        try:
            self.exec_block(f.node.body, nf)
        except _Return:
            pass
        finally:
            # the body is run where the generator is *created*, all of it: exact for a body that only computes, wrong in
            # time for one that acts on the outside world between its yields (python runs those actions when the consumer
            # asks for the next item) -- such a generator is not followed
            acts = [e for e in self.events[n0:] if e["kind"] == "external-call" and e["name"].split(".")[0] not in ("re", "struct", "binascii", "codecs")]
            if acts and (not self.loading or self.exploring):
                raise AnalysisError("unmodelled-generator", "generator %s calls %s between its yields: it is evaluated when created, "
                                    "not as it is consumed (lazy generators with effects are not modelled)" % (f.qualname, acts[0]["name"]))
        return GenVal(out)

    def instantiate(self, cls, args, kwargs, node, frame):
        # Enum(...)  (metaclass: a subclass of type whose __new__ builds a type)
        if self.is_enum_class(cls):
            return self.make_enum(cls, args, kwargs, node, frame)
        r = self.stdlib_instantiate(cls, args, kwargs, node, frame)
        if r is not _NO:
            return r
        data_base = next((c.name for c in cls.mro() if c.builtin and c.name in ("bytearray", "bytes", "dict", "list", "int", "str", "tuple", "set", "frozenset", "float")), None)
        if data_base is not None and not cls.builtin:
            # an instance of such a class *is* a bytearray / dict / ...: the model has no such objects
            raise AnalysisError("unmodelled-builtin", "instance of %s, a subclass of %s, at %s" % (cls.name, data_base, frame.where(node) if frame else "?"))
        inst = Instance(cls, tuple(args))
        inst.import_time = bool(self.loading and not self.exploring)
        init, owner = cls.lookup("__init__")
        if isinstance(init, FuncVal):
            self.call_function(init, [inst] + list(args), kwargs, node, frame)
        elif not cls.builtin and not any(c.builtin for c in cls.mro()) and (args or kwargs):
            raise PyRaise(Instance(self.bclasses["TypeError"], ("%s() takes no arguments" % cls.name,)),
                          node, frame.where(node) if frame else None)
        return inst

    def is_enum_class(self, cls):
        return any(c.builtin and c.name == "type" for c in cls.mro()) and cls.lookup("keys")[0] is not None

    def make_enum(self, cls, args, kwargs, node, frame):
        new, owner = cls.lookup("__new__")
        if isinstance(new, FuncVal):
            e = self.call_function(new, [cls] + list(args), kwargs, node, frame)
            if isinstance(e, EnumVal):
                if len(args) == 1:
                    e.origin = self.origin_of.get(id(args[0]))
                return e
            return e
        tmp = {}
        if len(args) == 1 and isinstance(args[0], dict):
            tmp.update(args[0])
        elif kwargs:
            tmp.update(kwargs)
        else:
            exc, _ = None, None
            raise PyRaise(Instance(self.bclasses["Exception"], ("NotSupportedArgumentError",)), node,
                          frame.where(node) if frame else None)
        e = EnumVal(tmp, cls)
        if len(args) == 1:
            e.origin = self.origin_of.get(id(args[0]))
        return e


_ABSENT = ABSENT
_ABSENT_MARK = _ABSENT


class PathResult:
    def __init__(self, outcome, path, events, facts, notes):
        self.outcome = outcome
        self.path = path
        self.events = events
        self.facts = facts
        self.notes = notes

    @property
    def returned(self):
        return self.outcome[0] == "return"

    @property
    def value(self):
        return self.outcome[1] if self.returned else None

    @property
    def raised(self):
        return self.outcome[1] if not self.returned else None

    def cond_str(self):
        return " & ".join("%s%s" % ("" if c else "not ", d) for d, c, _, _ in self.path)


BINOPS = {
    ast.Add: "+", ast.Sub: "-", ast.Mult: "*", ast.FloorDiv: "//", ast.Mod: "%",
    ast.LShift: "<<", ast.RShift: ">>", ast.BitAnd: "&", ast.BitOr: "|",
    ast.BitXor: "^", ast.Pow: "**", ast.Div: "/",
}
