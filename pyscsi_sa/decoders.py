"""Abstract interpretation of the response decoders: extracts, per path, the
decode sites (table, position), the parse windows, the loops and their strides
in a normal form that can be compared with the reference (C04, C06, C11)."""
from __future__ import annotations

from .rt import *
from .values import *

CONV = "pyscsi.utils.converter"
CODEC_FUNCS_ = (CONV + ":decode_bits", CONV + ":scsi_ba_to_int")


class _F:
    def where(self, node=None):
        return "decoder"


def rd_fields(poly):
    """decompose a polynomial over byte reads into (const, [(coeff, root, pos, nbytes)], other_terms)
    merging big-endian runs: Σ c·256^(n-1-i)·rd(pos+i)"""
    const = 0
    reads = {}
    other = []
    for mono, c in poly.items():
        if mono == ():
            const = c
            continue
        if len(mono) == 1 and isinstance(mono[0], tuple) and mono[0] and mono[0][0] == "rd":
            _, root, pos, n = mono[0]
            reads[(root, pos)] = c
        else:
            other.append((mono, c))
    fields = []
    used = set()
    for (root, pos), c in sorted(reads.items(), key=lambda kv: (repr(kv[0][0]), repr(kv[0][1][0]), kv[0][1][1])):
        if (root, pos) in used:
            continue
        # extend a run starting here
        run = [(pos, c)]
        base, off = pos
        k = 1
        while True:
            nxt = (root, (base, off + k))
            if nxt in reads and nxt not in used and reads[nxt] * 256 == run[-1][1]:
                run.append((nxt[1], reads[nxt]))
                k += 1
            else:
                break
        for q, _ in run:
            used.add((root, q))
        fields.append((run[-1][1], root, pos, len(run)))
    return const, fields, other


def norm_pos(I, pos):
    """position -> readable normal form"""
    base, off = pos
    if base is None:
        return ("abs", off)
    if base[0] == "loop":
        return ("loop", base[1].split(":")[-1], base[2], off)
    if base[0] == "dyn":
        parent = norm_pos(I, base[1])
        sym = I.dyn_syms.get(base[2]) if isinstance(base[2], tuple) else base[2]
        return ("dyn", parent, norm_len(I, sym), off)
    if base[0] == "after":
        return ("after-loop", base[1].split(":")[-1], base[2], off)
    if base[0] == "elem":
        return ("element", off)
    return ("?", repr(base)[:60], off)


def norm_len(I, v):
    v = norm_int(v)
    if isinstance(v, int):
        return ("const", v)
    if isinstance(v, Sym) and v.poly is not None:
        const, fields, other = rd_fields(v.poly)
        fl = [(c, norm_pos(I, pos), n) for c, root, pos, n in fields]
        ot = [(repr(m)[:80], c) for m, c in other]
        return ("expr", const, fl, ot)
    if isinstance(v, Sym) and v.bits is not None:
        atoms = []
        for b in v.bits:
            if b == 0:
                atoms.append(None)
            elif b == 1 or len(b) != 1:
                return ("unknown", repr(v)[:80])
            else:
                atoms.append(tuple(b)[0])
        real = [a for a in atoms if a is not None]
        if real and all(a[0] == "m" for a in real) and len(real) == len(atoms):
            first, last = real[-1], real[0]
            if len(real) % 8 == 0 and first[3] == 7 and last[3] == 0:
                return ("expr", 0, [(1, norm_pos(I, first[2]), len(real) // 8)], [])
            return ("bitfield", norm_pos(I, first[2]), first[3], norm_pos(I, last[2]), last[3])
    return ("unknown", repr(v)[:80])


def cond_facts(I, facts):
    """path facts about device bytes / parameters, in readable form"""
    out = []
    for k, f in facts.items():
        if not (isinstance(k, tuple) and k and k[0] == "sym"):
            if isinstance(k, tuple) and k and k[0] == "any":
                out.append((("caller", k[1]), f))
            continue
        bits, poly = k[1]
        desc = None
        if bits is not None:
            atoms = []
            okb = True
            for b in bits:
                if b == 0:
                    atoms.append(None)
                elif b == 1 or len(b) != 1:
                    okb = False
                    break
                else:
                    atoms.append(tuple(b)[0])
            if okb and any(a is not None for a in atoms):
                real = [a for a in atoms if a is not None]
                if all(a[0] == "m" for a in real):
                    # (root, pos, bit) MSB first
                    ps = [(norm_pos(I, a[2]), a[3]) for a in reversed(real)]
                    desc = ("bytes", ps[0][0], ps[0][1], ps[-1][0], ps[-1][1], len(atoms))
                elif all(a[0] == "p" for a in real):
                    desc = ("param", real[0][1])
        if desc is None and poly is not None:
            desc = ("expr", repr(poly)[:100])
        fv = f
        if f[0] == "ne":
            fv = ("ne", tuple(sorted(f[1], key=repr)))
        out.append((desc, fv))
    return out


class DecPath:
    def __init__(self, I, p):
        self.p = p
        self.sites = []
        self.reads = []
        self.loops = []
        self.slices = []
        self.blobs = []
        self.after_views = {}
        for e in p.events:
            # views havoc'ed after an inner loop remember what they were before it
            if e["kind"] == "loop-body":
                for n, ev in list(e["end"].items()) + list(e["head"].items()):
                    if isinstance(ev, View) and ev.lo[0] is not None and ev.lo[0][0] == "after" and getattr(ev, "after_of", None) is not None:
                        self.after_views[ev.lo[0]] = ev.after_of
        for e in p.events:
            k = e["kind"]
            if k == "decode-site":
                v = e["data"]
                self.sites.append({"table": e["table"], "pos": norm_pos(I, v.lo) if isinstance(v, View) else ("not-a-view", repr(v)[:60]),
                                   "len": v.length if isinstance(v, View) else None, "loops": [l.split(":")[-1] for l in e["loops"]],
                                   "where": e["where"], "view": v, "keys": e["keys"]})
            elif k == "int-read":
                v = e["data"]
                if isinstance(v, View):
                    self.reads.append({"pos": norm_pos(I, v.lo), "len": v.length, "loops": [l.split(":")[-1] for l in e["loops"]], "where": e["where"]})
            elif k == "view-byte":
                v = e["view"]
                if any(q in CODEC_FUNCS_ for q in e.get("stack", [])):
                    continue
                self.reads.append({"pos": norm_pos(I, pos_add(v.lo, e["index"])), "len": 1, "loops": [l.split(":")[-1] for l in e["loops"]],
                                   "where": e["where"]})
            elif k == "view-stored":
                v = e["view"]
                ln = norm_len(I, v.length) if v.length is not None else None
                if ln is None and getattr(v, "end", None) is not None:
                    ln = ("to", norm_pos(I, v.end[0]), norm_len(I, v.end[1]))
                self.blobs.append({"key": e["key"], "pos": norm_pos(I, v.lo), "len": ln,
                                   "loops": [l.split(":")[-1] for l in e["loops"]], "where": e["where"]})
            elif k == "view-slice":
                v = e["view"]
                if v.lo[0] is not None and v.lo[0][0] == "after" and getattr(v, "after_of", None) is not None:
                    self.after_views[v.lo[0]] = v.after_of
                self.slices.append({"from": norm_pos(I, v.lo), "lo": norm_len(I, e["lo"]), "hi": norm_len(I, e["hi"]) if e["hi"] is not None else None,
                                    "loops": [l.split(":")[-1] for l in e["loops"]], "where": e["where"], "raw": e})
            elif k == "loop-body":
                rec = {"loop": e["loop"].split(":")[-1], "exit": e["exit"], "vars": {}, "where": e["where"], "node": e["node"],
                       "test": e.get("test"), "raw": e}
                for n, hv in e["head"].items():
                    ev = e["end"].get(n)
                    if isinstance(hv, View) and isinstance(ev, View):
                        rec["vars"][n] = {"head": hv, "end": ev, "stride": stride_of(I, hv, ev, self.after_views)}
                self.loops.append(rec)
        self.conds = cond_facts(I, p.facts)
        self.returned = p.returned
        self.value = p.value if p.returned else None
        self.raised = p.raised if not p.returned else None


def stride_of(I, head, end, after_views=None):
    after_views = after_views if after_views is not None else {}
    return _stride_of(I, head, end, after_views)


def _stride_of(I, head, end, after_views):
    """how far the view advanced over one iteration: ('const', k) | ('expr', ...) | ('unchanged',) | ('unknown', ..)"""
    if end is head or end.lo == head.lo:
        return ("unchanged",)
    # walk end's lo chain back to head's lo, summing
    total_const = 0
    parts = []
    lo = end.lo
    guard = 0
    while guard < 20:
        guard += 1
        base, off = lo
        if base == head.lo[0]:
            total_const += off - head.lo[1]
            if not parts:
                return ("const", total_const)
            return ("expr", total_const, parts)
        if base is not None and base[0] == "dyn":
            total_const += off
            sym = I.dyn_syms.get(base[2]) if isinstance(base[2], tuple) else base[2]
            parts.append(sym)
            lo = base[1]
            continue
        if base is not None and base[0] == "after":
            # the variable went through an inner loop (which only ever advances it):
            # what it had advanced before that loop is a lower bound
            pre = after_views.get(base)
            if pre is not None:
                r = stride_of(I, head, pre, after_views)
                if r[0] == "const":
                    return ("atleast", r[1] + total_const + off)
                if r[0] == "atleast":
                    return ("atleast", r[1] + total_const + off)
            return ("unknown", "after inner loop")
        return ("unknown", repr(lo)[:80])
    return ("unknown", "chain too long")


def install_decoder_watches(I):
    def w_decode(I_, f, locs, node, frame):
        t = locs.get("check_dict")
        I_.event("decode-site", table=I_.origin_of.get(id(t), "<anonymous table>") if isinstance(t, dict) else repr(t)[:60],
                 data=locs.get("data"), result=locs.get("result_dict"), where=frame.where(node) if frame else None,
                 keys=list(t.keys()) if isinstance(t, dict) else None, tableobj=t)

    def w_b2i(I_, f, locs, node, frame):
        if I_.callstack and I_.callstack[-1][0] == CODEC_FUNCS_[0]:
            return
        I_.event("int-read", data=locs.get("ba"), where=frame.where(node) if frame else None)

    # the functions the converter module exports under these names, wherever they are defined
    conv = I.modules.get(CONV)
    names = {}
    for n in ("decode_bits", "scsi_ba_to_int"):
        f = conv.env.get(n) if conv is not None else None
        names[n] = f.qualname if isinstance(f, FuncVal) else CONV + ":" + n
    global CODEC_FUNCS_, CODEC_FUNCS
    CODEC_FUNCS_ = CODEC_FUNCS = (names["decode_bits"], names["scsi_ba_to_int"])
    I.watch[names["decode_bits"]] = w_decode
    I.watch[names["scsi_ba_to_int"]] = w_b2i


def explore_decoder(prog, cls, fname, kwargs=None, max_paths=600, root="resp"):
    I = prog.I
    install_decoder_watches(I)
    f = prog.func(cls.module.name, cls.name, fname)

    def th():
        kw = kwargs() if kwargs else {}
        fn = I.get_attr(cls, fname, None, _F())
        return I.call(fn, [View(root)], kw, None, _F())
    return [DecPath(I, p) for p in I.explore(th, max_paths=max_paths)]


# ---------------------------------------------------------------------------
# canonical facts
# ---------------------------------------------------------------------------
CODEC_FUNCS = (CONV + ":decode_bits", CONV + ":scsi_ba_to_int")


def loop_index(order, name):
    if name not in order:
        order.append(name)
    return order.index(name)


def canon_pos(pos, order):
    """rename loops by order of appearance; drop variable names"""
    if pos[0] == "abs":
        return ("abs", pos[1])
    if pos[0] == "loop":
        return ("loop", loop_index(order, pos[1]), pos[3])
    if pos[0] == "dyn":
        return ("dyn", canon_pos(pos[1], order), canon_len(pos[2], order), pos[3])
    if pos[0] == "after-loop":
        return ("after-loop", loop_index(order, pos[1]), pos[3])
    return pos


def canon_len(ln, order):
    if ln is None:
        return None
    if ln[0] == "const":
        return ln
    if ln[0] == "expr":
        return ("expr", ln[1], tuple(sorted((c, canon_pos(p, order), n) for c, p, n in ln[2])), tuple(ln[3]))
    if ln[0] == "to":
        return ("to", simplify(canon_pos(ln[1], order)), canon_len(ln[2], order))
    return ln


def simplify(pos):
    """flatten ('dyn', parent, ('const', k), off) and nested constants"""
    if pos[0] == "dyn":
        parent = simplify(pos[1])
        ln = pos[2]
        if ln[0] == "const":
            return shift(parent, ln[1] + pos[3])
        if ln[0] == "expr" and not ln[2] and not ln[3]:
            return shift(parent, ln[1] + pos[3])
        if ln[0] == "expr" and ln[1]:
            # the constant part of a computed offset belongs to the offset: base + (4 + field) + 2 is base + field + 6
            return ("dyn", parent, ("expr", 0) + tuple(ln[2:]), pos[3] + ln[1])
        return ("dyn", parent, ln, pos[3])
    return pos


def deep_simplify(x):
    """simplify every position inside a (reference) fact"""
    if isinstance(x, tuple):
        y = tuple(deep_simplify(e) for e in x)
        if len(y) == 4 and y[0] == "dyn" and isinstance(y[2], tuple):
            return simplify(y)
        return y
    if isinstance(x, list):
        return [deep_simplify(e) for e in x]
    return x


def shift(pos, k):
    if pos[0] in ("abs",):
        return ("abs", pos[1] + k)
    if pos[0] in ("loop", "after-loop"):
        return (pos[0], pos[1], pos[2] + k)
    if pos[0] == "dyn":
        return ("dyn", pos[1], pos[2], pos[3] + k)
    return pos


class CondMap(dict):
    """site / blob -> the conditions common to every path that reaches it; .per_path keeps each path's own set"""

    def __init__(self):
        super().__init__()
        self.per_path = {}


def facts_of(I, dps):
    """set of canonical facts over all paths of one decoder + per-site necessary conditions"""
    facts = set()
    site_conds = CondMap()
    order = []
    seen = {}
    for dp in dps:
        for l in dp.loops:
            depth = len(l["raw"]["loops"])
            seen.setdefault(l["loop"], (depth, getattr(l["node"], "lineno", 0)))
    for name, _ in sorted(seen.items(), key=lambda kv: kv[1]):
        loop_index(order, name)
    for dp in dps:
        conds = set()
        for d, f in dp.conds:
            if d is None:
                continue
            if d[0] == "bytes":
                dd = ("bytes", simplify(canon_pos(d[1], order)), d[2], simplify(canon_pos(d[3], order)), d[4])
            elif d[0] == "param" and isinstance(d[1], tuple) and d[1] and d[1][0] in ("len", "loopvar", "after", "op", "sum"):
                continue
            else:
                dd = d
            try:
                hash((dd, f))
                conds.add((dd, f))
            except TypeError:
                pass
        for s in dp.sites:
            pos = simplify(canon_pos(s["pos"], order)) if s["pos"][0] != "not-a-view" else s["pos"]
            key = ("site", s["table"], pos)
            facts.add(key)
            site_conds.per_path.setdefault(key, []).append(set(conds))
            if key in site_conds:
                site_conds[key] &= conds
            else:
                site_conds[key] = set(conds)
        for b in dp.blobs:
            key = ("blob", b["key"], simplify(canon_pos(b["pos"], order)), canon_len(b["len"], order))
            try:
                hash(key)
            except TypeError:
                continue
            facts.add(key)
            site_conds.per_path.setdefault(key, []).append(set(conds))
            if key in site_conds:
                site_conds[key] &= conds
            else:
                site_conds[key] = set(conds)
        for l in dp.loops:
            idx = loop_index(order, l["loop"])
            for var, rec in l["vars"].items():
                st = rec["stride"]
                if l["exit"] in ("raise", "return", "break"):
                    continue
                if st[0] == "const":
                    facts.add(("stride", idx, ("const", st[1])))
                elif st[0] == "expr":
                    parts = []
                    for sym in st[2]:
                        parts.append(canon_len(norm_len(I, sym), order))
                    facts.add(("stride", idx, ("expr", st[1], tuple(parts))))
                elif st[0] == "unchanged":
                    facts.add(("stride", idx, ("unchanged", l["exit"])))
                else:
                    facts.add(("stride", idx, st))
                # the window the loop walks
                pre = l["raw"]["pre"].get(var)
                if isinstance(pre, View):
                    start = simplify(canon_pos(norm_pos(I, pre.lo), order))
                    end = getattr(pre, "end", None)
                    if end is not None:
                        e = (simplify(canon_pos(norm_pos(I, end[0]), order)), canon_len(norm_len(I, end[1]), order))
                    else:
                        e = None
                    facts.add(("window", idx, start, e))
    return facts, site_conds, order
