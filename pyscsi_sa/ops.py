"""Expression semantics of the abstract interpreter."""
from __future__ import annotations

import ast

from .rt import *
from .rt import _Return, _Break, _Continue
from .values import *

_ABSENT = ABSENT

CMPOPS = {
    ast.Eq: "==", ast.NotEq: "!=", ast.Lt: "<", ast.LtE: "<=", ast.Gt: ">", ast.GtE: ">=",
}


def fact_key(v):
    if isinstance(v, Sym):
        return ("sym", v.key())
    if isinstance(v, SymAny):
        return ("any", v.path)
    if isinstance(v, SymStr):
        return ("str", v.name)
    if isinstance(v, External):
        return ("ext", v.name)
    return None



PURE_STDLIB = frozenset(["contextlib", "functools", "operator", "itertools", "collections", "string", "math", "enum", "bisect", "inspect",
                         "binascii", "codecs", "dataclasses", "array", "heapq", "copy", "struct", "textwrap", "numbers", "types"])

def spec_to_directive(spec, conversion=-1):
    """a format-spec of str.format / an f-string as the %-directive that prints the same way (as far as the rules look:
    integer presentation types d x X keep their type and zero-padded width, everything else is %s / %r)"""
    if conversion == ord("r"):
        return "%r"
    ty = spec[-1:] if spec[-1:] in ("d", "x", "X") else "s"
    if ty == "s":
        return "%s"
    body = spec[:-1].lstrip("<>=^+- #")
    digits = "".join(ch for ch in body if ch.isdigit())
    return "%" + (("0" + digits.lstrip("0")) if digits.startswith("0") and digits.lstrip("0") else digits) + ty

class OpsMixin:
    # ------------------------------------------------------------------
    def eval(self, e, frame):
        m = getattr(self, "ex_" + type(e).__name__, None)
        if m is None:
            raise AnalysisError("unsupported-syntax", "%s expression at %s" % (type(e).__name__, frame.where(e)))
        return m(e, frame)

    def ex_NamedExpr(self, e, frame):
        v = self.eval(e.value, frame)
        self.assign(e.target, v, frame)
        return v

    def ex_YieldFrom(self, e, frame):
        src = self.eval(e.value, frame)
        items = self.iterate(src, e, frame)
        sink = getattr(frame, "yield_sink", None)
        if items is None or sink is None or getattr(frame, "yield_inline", None) is not None:
            raise AnalysisError("unsupported-syntax", "yield from over a dynamic iterable at %s" % frame.where(e))
        sink.extend(items)
        return None

    def ex_Constant(self, e, frame):
        return e.value

    def ex_Name(self, e, frame):
        v = self.lookup_name(e.id, frame, default=_ABSENT)
        if v is _ABSENT:
            import builtins as _py_builtins
            if hasattr(_py_builtins, e.id):
                # a real builtin the model does not have: the analysis cannot say what the code does -- never a NameError
                raise AnalysisError("unmodelled-builtin", "%s used at %s" % (e.id, frame.where(e)))
            self.event("name-error", name=e.id, where=frame.where(e), node=e)
            raise PyRaise(Instance(self.bclasses["NameError"], (e.id,)), e, frame.where(e))
        return v

    def ex_Tuple(self, e, frame):
        return tuple(self.eval_elts(e.elts, frame))

    def ex_List(self, e, frame):
        return list(self.eval_elts(e.elts, frame))

    def ex_Set(self, e, frame):
        items = self.eval_elts(e.elts, frame)
        try:
            return set(items)
        except TypeError:
            return Unknown("set of unhashable abstract values")

    def eval_elts(self, elts, frame):
        out = []
        for x in elts:
            if isinstance(x, ast.Starred):
                items = self.iterate(self.eval(x.value, frame), x, frame)
                out.extend(items if items is not None else [Unknown("starred dynamic")])
            else:
                out.append(self.eval(x, frame))
        return out

    def ex_Dict(self, e, frame):
        d = {}
        for k, v in zip(e.keys, e.values):
            if k is None:
                src = self.eval(v, frame)
                if isinstance(src, dict):
                    d.update(src)
                continue
            kv = self.hash_check(self.eval(k, frame), k, frame)
            try:
                d[kv] = self.eval(v, frame)
            except TypeError:
                return Unknown("dict with abstract key")
        return d

    def ex_JoinedStr(self, e, frame):
        parts = []
        static = True
        for p in e.values:
            if isinstance(p, ast.Constant):
                parts.append(p.value)
            else:
                v = self.eval(p.value, frame)
                if isinstance(v, (str, int)) and not isinstance(v, bool) and p.format_spec is None and p.conversion == -1:
                    parts.append(str(v))
                else:
                    static = False
                    parts.append(v)
        if static:
            return "".join(parts)
        # the same thing as a %-format (one normal form for every spelling of "text with values put in")
        fmt, fargs = "", []
        for i, p in enumerate(e.values):
            if isinstance(p, ast.Constant):
                fmt += str(p.value).replace("%", "%%")
            else:
                spec = self.eval(p.format_spec, frame) if p.format_spec is not None else ""
                fmt += spec_to_directive(spec if isinstance(spec, str) else "", p.conversion)
                fargs.append(parts[i])
        self.event("str-format", fmt=fmt, args=tuple(fargs), where=frame.where(e), node=e)
        s = SymStr(("fstr",) + tuple(p if isinstance(p, str) else self.name_of(p) for p in parts))
        s.parts = parts
        ln = 0
        for p in parts:
            if isinstance(p, str):
                ln = sym_binop("+", ln, len(p))
            elif isinstance(p, (SymStr, SymAny)):
                ln = sym_binop("+", ln, self.len_of(p, e, frame))
            else:
                ln = sym_binop("+", ln, Sym.opaque(("strlen", self.name_of(p))))
        s.length = ln
        return s

    def ex_FormattedValue(self, e, frame):
        return self.eval(e.value, frame)

    def name_of(self, v):
        if isinstance(v, SymAny):
            return v.path
        if isinstance(v, SymStr):
            return v.name
        if isinstance(v, Sym):
            return ("sym", v.key())
        return repr(v)

    def ex_Attribute(self, e, frame):
        obj = self.eval(e.value, frame)
        return self.get_attr(obj, e.attr, e, frame)

    def ex_Subscript(self, e, frame):
        obj = self.eval(e.value, frame)
        key = self.eval_index(e.slice, frame)
        return self.get_item(obj, key, e, frame)

    def eval_index(self, s, frame):
        if isinstance(s, ast.Slice):
            return slice(
                self.eval(s.lower, frame) if s.lower is not None else None,
                self.eval(s.upper, frame) if s.upper is not None else None,
                self.eval(s.step, frame) if s.step is not None else None,
            )
        return self.eval(s, frame)

    def ex_UnaryOp(self, e, frame):
        v = self.eval(e.operand, frame)
        if isinstance(e.op, ast.Not):
            return not self.truth(v, e.operand, frame)
        v = norm_int(v)
        if isinstance(e.op, ast.USub):
            if isinstance(v, (int, float)):
                return -v
            return sym_binop("-", 0, v)
        if isinstance(e.op, ast.UAdd):
            return v
        if isinstance(e.op, ast.Invert) and isinstance(v, int):
            return ~v
        return Unknown("unary op on dynamic")

    def ex_BoolOp(self, e, frame):
        is_and = isinstance(e.op, ast.And)
        v = None
        for x in e.values:
            v = self.eval(x, frame)
            t = self.truth(v, x, frame)
            if is_and and not t:
                return v if self.static_truth(v) is not None else False
            if not is_and and t:
                return v if self.static_truth(v) is not None else True
        return v if self.static_truth(v) is not None else (True if is_and else False)

    def ex_IfExp(self, e, frame):
        if self.truth(self.eval(e.test, frame), e.test, frame):
            return self.eval(e.body, frame)
        return self.eval(e.orelse, frame)

    def ex_BinOp(self, e, frame):
        a = self.eval(e.left, frame)
        b = self.eval(e.right, frame)
        from .interp import BINOPS
        return self.binop(BINOPS[type(e.op)], a, b, e, frame)

    def ex_Compare(self, e, frame):
        left = self.eval(e.left, frame)
        result = True
        for op, rexpr in zip(e.ops, e.comparators):
            right = self.eval(rexpr, frame)
            r = self.compare(op, left, right, e, frame)
            if not r:
                return False
            left = right
        return result

    def ex_Lambda(self, e, frame):
        fd = ast.FunctionDef(name="<lambda>", args=e.args, body=[ast.Return(value=e.body, lineno=e.lineno, col_offset=0)],
                             decorator_list=[], lineno=e.lineno, col_offset=0)
        f = FuncVal("<lambda>", fd, frame.module, closure=frame)
        f.defaults = [self.eval(d, frame) for d in e.args.defaults]
        f.kw_defaults = [self.eval(d, frame) if d is not None else None for d in e.args.kw_defaults]
        return f

    def ex_Yield(self, e, frame):
        v = self.eval(e.value, frame) if e.value is not None else None
        f = frame
        inline = getattr(f, "yield_inline", None)
        if inline is not None:
            inline(v)                   # a context manager's generator: the with block runs here
            return None
        sink = getattr(f, "yield_sink", None)
        if sink is not None:
            sink.append(v)
        return None

    # comprehensions ------------------------------------------------------
    def comp(self, gens, frame, emit, first_items=None):
        def rec(i, fr):
            if i == len(gens):
                emit(fr)
                return True
            g = gens[i]
            if i == 0 and first_items is not None:
                items = first_items
            else:
                it = self.eval(g.iter, frame if i == 0 else fr)     # the outermost iterable belongs to the enclosing scope
                items = self.iterate(it, g.iter, fr)
            if items is None:
                return False
            if isinstance(items, TruncList):
                self._comp_endless = True
            for x in items:
                self.assign_comp(g.target, x, fr)
                if all(self.truth(self.eval(c, fr), c, fr) for c in g.ifs):
                    if not rec(i + 1, fr):
                        return False
            return True

        cf = type(frame)(self, frame.module, func=frame.func or _DUMMY_FUNC,
                         locals_=dict(frame.locals) if frame.func else {}, parent=frame.parent)
        if frame.cls_ns is not None:
            # class-body comprehension: sees module names only (python rule)
            pass
        self._comp_endless = False
        return rec(0, cf), cf

    def assign_comp(self, t, v, fr):
        if isinstance(t, ast.Name):
            fr.locals[t.id] = v
        else:
            self.assign(t, v, fr)

    def dyn_comp(self, e, frame, elt_fn):
        """comprehension over a dynamic iterable: one representative element"""
        g = e.generators[0]
        if len(e.generators) != 1:
            return Unknown("nested dynamic comprehension")
        it = self.eval(g.iter, frame)
        elem = self.element_of(it, g.iter, frame)
        cf = type(frame)(self, frame.module, func=frame.func or _DUMMY_FUNC,
                         locals_=dict(frame.locals) if frame.func else {}, parent=frame.parent)
        self.assign_comp(g.target, elem, cf)
        v = elt_fn(cf)
        sl = SymList(v, name=("comp", self.name_of(it) if not isinstance(it, SymList) else it.name))
        sl.source = it
        sl.filtered = bool(g.ifs)
        return sl

    def ex_ListComp(self, e, frame):
        out = []
        ok, _ = self.comp(e.generators, frame, lambda fr: out.append(self.eval(e.elt, fr)))
        if ok:
            return out
        return self.dyn_comp(e, frame, lambda fr: self.eval(e.elt, fr))

    def ex_GeneratorExp(self, e, frame):
        first = self.eval(e.generators[0].iter, frame)
        items0 = self.iterate(first, e.generators[0].iter, frame)
        if items0 is None or self.loading and not self.exploring and False:
            # over a dynamic iterable: the summarised form (as a list comprehension would give)
            v = self.ex_ListComp(e, frame)
            if isinstance(v, list):
                return GenVal(v)
            return v
        items0 = TruncList(items0) if isinstance(items0, TruncList) else list(items0)

        def force():
            out = []
            ok, _ = self.comp(e.generators, frame, lambda fr: out.append(self.eval(e.elt, fr)), first_items=items0)
            if not ok:
                raise AnalysisError("unsupported-syntax", "generator expression over a dynamic inner iterable at %s" % frame.where(e))
            return out
        g = GenVal(thunk=force)
        g.truncated = isinstance(items0, TruncList)
        return g

    def ex_SetComp(self, e, frame):
        v = self.ex_ListComp(e, frame)
        if isinstance(v, list):
            try:
                return set(v)
            except TypeError:
                return Unknown("set of abstract")
        return v

    def hash_check(self, key, node, frame):
        """dictionary keys / set members must be hashable: lists, dicts, sets and bytearrays are not"""
        k = norm_int(key)
        if isinstance(k, (list, dict, set, SymDict, SymList)) or (isinstance(k, (Buf, View, SymBytes)) and getattr(k, "pytype", None) in (None, "bytearray")
                                                                  and not isinstance(k, (View, SymBytes))):
            raise PyRaise(Instance(self.bclasses["TypeError"], ("unhashable type: '%s'" % self.kind_of(k),)), node, frame.where(node))
        return key

    def ex_DictComp(self, e, frame):
        out = {}

        def emit(fr):
            k = self.hash_check(self.eval(e.key, fr), e.key, fr)
            out[k] = self.eval(e.value, fr)

        ok, _ = self.comp(e.generators, frame, emit)
        if ok:
            return out
        return Unknown("dict comprehension over dynamic iterable")

    def ex_Call(self, e, frame):
        fn = self.eval(e.func, frame)
        args = []
        for a in e.args:
            if isinstance(a, ast.Starred):
                items = self.iterate(self.eval(a.value, frame), a, frame)
                args.extend(items if items is not None else [Unknown("*dynamic")])
            else:
                args.append(self.eval(a, frame))
        kwargs = {}
        for k in e.keywords:
            v = self.eval(k.value, frame)
            if k.arg is None:
                if isinstance(v, dict):
                    kwargs.update(v)
                elif isinstance(v, SymDict):
                    kwargs["**"] = v
                else:
                    kwargs["**"] = v
            else:
                kwargs[k.arg] = v
        return self.call(fn, args, kwargs, e, frame)

    def call(self, fn, args, kwargs, node, frame):
        if isinstance(fn, FuncVal):
            return self.call_function(fn, args, kwargs, node, frame)
        if isinstance(fn, (External, PartialVal)):
            from .stdlib_model import _NO
            r = self.stdlib_call(fn, args, kwargs, node, frame)
            if r is not _NO:
                return r
        if isinstance(fn, BoundMethod):
            return self.call(fn.func, [fn.self_val] + list(args), kwargs, node, frame)
        if isinstance(fn, Builtin):
            return fn.fn(args, kwargs, node, frame)
        if isinstance(fn, ClassVal):
            if fn.builtin:
                ctor = self.builtin_ctors.get(fn.name)
                if ctor is not None:
                    return ctor(args, kwargs, node, frame)
            return self.instantiate(fn, args, kwargs, node, frame)
        if isinstance(fn, External) and fn.name == "warnings.warn":
            # a warning is an exception when the process runs with `-W error` / PYTHONWARNINGS=error
            self.saw_warn = True
            self.event("warning-issued", args=args, where=frame.where(node), node=node)
            if getattr(self, "warnings_raise", False):
                cat = args[1] if len(args) > 1 else kwargs.get("category")
                if isinstance(cat, ClassVal):
                    raise PyRaise(Instance(cat, tuple(args[:1])), node, frame.where(node))
                from .standin import ExtExc
                raise PyRaise(ExtExc("UserWarning", ("UserWarning", "Warning", "Exception", "BaseException")), node, frame.where(node))
            return None
        if isinstance(fn, External) and fn.name in ("struct.unpack", "struct.pack") and args and isinstance(args[0], str):
            r = self.struct_model(fn.name, args, node, frame)
            if r is not None:
                return r
        if isinstance(fn, External) and fn.name in ("bisect.bisect_left", "bisect.bisect_right", "bisect.bisect") \
                and len(args) == 2 and not kwargs:
            seq = self.iterate(args[0], node, frame)
            x = norm_int(args[1])
            if seq is not None and isinstance(x, int) and all(isinstance(norm_int(e), int) for e in seq):
                import bisect as _bisect
                keys = [norm_int(e) for e in seq]
                return (_bisect.bisect_left if fn.name.endswith("_left") else _bisect.bisect_right)(keys, x)
            return Unknown("bisect over dynamic operands")
        if isinstance(fn, External) and fn.name == "contextlib.ExitStack" and not args:
            return ExitStackVal()
        if isinstance(fn, External) and fn.name in ("operator.attrgetter", "operator.itemgetter") and len(args) == 1 and not kwargs:
            key = args[0]
            if fn.name.endswith("attrgetter") and isinstance(key, str) and "." not in key:
                return Builtin("attrgetter(%s)" % key, lambda a, k, n, f: self.get_attr(a[0], key, n, f))
            if fn.name.endswith("itemgetter"):
                return Builtin("itemgetter(%r)" % (key,), lambda a, k, n, f: self.get_item(a[0], key, n, f))
        if isinstance(fn, External) and fn.name in ("importlib.util.find_spec", "importlib.import_module") and args \
                and isinstance(args[0], str):
            if fn.name.endswith("import_module") and args[0].startswith("."):
                pkg = args[1] if len(args) > 1 else kwargs.get("package")
                if not isinstance(pkg, str):
                    raise AnalysisError("unmodelled-stdlib", "relative import_module without a constant package at %s" % frame.where(node))
                level = len(args[0]) - len(args[0].lstrip("."))
                base = pkg.split(".")
                base = base[: len(base) - (level - 1)] if level > 1 else base
                args = [".".join(base + ([args[0].lstrip(".")] if args[0].lstrip(".") else []))]
            top = args[0].split(".")[0]
            absent = top in getattr(self, "missing_modules", ())
            if fn.name.endswith("import_module") and not absent and self.module_path(args[0]) is not None and len(args) == 1:
                return self.load_module(args[0])            # a module of the library itself: the module, not a stand-in
            if fn.name.endswith("find_spec"):
                return None if absent else External("spec:" + args[0])
            if absent:
                from .standin import ExtExc
                raise PyRaise(ExtExc("ModuleNotFoundError", ("ModuleNotFoundError", "ImportError", "Exception", "BaseException")),
                              node, frame.where(node))
            return External(args[0])
        if isinstance(fn, External) and fn.name in ("functools.reduce", "operator.or_", "operator.add", "operator.lshift"):
            # pure standard-library functions the codecs could plausibly be written with: evaluated, not opaque
            if fn.name == "functools.reduce":
                f = args[0]
                items = self.iterate(args[1], node, frame) if len(args) > 1 else None
                if items is None:
                    return Unknown("reduce over a dynamic iterable")
                items = list(items)
                if len(args) > 2:
                    acc = args[2]
                elif items:
                    acc = items.pop(0)
                else:
                    raise PyRaise(Instance(self.bclasses["TypeError"], ("reduce() of empty iterable with no initial value",)),
                                  node, frame.where(node))
                for x in items:
                    acc = self.call(f, [acc, x], {}, node, frame)
                return acc
            return self.binop({"operator.or_": "|", "operator.add": "+", "operator.lshift": "<<"}[fn.name], args[0], args[1], node, frame)
        if isinstance(fn, External) and fn.name in ("itertools.chain", "itertools.chain.from_iterable"):
            srcs = args if fn.name.endswith("chain") else self.iterate(args[0], node, frame)
            out = []
            for src in (srcs or []):
                items = self.iterate(src, node, frame)
                if items is None:
                    return Unknown("chain over dynamic")
                out.extend(items)
            return GenVal(out)
        if isinstance(fn, External) and fn.name in ("copy.copy", "copy.deepcopy") and len(args) == 1:
            v = args[0]
            if isinstance(v, Buf):
                return v.copy()
            if self.is_static(v) or isinstance(v, (dict, list, tuple, set)):
                import copy as _copy
                try:
                    return _copy.copy(v) if fn.name.endswith(".copy") else _copy.deepcopy(v)
                except Exception:
                    return Unknown("copy of abstract value")
            return Unknown("copy of abstract value")
        if isinstance(fn, External) and fn.name in ("collections.OrderedDict",):
            return self.builtin_ctors["dict"](args, kwargs, node, frame)
        if isinstance(fn, External) and fn.name.split(".")[0] in PURE_STDLIB and not fn.name.startswith("functools.wraps") \
                and fn.name not in ("contextlib.contextmanager", "functools.lru_cache", "functools.cache", "functools.cached_property"):
            # a function of the standard library whose effect is part of what the code does: with no model of it the analysis
            # cannot say what happens -- never guess
            raise AnalysisError("unmodelled-stdlib", "%s used at %s" % (fn.name, frame.where(node)))
        if isinstance(fn, External):
            self.event("external-call", name=fn.name, args=args, kwargs=kwargs, node=node,
                       where=frame.where(node), fn=fn)
            hook = getattr(self, "external_hook", None)
            if hook is not None:
                r = hook(fn, args, kwargs, node, frame)
                if r is not _ABSENT and r is not None:
                    return r
            r = External(fn.name + "()")
            r.origin_call = (fn.name, args, kwargs)
            return r
        if isinstance(fn, Unknown):
            return Unknown("call of unknown: %s" % fn.reason)
        if isinstance(fn, SymAny):
            return SymAny(fn.path + ("()",))
        if isinstance(fn, Instance) and isinstance(fn.cls, ClassVal):
            cf, cowner = fn.cls.lookup("__call__")          # an object whose class says what calling it means
            if isinstance(cf, FuncVal):
                return self.call_function(cf, [fn] + list(args), kwargs, node, frame)
        self.event("not-callable", value=fn, where=frame.where(node), node=node)
        raise PyRaise(Instance(self.bclasses["TypeError"], ("%r object is not callable" % self.kind_of(fn),)),
                      node, frame.where(node))

    def struct_model(self, name, args, node, frame):
        """struct.unpack / struct.pack for formats made of one byte-order character and the integer codes bBhHiIqQ"""
        fmt = args[0]
        order = "big"
        if fmt[:1] in "<>!=@":
            order = "little" if fmt[0] == "<" else "big"
            if fmt[0] in "=@":
                return None
            fmt = fmt[1:]
        sizes = {"b": 1, "B": 1, "h": 2, "H": 2, "i": 4, "I": 4, "l": 4, "L": 4, "q": 8, "Q": 8}
        if not fmt or any(c not in sizes for c in fmt):
            return None
        total = sum(sizes[c] for c in fmt)
        if name == "struct.unpack":
            items = self.iterate(args[1], node, frame) if len(args) > 1 else None
            if items is None:
                return None
            if len(items) != total:
                raise PyRaise(ExtExcLike(self, "struct.error", "unpack requires a buffer of %d bytes" % total), node, frame.where(node))
            out = []
            pos = 0
            for c in fmt:
                chunk = items[pos:pos + sizes[c]]
                pos += sizes[c]
                if order == "little":
                    chunk = list(reversed(chunk))
                acc = 0
                for x in chunk:
                    acc = self.binop("|", self.binop("<<", acc, 8, node, frame), x, node, frame)
                if c.islower():         # signed: subtract 2**n when the top bit is set
                    nbits = 8 * sizes[c]
                    top = self.binop("&", self.binop(">>", acc, nbits - 1, node, frame), 1, node, frame)
                    acc = self.binop("-", acc, self.binop("<<", top, nbits, node, frame), node, frame)
                out.append(acc)
            return tuple(out)
        vals = args[1:]
        if len(vals) != len(fmt):
            return None
        cells = []
        for c, v in zip(fmt, vals):
            part = [self.binop("&", self.binop(">>", v, 8 * i, node, frame), 0xFF, node, frame) for i in range(sizes[c])]
            if order == "big":
                part.reverse()
            cells.extend(norm_int(x) for x in part)
        if all(isinstance(x, int) for x in cells):
            return bytes(cells)
        return Buf(cells=cells)

    # ------------------------------------------------------------------
    # truth / compare with refinement
    # ------------------------------------------------------------------
    def static_truth(self, v, use_facts=True):
        v = norm_int(v)
        if v is None or isinstance(v, (bool, int, float, str, bytes, tuple, list, dict, set, frozenset, range)):
            return bool(v)
        if isinstance(v, Sym):
            if is_nonzero(v):
                return True
            if v.hi == 0:
                return False
            if not use_facts:
                return None
            f = self.facts.get(fact_key(v))
            if f is not None:
                if f[0] == "eq":
                    return bool(f[1])
                if f[0] == "ne" and 0 in f[1]:
                    return True
                if f[0] == "truthy":
                    return f[1]
            return None
        if isinstance(v, Buf):
            if isinstance(v.length, int):
                return v.length > 0
            if is_nonzero(v.length):
                return True
            return None
        if isinstance(v, (Instance, ClassVal, FuncVal, BoundMethod, ModuleVal, Builtin, EnumVal, External)):
            return True
        if isinstance(v, GenVal):
            return True
        if isinstance(v, (SymAny, SymStr, SymDict, SymList, SymBytes, View)):
            if not use_facts:
                return None
            k = fact_key(v) or ("obj", id(v))
            f = self.facts.get(k)
            if f is not None and f[0] == "truthy":
                return f[1]
            if isinstance(v, SymDict) and v.known:
                return True
            return None
        return None

    def truth(self, v, node, frame):
        t = self.static_truth(v)
        if t is not None:
            return t
        desc = self.describe_cond(node, v)
        c = self.decide(desc, node, frame)
        k = fact_key(v) or ("obj", id(v))
        if isinstance(v, Sym):
            old = self.facts.get(k)
            if c:
                ne = set(old[1]) if old and old[0] == "ne" else set()
                ne.add(0)
                self.facts[k] = ("ne", ne)
            else:
                self.facts[k] = ("eq", 0)
        elif not isinstance(v, Unknown):
            self.facts[k] = ("truthy", c)
        return c

    def assume_true(self, v, node, frame):
        t = self.static_truth(v)
        if t is None and not isinstance(v, Unknown) and not isinstance(v, bool):
            k = fact_key(v) or ("obj", id(v))
            if isinstance(v, Sym):
                self.facts[k] = ("ne", {0})
            else:
                self.facts[k] = ("truthy", True)

    def describe_cond(self, node, v=None):
        try:
            return ast.unparse(node)
        except Exception:
            return repr(v)

    def compare(self, op, a, b, node, frame):
        a = norm_int(a)
        b = norm_int(b)
        if isinstance(op, (ast.Is, ast.IsNot)):
            r = self.is_same(a, b)
            if r is None:
                r = self.decide(self.describe_cond(node), node, frame)
                if b is None and isinstance(op, ast.Is) or True:
                    k = fact_key(a)
                    if k and b is None:
                        self.facts[("isnone",) + (k,)] = r
                return r if isinstance(op, ast.Is) else not r
            return r if isinstance(op, ast.Is) else not r
        if isinstance(op, (ast.In, ast.NotIn)):
            r = self.contains(b, a, node, frame)
            return r if isinstance(op, ast.In) else not r
        o = CMPOPS[type(op)]
        if o in ("==", "!=") and isinstance(a, Instance) and isinstance(a.cls, ClassVal):
            eqf, eowner = a.cls.lookup("__eq__")
            if isinstance(eqf, FuncVal):          # the class says what equality means
                r = self.truth(self.call_function(eqf, [a, b], {}, node, frame), node, frame)
                return r if o == "==" else not r
        if isinstance(a, Unknown) or isinstance(b, Unknown):
            # a comparison with a value the analysis lost: both outcomes are explored, unrelated to any other decision about
            # the same quantity -- conclusions that need such decisions to agree are not reliable on this path
            self.event("imprecise-decision", what=self.describe_cond(node), where=frame.where(node), node=node,
                       reason=(a.reason if isinstance(a, Unknown) else b.reason))
            return self.decide(self.describe_cond(node), node, frame)
        # static python values
        if self.is_static(a) and self.is_static(b):
            try:
                return {"==": a == b, "!=": a != b}[o] if o in ("==", "!=") else \
                    {"<": a < b, "<=": a <= b, ">": a > b, ">=": a >= b}[o]
            except TypeError as ex:
                raise PyRaise(Instance(self.bclasses["TypeError"], (str(ex),)), node, frame.where(node))
        an = self.as_number(a)
        bn = self.as_number(b)
        if an is not None and bn is not None:
            r = sym_compare(o, an, bn)
            if r is None:
                r = self.compare_with_facts(o, an, bn)
            mk = None
            if r is None and isinstance(an, Sym) and isinstance(bn, Sym):
                # the same relation between the same two values, asked again on this path: the same answer
                mk = ("cmp", an.key(), bn.key())
                prior = self.facts.get(mk)
                if prior is not None and o in prior:
                    r = prior[o]
            if r is None:
                r = self.decide(self.describe_cond(node), node, frame)
                self.record_compare_fact(o, an, bn, r)
                if mk is not None:
                    known = dict(self.facts.get(mk) or {})
                    known[o] = r
                    known[{"<": ">=", ">=": "<", ">": "<=", "<=": ">", "==": "!=", "!=": "=="}[o]] = not r
                    self.facts[mk] = known
            return r
        # bytes compared with str: always unequal, and an error under `python -bb`
        if o in ("==", "!=") and ((isinstance(a, (bytes, Buf, View, SymBytes)) and isinstance(b, (str, SymStr)))
                                  or (isinstance(b, (bytes, Buf, View, SymBytes)) and isinstance(a, (str, SymStr)))):
            self.saw_bytes_str_compare = True
            if getattr(self, "bytes_warning", False):
                from .standin import ExtExc
                raise PyRaise(ExtExc("BytesWarning", ("BytesWarning", "Warning", "Exception", "BaseException")), node, frame.where(node))
            return o == "!="
        # two tuples / two lists: equal iff same length and pairwise equal (python compares element by element, in order)
        if o in ("==", "!=") and ((isinstance(a, tuple) and isinstance(b, tuple)) or (type(a) is list and type(b) is list)):
            eq = len(a) == len(b)
            if eq:
                for x, y in zip(a, b):
                    if x is y:
                        continue
                    if not self.compare(ast.Eq(), x, y, node, frame):
                        eq = False
                        break
            return eq if o == "==" else not eq
        # two byte strings: equal iff same length and the same bytes (decided where the bytes are known)
        if o in ("==", "!=") and isinstance(a, (Buf, bytes)) and isinstance(b, (Buf, bytes)):
            ca = list(a) if isinstance(a, bytes) else a.cells
            cb = list(b) if isinstance(b, bytes) else b.cells
            if ca is not None and cb is not None:
                verdict = True
                if len(ca) != len(cb):
                    verdict = False
                else:
                    for x, y in zip(ca, cb):
                        x, y = norm_int(x), norm_int(y)
                        if isinstance(x, int) and isinstance(y, int):
                            if x != y:
                                verdict = False
                                break
                        elif x is y:
                            continue
                        elif verdict:
                            verdict = None
                if verdict is None:
                    verdict = self.decide(self.describe_cond(node), node, frame)
                return verdict if o == "==" else not verdict
        # identity-like equality of model objects
        if o in ("==", "!="):
            if isinstance(a, (ClassVal, FuncVal, ModuleVal, Instance, EnumVal, BoundMethod)) or \
               isinstance(b, (ClassVal, FuncVal, ModuleVal, Instance, EnumVal, BoundMethod)):
                eq = a is b
                return eq if o == "==" else not eq
            # dynamic vs anything: undetermined, with refinement on static rhs
            r = None
            ka = fact_key(a)
            if ka is not None and self.is_static(b):
                f = self.facts.get(ka)
                if f is not None:
                    if f[0] == "eq":
                        r = (f[1] == b)
                    elif f[0] == "ne" and b in f[1]:
                        r = False
            if r is None and isinstance(a, External) and isinstance(b, External) \
                    and getattr(a, "inode_gen", None) is not None and getattr(b, "inode_gen", None) is not None \
                    and getattr(a, "stat_field", None) == getattr(b, "stat_field", None) \
                    and (a.stat_field == "st_ino" or a.inode_gen == b.inode_gen):
                # the same field of two stat results of the stand-in's device node: the same node has the same value; two
                # inode numbers are equal iff the node was not replaced in between (other fields of a replaced node: either)
                r = a.inode_gen == b.inode_gen
                self.event("ext-compare", a=a, b=b, equal=r, where=frame.where(node), node=node)
            if r is None:
                r = self.decide(self.describe_cond(node), node, frame)
                if isinstance(a, External) or isinstance(b, External):
                    self.event("ext-compare", a=a, b=b, equal=r, where=frame.where(node), node=node)
                if ka is not None and self.is_static(b):
                    try:
                        hash(b)
                        if r:
                            self.facts[ka] = ("eq", b)
                        else:
                            old = self.facts.get(ka)
                            ne = set(old[1]) if old and old[0] == "ne" else set()
                            ne.add(b)
                            self.facts[ka] = ("ne", ne)
                    except TypeError:
                        pass
            return r if o == "==" else not r
        return self.decide(self.describe_cond(node), node, frame)

    def as_number(self, v):
        if isinstance(v, bool):
            return int(v)
        if isinstance(v, (int, Sym)):
            return v
        if isinstance(v, SymAny):
            return self.any_as_int(v)
        return None

    def any_as_int(self, v, width=72):
        return Sym(bits=[frozenset([("p", v.path, j)]) for j in range(width)],
                   poly=p_sym(v.path), origin=("any", v.path))

    def compare_with_facts(self, o, a, b):
        if isinstance(a, Sym) and isinstance(b, int):
            f = self.facts.get(fact_key(a))
            if f is None:
                return None
            if f[0] == "eq":
                return sym_compare(o, f[1], b) if isinstance(f[1], int) else None
            if f[0] == "ne" and o in ("==", "!=") and b in f[1]:
                return o == "!="
            if f[0] == "range":
                lo, hi = f[1]
                s = Sym(bits=None, poly=None, lo=lo, hi=hi)
                s.lo = lo
                return sym_compare(o, s, b)
        if isinstance(b, Sym) and isinstance(a, int):
            flip = {"==": "==", "!=": "!=", "<": ">", "<=": ">=", ">": "<", ">=": "<="}[o]
            return self.compare_with_facts(flip, b, a)
        return None

    def record_compare_fact(self, o, a, b, r):
        if isinstance(b, Sym) and isinstance(a, int):
            flip = {"==": "==", "!=": "!=", "<": ">", "<=": ">=", ">": "<", ">=": "<="}[o]
            return self.record_compare_fact(flip, b, a, r)
        if not (isinstance(a, Sym) and isinstance(b, int)):
            return
        k = fact_key(a)
        if not r:
            o = {"==": "!=", "!=": "==", "<": ">=", "<=": ">", ">": "<=", ">=": "<"}[o]
        old = self.facts.get(k)
        if o == "==":
            self.facts[k] = ("eq", b)
        elif o == "!=":
            ne = set(old[1]) if old and old[0] == "ne" else set()
            ne.add(b)
            if old is None or old[0] == "ne":
                self.facts[k] = ("ne", ne)
        else:
            lo, hi = (old[1] if old and old[0] == "range" else (a.lo, a.hi))
            if o == "<":
                hi = b - 1 if hi is None else min(hi, b - 1)
            elif o == "<=":
                hi = b if hi is None else min(hi, b)
            elif o == ">":
                lo = max(lo, b + 1)
            elif o == ">=":
                lo = max(lo, b)
            if old is None or old[0] == "range":
                self.facts[k] = ("range", (lo, hi))

    def refined_bounds(self, v):
        """interval of v using path facts"""
        if isinstance(v, int):
            return v, v
        if isinstance(v, Sym):
            lo, hi = v.lo, v.hi
            f = self.facts.get(fact_key(v))
            if f is not None:
                if f[0] == "eq" and isinstance(f[1], int):
                    return f[1], f[1]
                if f[0] == "range":
                    lo = max(lo, f[1][0])
                    hi = f[1][1] if hi is None else (hi if f[1][1] is None else min(hi, f[1][1]))
                if f[0] == "ne" and lo in f[1]:
                    while lo in f[1]:
                        lo += 1
            return lo, hi
        return 0, None

    def is_static(self, v):
        if v is None or isinstance(v, (bool, int, float, str, bytes, range, EnumMember)):
            return True
        if isinstance(v, (tuple, list, set, frozenset)):
            return all(self.is_static(x) for x in v)
        if isinstance(v, dict):
            return all(self.is_static(x) for x in v.values())
        return False

    def is_same(self, a, b):
        dyn = (Sym, SymAny, Unknown, SymStr)
        if isinstance(a, External) and isinstance(b, External) and a is not b and (getattr(a, "is_exc_class", False) or getattr(b, "is_exc_class", False)):
            return a.name == b.name          # the class of an exception the binding raised, named twice: one class
        if a is None or b is None:
            other = b if a is None else a
            if other is None:
                return True
            if isinstance(other, SymAny):
                k = ("isnone", fact_key(other))
                if k in self.facts:
                    return self.facts[k]
                return None
            if isinstance(other, Unknown):
                return None
            return False
        if isinstance(a, dyn) or isinstance(b, dyn):
            return None
        if isinstance(a, bool) != isinstance(b, bool):
            return False        # True / False are singletons of their own type: `0 is False` is false
        if isinstance(a, (int, str)) and isinstance(b, (int, str)):
            return a == b
        return a is b

    def contains(self, container, item, node, frame):
        item = norm_int(item)
        if isinstance(container, Instance) and isinstance(container.cls, ClassVal):
            cf, cowner = container.cls.lookup("__contains__")
            if isinstance(cf, FuncVal):              # the class says what `in` means
                return self.truth(self.call_function(cf, [container, item], {}, node, frame), node, frame)
            itf, iowner = container.cls.lookup("__iter__")
            if isinstance(itf, FuncVal):
                items = self.iterate(self.call_function(itf, [container], {}, node, frame), node, frame)
                if items is None:
                    raise AnalysisError("unmodelled-builtin", "`in` over an object whose __iter__ the analysis cannot lay out at %s" % frame.where(node))
                return self.contains(list(items), item, node, frame)
        if isinstance(container, ChainMapVal):
            for m in container.maps:
                if self.contains(m, item, node, frame):
                    return True
            return False
        if isinstance(container, ClassVal) and self.enum_class_of(container) is not None:
            en = self.enum_class_of(container)
            if isinstance(item, (IntEnumMember, EnumMember)):
                return item.ecls is en or en in item.ecls.mro()
            if self.is_static(item):            # python 3.12: a value is `in` the enum when a member has it
                return any((int(m) if isinstance(m, IntEnumMember) else m.evalue) == item for m in en.enum_unique)
            raise AnalysisError("unmodelled-stdlib", "<dynamic value> in %s at %s" % (container.name, frame.where(node)))
        if isinstance(container, DictView):
            if container.kind == "keys":
                container = container.d
            else:
                items = container.items()
                if isinstance(item, (ClassVal, FuncVal, Instance, EnumVal, EnumMember, ModuleVal)) or item is None:
                    return any(x is item for x in items)          # objects that compare by identity
                container = items
        if isinstance(container, dict):
            if self.is_static(item):
                try:
                    return item in container
                except TypeError:
                    pass
            if isinstance(item, (Sym, External)):
                # a dispatch table asked whether it has the key: the same equality decisions (and path facts) as the lookup
                # that follows, so that the two agree
                hit = self.small_table_lookup(container, item, node, frame) if container and all(isinstance(k, int) for k in container) else None
                if hit is not None:
                    return hit[0]
            return self.decide(self.describe_cond(node), node, frame)
        if isinstance(container, EnumVal):
            return self.decide(self.describe_cond(node), node, frame)
        if isinstance(container, SymDict):
            if self.is_static(item):
                container.reads.append((item, "in", frame.where(node)))
                if item in container.known:
                    return True
                if item in container.present:
                    return container.present[item]
                c = self.decide("%r in %s" % (item, container.name), node, frame)
                container.present[item] = c
                self.journal.append(("present", container, item, None))
                return c
            return self.decide(self.describe_cond(node), node, frame)
        if isinstance(container, (list, tuple, set, frozenset, range, str, bytes)):
            if self.is_static(item) and self.is_static(container):
                try:
                    return item in container
                except TypeError:
                    return False
            if isinstance(item, Sym) and self.is_static(container) and all(isinstance(x, int) for x in container):
                # membership of a dynamic int in a constant collection
                f = self.facts.get(fact_key(item))
                if f is not None and f[0] == "eq":
                    return f[1] in container
                lo, hi = self.refined_bounds(item)
                cand = [x for x in container if x >= lo and (hi is None or x <= hi)]
                if f is not None and f[0] == "ne":
                    cand = [x for x in cand if x not in f[1]]
                cand = [x for x in cand if sym_compare("==", item, x) is not False]
                if not cand:
                    return False
                if isinstance(container, range) and container.step == 1 and lo >= container.start and hi is not None and hi < container.stop:
                    return True
                if not isinstance(container, range) and 2 <= len(cand) <= 4:
                    # a handful of values: one equality decision per value (each with its exact path fact), like the
                    # `x == a or x == b` it abbreviates
                    for x in sorted(set(cand)):
                        if self.compare(ast.Eq(), item, x, node, frame):
                            return True
                    return False
                c = self.decide(self.describe_cond(node), node, frame)
                k = fact_key(item)
                if c:
                    if len(cand) == 1:
                        self.facts[k] = ("eq", cand[0])
                    elif isinstance(container, range) and container.step == 1:
                        self.facts[k] = ("range", (max(lo, container.start), container.stop - 1 if hi is None else min(hi, container.stop - 1)))
                else:
                    old = self.facts.get(k)
                    if isinstance(container, range) and container.step == 1 and (old is None or old[0] == "range"):
                        # outside a contiguous range: keep what we can
                        olo, ohi = old[1] if old else (lo, hi)
                        if olo >= container.start:
                            self.facts[k] = ("range", (max(olo, container.stop), ohi))
                        elif ohi is not None and ohi < container.stop:
                            self.facts[k] = ("range", (olo, min(ohi, container.start - 1)))
                    elif old is None or old[0] == "ne":
                        ne = set(old[1]) if old else set()
                        if len(cand) <= 64:
                            ne.update(cand)
                            self.facts[k] = ("ne", ne)
                return c
            return self.decide(self.describe_cond(node), node, frame)
        if isinstance(container, GenVal):
            # `x in iterator` consumes the iterator up to and including the first match (all of it when there is none)
            rest = container.items[container.pos:]
            k = fact_key(item) if isinstance(item, Sym) else None
            if k is not None and self.facts.get(k, (None,))[0] == "eq":
                item = self.facts[k][1]
            if self.is_static(item) and all(self.is_static(x) for x in rest):
                for i, x in enumerate(rest):
                    if x == item:
                        self.gen_advance(container, container.pos + i + 1, node, frame)
                        return True
                self.gen_advance(container, len(container.items), node, frame)
                return False
            c = self.decide(self.describe_cond(node), node, frame)
            self.gen_advance(container, len(container.items) if not c else min(container.pos + 1, len(container.items)), node, frame)
            return c
        if isinstance(container, (Unknown, SymAny, SymList, SymStr)):
            return self.decide(self.describe_cond(node), node, frame)
        raise PyRaise(Instance(self.bclasses["TypeError"],
                               ("argument of type %r is not iterable" % self.kind_of(container),)),
                      node, frame.where(node))

    # ------------------------------------------------------------------
    # arithmetic
    # ------------------------------------------------------------------
    def binop(self, op, a, b, node, frame, inplace=False):
        a = norm_int(a)
        b = norm_int(b)
        if isinstance(a, Unknown) or isinstance(b, Unknown):
            deps = tuple(d for x in (a, b) for d in (x.deps if isinstance(x, Unknown) else (x,) if isinstance(x, External) else ()))
            return Unknown("binop on unknown (%s)" % (a.reason if isinstance(a, Unknown) else b.reason), deps)
        if isinstance(a, External) or isinstance(b, External):
            return Unknown("arithmetic on a value from an external binding", [x for x in (a, b) if isinstance(x, External)])
        if isinstance(a, SymAny) and op in ("<<", ">>", "&", "|", "^", "-", "//"):
            a = self.any_as_int(a)
        if isinstance(b, SymAny) and op in ("<<", ">>", "&", "|", "^", "-", "//"):
            b = self.any_as_int(b)
        if isinstance(a, SymAny) and isinstance(b, (int, Sym)) and not isinstance(b, bool) and op in ("+", "*"):
            a = self.any_as_int(a)
        if isinstance(b, SymAny) and isinstance(a, (int, Sym)) and not isinstance(a, bool) and op in ("+", "*"):
            b = self.any_as_int(b)
        num = (int, Sym)
        if isinstance(a, bool):
            a = int(a)
        if isinstance(b, bool):
            b = int(b)
        if isinstance(a, num) and isinstance(b, num):
            if op == "/":
                if isinstance(a, int) and isinstance(b, int):
                    if b == 0:
                        raise PyRaise(Instance(self.bclasses["ZeroDivisionError"], ("division by zero",)), node, frame.where(node))
                    return a / b
                if isinstance(b, int) and b > 0 and b & (b - 1) == 0 and isinstance(a, Sym) and a.bits is not None:
                    top = max([i for i, x in enumerate(a.bits) if x != 0], default=-1)
                    if top < 53:
                        return SymFloat(sym_binop(">>", a, b.bit_length() - 1))
                    return Unknown("true division of a %d-bit value (a float carries 53 bits)" % (top + 1))
                return Unknown("true division")
            return sym_binop(op, a, b)
        if isinstance(a, float) or isinstance(b, float):
            return Unknown("float arithmetic")
        # string formatting
        if op == "%" and isinstance(a, str):
            return self.str_format(a, b, node, frame)
        if op == "+":
            return self.concat(a, b, node, frame, inplace)
        if op == "*":
            if isinstance(a, (str, bytes, list, tuple)) and isinstance(b, int):
                return a * b
            if isinstance(b, (str, bytes, list, tuple)) and isinstance(a, int):
                return a * b
        if op in ("|", "&", "-", "^") and isinstance(a, (set, frozenset, DictView)) and isinstance(b, (set, frozenset, DictView)):
            # (dict views support the set operations; the result is a set: its iteration order is not the dictionary's)
            a_ = set(a.items()) if isinstance(a, DictView) else a
            b_ = set(b.items()) if isinstance(b, DictView) else b
            try:
                return {"|": a_ | b_, "&": a_ & b_, "-": a_ - b_, "^": a_ ^ b_}[op]
            except TypeError:
                return Unknown("set operation on unhashable items")
        if op == "%" and isinstance(a, SymStr):
            # a text that is not a constant used as a format string: whatever % signs it contains are conversion
            # specifiers now (a stray one raises ValueError / TypeError, a well-formed one consumes an argument)
            if self.decide("the text %s contains a %% sign" % (self.name_of(a),), node, frame):
                self.event("format-of-dynamic-text", text=a, where=frame.where(node), node=node)
                raise PyRaise(Instance(self.bclasses["ValueError"], ("unsupported format character / incomplete format in a text that is not a constant",)),
                              node, frame.where(node))
            return SymStr(("%", a.name))
        if op == "|" and isinstance(a, dict) and isinstance(b, dict) and "**" not in a and "**" not in b:
            r = dict(a)
            r.update(b)                # dict | dict: a new dictionary, the right operand's values win
            return r
        # an operator method the class of an operand defines
        DUNDER = {"+": "add", "-": "sub", "*": "mul", "//": "floordiv", "/": "truediv", "%": "mod", "<<": "lshift", ">>": "rshift",
                  "&": "and", "|": "or", "^": "xor", "**": "pow", "@": "matmul"}
        if op in DUNDER:
            for obj_, other, nm in ((a, b, "__%s__" % DUNDER[op]), (b, a, "__r%s__" % DUNDER[op])):
                if isinstance(obj_, Instance) and isinstance(obj_.cls, ClassVal):
                    f_, owner_ = obj_.cls.lookup(nm)
                    if isinstance(f_, FuncVal):
                        return self.call_function(f_, [obj_, other], {}, node, frame)
        plain = (type(None), bool, int, float, str, bytes, list, tuple, dict, set, frozenset, range)
        if type(a) in plain and type(b) in plain and self.is_static(a) and self.is_static(b):
            # two ordinary constants: python itself says what the operator does with them (or that it does not apply)
            import operator as _op
            fn = {"+": _op.add, "-": _op.sub, "*": _op.mul, "//": _op.floordiv, "/": _op.truediv, "%": _op.mod, "<<": _op.lshift,
                  ">>": _op.rshift, "&": _op.and_, "|": _op.or_, "^": _op.xor, "**": _op.pow}.get(op)
            if fn is not None:
                try:
                    return fn(a, b)
                except TypeError as ex:
                    self.event("type-error", op=op, left=a, right=b, where=frame.where(node), node=node)
                    raise PyRaise(Instance(self.bclasses["TypeError"], (str(ex),)), node, frame.where(node))
                except Exception as ex:
                    ecls = self.bclasses.get(type(ex).__name__)
                    if ecls is not None:
                        raise PyRaise(Instance(ecls, (str(ex),)), node, frame.where(node))
                    raise AnalysisError("unmodelled-builtin", "%s %s %s raises %s at %s" % (self.kind_of(a), op, self.kind_of(b), type(ex).__name__, frame.where(node)))
        if isinstance(a, (Instance, ClassVal, FuncVal, ModuleVal)) or isinstance(b, (Instance, ClassVal, FuncVal, ModuleVal)) or a is None or b is None:
            self.event("type-error", op=op, left=a, right=b, where=frame.where(node), node=node)
            raise PyRaise(Instance(self.bclasses["TypeError"],
                                   ("unsupported operand type(s) for %s: %r and %r" % (op, self.kind_of(a), self.kind_of(b)),)),
                          node, frame.where(node))
        # anything else: the model does not know this combination -- python might
        raise AnalysisError("unmodelled-builtin", "operator %s on %s and %s at %s" % (op, self.kind_of(a), self.kind_of(b), frame.where(node)))

    def kind_of(self, v):
        v = norm_int(v)
        if v is None:
            return "NoneType"
        if isinstance(v, NTuple):
            return v.ntcls.name
        if isinstance(v, (IntEnumMember, EnumMember)):
            return v.ecls.name
        if isinstance(v, bool):
            return "bool"
        if isinstance(v, (int, Sym)):
            return "int"
        if isinstance(v, (str, SymStr)):
            return "str"
        if isinstance(v, bytes):
            return "bytes"
        if isinstance(v, (Buf, View, SymBytes)):
            return getattr(v, "pytype", None) or "bytearray"
        if isinstance(v, (list, SymList)):
            return "list"
        if isinstance(v, (dict, SymDict)):
            return "dict"
        if isinstance(v, tuple):
            return "tuple"
        if isinstance(v, (set, frozenset)):
            return "set"
        if isinstance(v, float):
            return "float"
        if isinstance(v, Instance):
            return v.cls.name
        if isinstance(v, (FuncVal, Builtin)):
            return "function"
        if isinstance(v, BoundMethod):
            return "method"
        if isinstance(v, ClassVal):
            return "type"
        if isinstance(v, EnumVal):
            return "Enum"
        if isinstance(v, ModuleVal):
            return "module"
        if isinstance(v, SymAny):
            return "?"
        if isinstance(v, GenVal):
            return "generator"
        return type(v).__name__

    def str_dot_format(self, fmt, args, kwargs, node, frame):
        """'...{}...{:02X}'.format(...) with dynamic arguments, as the equivalent %-format"""
        import string
        out, fargs, auto = "", [], 0
        try:
            pieces = list(string.Formatter().parse(fmt))
        except ValueError as ex:
            raise PyRaise(Instance(self.bclasses["ValueError"], (str(ex),)), node, frame.where(node))
        for lit, field, spec, conv in pieces:
            out += lit.replace("%", "%%")
            if field is None:
                continue
            head = field.split(".")[0].split("[")[0]
            if head == "":
                idx, auto = auto, auto + 1
                val = args[idx] if idx < len(args) else None
            elif head.isdigit():
                val = args[int(head)] if int(head) < len(args) else None
            else:
                val = kwargs.get(head)
            if val is None and not (head and not head.isdigit() and head in kwargs):
                raise PyRaise(Instance(self.bclasses["IndexError"], ("Replacement index out of range for positional args tuple",)),
                              node, frame.where(node))
            if "." in field or "[" in field:
                val = Unknown("attribute / item of a format argument")
            out += spec_to_directive(spec or "", {"r": ord("r"), "s": ord("s"), "a": ord("a")}.get(conv, -1))
            fargs.append(val)
        self.event("str-format", fmt=out, args=tuple(fargs), where=frame.where(node), node=node)
        s = SymStr(("fmt", fmt))
        s.parts = [fmt] + list(fargs)
        return s

    def str_format(self, fmt, arg, node, frame):
        args = arg if isinstance(arg, tuple) else (arg,)
        if all(self.is_static(x) for x in args):
            try:
                return fmt % arg
            except Exception as ex:
                raise PyRaise(Instance(self.bclasses["TypeError"], (str(ex),)), node, frame.where(node))
        self.event("str-format", fmt=fmt, args=args, where=frame.where(node), node=node)
        s = SymStr(("fmt", fmt))
        s.parts = [fmt] + list(args)
        return s

    def concat(self, a, b, node, frame, inplace=False):
        byteslike = (Buf, View, SymBytes, bytes)
        if isinstance(a, byteslike) and isinstance(b, byteslike):
            return self.buf_concat(a, b, inplace)
        if isinstance(a, (str, SymStr)) and isinstance(b, (str, SymStr)):
            if isinstance(a, str) and isinstance(b, str):
                return a + b
            s = SymStr(("cat", self.name_of(a), self.name_of(b)))
            s.length = sym_binop("+", self.len_of(a, node, frame), self.len_of(b, node, frame))
            return s
        if isinstance(a, list) and isinstance(b, list):
            return a + b
        if isinstance(a, tuple) and isinstance(b, tuple):
            return a + b
        if isinstance(a, SymAny) or isinstance(b, SymAny):
            # caller-supplied value of unknown type; if the other side is bytes-like so is the result
            other = b if isinstance(a, SymAny) else a
            if isinstance(other, byteslike):
                sa = a if isinstance(a, SymAny) else b
                sb = SymBytes(sa.path)
                return self.buf_concat(sb if isinstance(a, SymAny) else a, b if isinstance(a, SymAny) and not isinstance(b, SymAny) else (sb if isinstance(b, SymAny) else b), inplace)
            if isinstance(a, SymAny) and isinstance(b, SymAny):
                r = SymAny(("cat", a.path, b.path))
                return r
            if isinstance(other, (str, SymStr)):
                s = SymStr(("cat", self.name_of(a), self.name_of(b)))
                return s
        self.event("type-error", op="+", left=a, right=b, where=frame.where(node), node=node)
        raise PyRaise(Instance(self.bclasses["TypeError"],
                               ("can only concatenate %s (not %r)" % (self.kind_of(a), self.kind_of(b)),)),
                      node, frame.where(node))

    def buf_cells(self, v):
        """static list of byte cells or None"""
        if isinstance(v, Buf):
            return v.cells
        if isinstance(v, bytes):
            return list(v)
        if isinstance(v, View):
            if v.length is not None:
                return [mem_byte(v.root, pos_add(v.lo, i)) for i in range(v.length)]
            return None
        return None

    def buf_concat(self, a, b, inplace=False):
        ca, cb = self.buf_cells(a), self.buf_cells(b)
        if ca is not None and cb is not None:
            if inplace and isinstance(a, Buf):
                self.journal_buf(a)
                a.cells = ca + list(cb)
                a.length = len(a.cells)
                return a
            return Buf(cells=list(ca) + list(cb))
        la = self.len_of(a, None, None)
        lb = self.len_of(b, None, None)
        parts = []
        for x in (a, b):
            if isinstance(x, Buf) and x.cells is None and x.parts:
                parts.extend(x.parts)
            else:
                parts.append(("piece", x))
        if inplace and isinstance(a, Buf):
            self.journal_buf(a)
            a.cells = None
            a.length = sym_binop("+", la, lb)
            a.parts = parts
            return a
        r = Buf(cells=None, length=sym_binop("+", la, lb))
        r.parts = parts
        return r

    def journal_buf(self, b):
        if id(b) in self.static_ids:
            self.event("static-mutation", obj=b, origin=self.static_ids[id(b)])
            self.journal.append(("buf", b, None, (list(b.cells) if b.cells is not None else None, b.length)))

    # ------------------------------------------------------------------
    # iteration
    # ------------------------------------------------------------------
    def iterate(self, v, node, frame):
        """static list of items or None if dynamic"""
        if isinstance(v, TruncList):
            return v
        if isinstance(v, (list, tuple, range, str, bytes)):
            return list(v)
        if isinstance(v, ChainMapVal):
            out = {}
            for m in reversed(v.maps):
                out.update(m)
            return list(out.keys())
        if isinstance(v, CountVal):
            from .stdlib_model import COUNT_ITEMS
            return TruncList(v.start + i * v.step for i in range(COUNT_ITEMS))
        if isinstance(v, ClassVal) and self.enum_class_of(v) is not None:
            return list(self.enum_class_of(v).enum_unique)
        if isinstance(v, (set, frozenset)):
            # a set has no defined iteration order (for strings it changes from run to run): the analysis fixes one, and
            # checks that care evaluate under the opposite one as well (self.set_order_reversed)
            r = sorted(v, key=repr)
            if len(r) > 1:
                self.event("set-iteration", size=len(r), where=frame.where(node) if frame is not None and node is not None else None, node=node)
            return list(reversed(r)) if getattr(self, "set_order_reversed", False) else r
        if isinstance(v, dict):
            return list(v.keys())
        if isinstance(v, GenVal):
            rest = v.items[v.pos:]
            self.gen_advance(v, len(v.items), node, frame)
            return TruncList(rest) if getattr(v, "truncated", False) else rest
        if isinstance(v, Buf) and v.cells is not None:
            return list(v.cells)
        if isinstance(v, View) and v.length is not None:
            return [mem_byte(v.root, pos_add(v.lo, i)) for i in range(v.length)]
        if isinstance(v, DictView):
            return v.items()
        if isinstance(v, (Unknown, SymAny, SymList, SymDict, View, Buf, SymBytes, SymStr)):
            return None
        if v is None or isinstance(v, (int, Sym, float)):
            self.event("type-error", op="iter", left=v, where=frame.where(node), node=node)
            raise PyRaise(Instance(self.bclasses["TypeError"], ("%r object is not iterable" % self.kind_of(v),)),
                          node, frame.where(node))
        return None

    def element_of(self, v, node, frame):
        if isinstance(v, SymList):
            return v.elem
        if isinstance(v, SymAny):
            return SymAny(v.path + ("[*]",))
        if isinstance(v, View):
            base = ("iter", self.fresh("i"))
            return mem_byte(v.root, (("elem", v.lo, base), 0))
        if isinstance(v, SymDict):
            return SymStr(("key-of", v.name))
        if isinstance(v, SymBytes):
            return Sym(bits=[frozenset([("p", ("byte-of", v.name), j)]) for j in range(8)])
        if isinstance(v, Buf):
            return Sym(bits=[frozenset([("p", ("byte-of", id(v)), j)]) for j in range(8)])
        if isinstance(v, SymStr):
            return SymStr(("char-of", v.name))
        if type(v).__name__ == "KeySet":
            return SymStr(("key-of", v.d.name))
        return Unknown("element of %s" % self.kind_of(v))

    # ------------------------------------------------------------------
    def len_of(self, v, node, frame):
        if isinstance(v, (str, bytes, list, tuple, dict, set, frozenset, range)):
            return len(v)
        if isinstance(v, ClassVal) and self.enum_class_of(v) is not None:
            return len(self.enum_class_of(v).enum_unique)
        if isinstance(v, ChainMapVal):
            return len(self.iterate(v, node, frame))
        if isinstance(v, Buf):
            return v.length
        if isinstance(v, View):
            if v.length is not None:
                return v.length
            s = Sym.opaque(("len", "view", v.root, v.lo, v.hi))
            s.view = v
            return s
        if isinstance(v, SymBytes):
            return v.length
        if isinstance(v, SymStr):
            if getattr(v, "length", None) is not None:
                return v.length
            return Sym.opaque(("len", v.name))
        if isinstance(v, SymList):
            if v.length is not None:
                return v.length
            return Sym.opaque(("len", v.name))
        if isinstance(v, SymDict):
            return Sym.opaque(("len", v.name))
        if isinstance(v, SymAny):
            return Sym.opaque(("len", v.path))
        if isinstance(v, EnumVal):
            pass
        if isinstance(v, Unknown):
            return Unknown("len of unknown")
        if frame is not None:
            self.event("type-error", op="len", left=v, where=frame.where(node), node=node)
            raise PyRaise(Instance(self.bclasses["TypeError"], ("object of type %r has no len()" % self.kind_of(v),)),
                          node, frame.where(node))
        return Unknown("len")


def ExtExcLike(I, name, msg):
    from .standin import ExtExc
    return ExtExc(name, ("Exception", "BaseException"))


class DictView:
    def __init__(self, d, kind):
        self.d = d
        self.kind = kind

    def items(self):
        if self.kind == "keys":
            return list(self.d.keys())
        if self.kind == "values":
            return list(self.d.values())
        return [(k, v) for k, v in self.d.items()]


class _DummyFunc:
    qualname = "<comprehension>"


_DUMMY_FUNC = _DummyFunc()
