"""Compare the library's literal layout tables, through the specialised codec,
with the reference tables of spec/tables.py."""
from __future__ import annotations

from .codec import *
from .model import is_table
from .rt import *
from .values import *
from spec import tables as reft


def resolve_table(prog, origin, fields=None):
    """the layout table the reference calls `origin`; when the (private) name is gone, the one table of that class / module
    that has every field the reference names -- a table is what it contains, not what it is called"""
    modname, rest = origin.split(":")
    mod = prog.modules.get(modname)
    parts = rest.split(".")
    t = line = None
    space, lines = {}, {}
    if len(parts) == 2:
        cls = mod.env.get(parts[0]) if mod is not None else None
        if not isinstance(cls, ClassVal):
            # the class lives in another module now
            same = [c for c in prog.classes() if c.name == parts[0]]
            cls = same[0] if len(same) == 1 else None
        if isinstance(cls, ClassVal):
            name = parts[1]
            t, owner = cls.lookup(name)          # the class's own attribute, or one it gets from a base class
            owner = owner if isinstance(owner, ClassVal) and owner.module is not None else cls
            mod = owner.module
            space, lines = owner.attrs, prog.class_attr_lines(owner) if owner.node is not None else {}
            line = lines.get(name)
            if not isinstance(t, dict):
                space = {}
                for c in reversed(cls.mro()):
                    if isinstance(c, ClassVal) and not c.builtin:
                        space.update(c.attrs)
    elif mod is not None:
        space, name, lines = mod.env, parts[0], prog.module_attr_lines(mod)
        t = space.get(name)
        line = lines.get(name)
    if not isinstance(t, dict) and fields:
        cands = [k for k, v in space.items() if isinstance(v, dict) and v and set(fields) <= set(v)]
        if len(cands) == 1:
            t, line = space[cands[0]], lines.get(cands[0])
    if not isinstance(t, dict) or mod is None:
        raise AnalysisError("anchor-missing", origin)
    return t, prog.rel(mod), line


def ref_positions(spec, anchor):
    if spec[0] == "blob":
        return ("blob", spec[1] - anchor, spec[2] - spec[1] + 1)
    return ("bits", [(b - anchor, bit) for b, bit in spec_positions(spec)])


def short(origin):
    return origin.split(":")[1]


def check_tables(prog, run, uses, rule_prefix="table"):
    """uses: set of 'use' tags to check.  Returns {origin: table}"""
    n_tab = 0
    n_field = 0
    done = {}
    for origin, ref in reft.TABLES.items():
        if ref["use"] not in uses:
            continue
        table, file, line = resolve_table(prog, origin, list(ref["fields"]) if ref["fields"] else None)
        done[origin] = table
        if ref["fields"] is None:
            run.unconstrained.append(origin)
            continue
        n_tab += 1
        if not is_table(table):
            run.violation(rule_prefix + "-wellformed", short(origin), "not a layout table: %r" % (table,), file, line)
            continue
        decode_dir = ref["use"] in ("response", "both", "sense")
        encode_dir = ref["use"] in ("paramlist", "both")
        claimed = {}
        for fname, spec in ref["fields"].items():
            c = "%s.%s" % (short(origin), fname)
            if fname not in table:
                run.violation(rule_prefix + "-field-present", c, "the layout no longer has field %r (callers rely on this key)" % fname, file, line)
                continue
            entry = table[fname]
            if spec is None:
                run.unconstrained.append(c)
                continue
            n_field += 1
            want = ref_positions(spec, ref["anchor"])
            if entry_kind(entry) == "mask" and entry[0] <= 0:
                run.violation(rule_prefix + "-mask-nonzero", c, "mask %r is not positive: decode_bits never terminates on it" % (entry[0],), file, line)
                continue
            if decode_dir:
                got = decode_entry(prog, entry)
                if got[0] == "error":
                    run.violation(rule_prefix + "-field-position", c, "decode_bits: %s" % got[1], file, line)
                    continue
                if got[0] == "bits":
                    got = ("bits", [p for p in got[1]])
                ok = (got == want) or (got[0] == "bits" and want[0] == "bits" and [p for p in got[1] if p is not None] == want[1]
                                        and len(got[1]) == len(want[1]))
                if not ok:
                    run.violation(rule_prefix + "-field-position", c,
                                  "the library reads %s, the standard places %s at %s (structure byte = library offset + %d)"
                                  % (describe(got), fname, describe(want), ref["anchor"]), file, line,
                                  facts={"entry": list(entry), "got": got[1] if got[0] == "bits" else list(got), "want": want[1] if want[0] == "bits" else list(want)})
                    continue
            if encode_dir:
                if want[0] == "bits":
                    width = len(want[1])
                    top = max(b for b, _ in want[1]) + 2 if want[1] else 4
                    gote = encode_entry(prog, entry, width, max(top, 4))
                    if gote[0] != "bits":
                        run.violation(rule_prefix + "-field-position", c, "encode_dict: %s" % (gote[1] if gote[0] == "error" else gote,), file, line)
                        continue
                    wantmap = {pos: width - 1 - i for i, pos in enumerate(want[1])}
                    if gote[1] != wantmap:
                        run.violation(rule_prefix + "-field-position", c,
                                      "the library writes %s to %s, the standard places it at %s"
                                      % (fname, sorted(gote[1])[:4], describe(want)), file, line)
                        continue
                else:
                    gote = encode_entry(prog, entry, 0, want[1] + want[2] + 2)
                    if gote != want and not (want[2] == 0):
                        run.violation(rule_prefix + "-field-position", c, "blob written at %r, standard %r" % (gote, want), file, line)
                        continue
            run.ok(rule_prefix + "-field-position", c, {"at": describe(want), "entry": list(entry)})
            if want[0] == "bits":
                for pos in want[1]:
                    claimed.setdefault(pos, []).append(fname)
        # fields the library has but the reference does not know
        for fname in table:
            if fname not in ref["fields"]:
                run.unconstrained.append("%s.%s (no reference entry)" % (short(origin), fname))
    run.count("tables_compared", n_tab)
    run.count("fields_compared", n_field)
    return done


def describe(p):
    if p[0] == "blob":
        return "bytes %d..%d" % (p[1], p[1] + p[2] - 1)
    if p[0] == "bits":
        return pos_text(p[1])
    return repr(p)
