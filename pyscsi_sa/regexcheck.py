"""Work bound of a regular expression under a backtracking matcher (CPython's ``re``).

The pattern's syntax tree (``re._parser.parse`` -- the parser only, nothing is
matched) is turned into a Thompson automaton in which every way the matcher can
proceed is a separate path.  The matcher's work on a subject it finally rejects
is the number of paths it has to try, so

* exponential work  <=>  some state has two different loops over the same word
  (EDA, Weber & Seidl 1991): in the product of the automaton with itself a
  diagonal node (T, T) shares a strongly connected component with an
  off-diagonal node, or two different empty paths lead from T back to T;
* super-linear polynomial work  <=>  states p != q with a loop at p, a path
  p -> q and a loop at q all over one word (IDA): in the triple product
  (p, p, q) reaches (p, q, q).

Nodes are the character-consuming transitions; labels are sets over the 256
Latin-1 code points plus one class for every other character.  Bounded repeats
are unrolled (large bounds are treated as unbounded, which can only add
findings for patterns that are already polynomial in the bound).  Not decided:
the restart of ``re.search`` at every position (quadratic for any pattern that
can fail late), back-references, and the effect of look-around (ignored)."""
from __future__ import annotations

import re
from collections import defaultdict

try:                                    # Python >= 3.11
    import re._parser as sre_parse
    import re._constants as sre_c
except ImportError:                     # pragma: no cover
    import sre_parse
    import sre_constants as sre_c

OTHER = 256
ALL = frozenset(range(257))
UNROLL_LIMIT = 12


class Unsupported(Exception):
    pass


def _category(cat, negate_other=True):
    name = str(cat)
    base = None
    if "DIGIT" in name:
        base = frozenset(c for c in range(256) if chr(c).isdigit()) | {OTHER}
    elif "SPACE" in name:
        base = frozenset(c for c in range(256) if chr(c).isspace()) | {OTHER}
    elif "WORD" in name:
        base = frozenset(c for c in range(256) if chr(c).isalnum() or chr(c) == "_") | {OTHER}
    elif "LINEBREAK" in name:
        base = frozenset([10])
    if base is None:
        raise Unsupported("category %s" % name)
    if "NOT" in name:
        return (ALL - base) | {OTHER}
    return base


def _fold(s, ignorecase):
    if not ignorecase:
        return frozenset(s)
    out = set(s)
    for c in s:
        if c < 256:
            for d in (chr(c).lower(), chr(c).upper()):
                if len(d) == 1 and ord(d) < 256:
                    out.add(ord(d))
                else:
                    out.add(OTHER)
    return frozenset(out)


def _lit(c):
    return c if c < 256 else OTHER


def _in_set(items, ignorecase):
    neg = False
    s = set()
    for op, av in items:
        if op is sre_c.NEGATE:
            neg = True
        elif op is sre_c.LITERAL:
            s.add(_lit(av))
        elif op is sre_c.RANGE:
            lo, hi = av
            for c in range(lo, min(hi, 255) + 1):
                s.add(c)
            if hi > 255:
                s.add(OTHER)
        elif op is sre_c.CATEGORY:
            s |= _category(av)
        else:
            raise Unsupported("set member %s" % (op,))
    s = _fold(s, ignorecase)
    if neg:
        return frozenset(ALL - s) | {OTHER}
    return s


class NFA:
    def __init__(self):
        self.n = 0
        self.eps = defaultdict(list)
        self.trans = []          # (src, label, dst)
        self.notes = []

    def new(self):
        self.n += 1
        return self.n - 1

    def e(self, a, b):
        self.eps[a].append(b)


def _build(nfa, sub, flags):
    """returns (start, end) of the automaton of the sequence ``sub``"""
    ic = bool(flags & re.IGNORECASE)
    start = cur = nfa.new()
    for op, av in sub:
        if op is sre_c.LITERAL:
            nxt = nfa.new()
            nfa.trans.append((cur, _fold({_lit(av)}, ic), nxt))
            cur = nxt
        elif op is sre_c.NOT_LITERAL:
            nxt = nfa.new()
            nfa.trans.append((cur, frozenset(ALL - _fold({_lit(av)}, ic)) | {OTHER}, nxt))
            cur = nxt
        elif op is sre_c.ANY:
            nxt = nfa.new()
            nfa.trans.append((cur, ALL if flags & re.DOTALL else frozenset(ALL - {10}), nxt))
            cur = nxt
        elif op is sre_c.IN:
            nxt = nfa.new()
            nfa.trans.append((cur, _in_set(av, ic), nxt))
            cur = nxt
        elif op is sre_c.BRANCH:
            end = nfa.new()
            for alt in av[1]:
                s, e = _build(nfa, alt, flags)
                nfa.e(cur, s)
                nfa.e(e, end)
            cur = end
        elif op is sre_c.SUBPATTERN:
            group, add, dele, p = av
            s, e = _build(nfa, p, (flags | add) & ~dele)
            nfa.e(cur, s)
            cur = e
        elif op in (sre_c.MAX_REPEAT, sre_c.MIN_REPEAT) or str(op) == "POSSESSIVE_REPEAT":
            lo, hi, body = av
            if str(op) == "POSSESSIVE_REPEAT":
                nfa.notes.append("possessive repeat treated as an ordinary one")
            unbounded = hi is sre_c.MAXREPEAT or hi > UNROLL_LIMIT
            if lo > UNROLL_LIMIT:
                lo = UNROLL_LIMIT
            for _ in range(lo):
                s, e = _build(nfa, body, flags)
                nfa.e(cur, s)
                cur = e
            if unbounded:
                loop = nfa.new()
                out = nfa.new()
                s, e = _build(nfa, body, flags)
                nfa.e(cur, loop)
                nfa.e(loop, s)
                nfa.e(e, loop)
                nfa.e(loop, out)
                cur = out
            else:
                out = nfa.new()
                for _ in range(hi - lo):
                    s, e = _build(nfa, body, flags)
                    nfa.e(cur, out)      # stop here
                    nfa.e(cur, s)        # or one more
                    cur = e
                nfa.e(cur, out)
                cur = out
        elif op is sre_c.AT:
            pass
        elif op in (sre_c.ASSERT, sre_c.ASSERT_NOT):
            nfa.notes.append("look-around ignored")
        elif str(op) == "ATOMIC_GROUP":
            nfa.notes.append("atomic group treated as an ordinary one")
            s, e = _build(nfa, av, flags)
            nfa.e(cur, s)
            cur = e
        elif op in (sre_c.GROUPREF, sre_c.GROUPREF_EXISTS):
            raise Unsupported("back-reference")
        else:
            raise Unsupported(str(op))
    return start, cur


def _eps_closure(nfa):
    reach = {}
    for s in range(nfa.n):
        seen = {s}
        stack = [s]
        while stack:
            u = stack.pop()
            for v in nfa.eps.get(u, ()):
                if v not in seen:
                    seen.add(v)
                    stack.append(v)
        reach[s] = seen
    return reach


def _two_eps_paths(nfa, a, b):
    """are there two different empty paths (no empty transition used twice) from a to b?"""
    count = 0
    stack = [(a, frozenset())]
    steps = 0
    while stack:
        u, used = stack.pop()
        steps += 1
        if steps > 20000:
            return True            # too many to enumerate: certainly more than one
        for k, v in enumerate(nfa.eps.get(u, ())):
            edge = (u, k)
            if edge in used:
                continue
            if v == b:
                count += 1
                if count >= 2:
                    return True
            stack.append((v, used | {edge}))
    return False


def _sccs(nodes, succ):
    index = {}
    low = {}
    onstack = set()
    stack = []
    out = []
    counter = [0]
    for root in nodes:
        if root in index:
            continue
        work = [(root, iter(succ(root)))]
        index[root] = low[root] = counter[0]
        counter[0] += 1
        stack.append(root)
        onstack.add(root)
        while work:
            v, it = work[-1]
            advanced = False
            for w in it:
                if w not in index:
                    index[w] = low[w] = counter[0]
                    counter[0] += 1
                    stack.append(w)
                    onstack.add(w)
                    work.append((w, iter(succ(w))))
                    advanced = True
                    break
                elif w in onstack:
                    low[v] = min(low[v], index[w])
            if advanced:
                continue
            work.pop()
            if work:
                u = work[-1][0]
                low[u] = min(low[u], low[v])
            if low[v] == index[v]:
                comp = []
                while True:
                    w = stack.pop()
                    onstack.discard(w)
                    comp.append(w)
                    if w == v:
                        break
                out.append(comp)
    return out


def analyse(pattern, flags=0):
    """{"verdict": "linear" | "exponential" | "polynomial" | "undecided", "detail": str, "transitions": n, "notes": [...]}"""
    if isinstance(pattern, bytes):
        pattern = pattern.decode("latin-1")
    try:
        tree = sre_parse.parse(pattern, flags)
        flags = tree.state.flags | flags
        nfa = NFA()
        _build(nfa, tree, flags)
    except Unsupported as e:
        return {"verdict": "undecided", "detail": "construct outside the analysed fragment: %s" % e, "transitions": 0, "notes": []}
    except re.error as e:
        return {"verdict": "undecided", "detail": "the pattern does not parse: %s" % e, "transitions": 0, "notes": []}
    T = nfa.trans
    n = len(T)
    reach = _eps_closure(nfa)
    by_src = defaultdict(list)
    for i, (s, lab, d) in enumerate(T):
        by_src[s].append(i)
    nxt = []
    for i, (s, lab, d) in enumerate(T):
        out = []
        for st in reach[d]:
            out.extend(by_src.get(st, ()))
        nxt.append(sorted(set(out)))
    overlap = [[bool(T[i][1] & T[j][1]) for j in range(n)] for i in range(n)]

    def show(i):
        lab = T[i][1]
        chars = [chr(c) for c in sorted(lab) if c < 256 and 32 < c < 127]
        return "".join(chars[:6]) + ("…" if len(chars) > 6 else "") or "<class>"

    # ---- exponential -------------------------------------------------------
    pairs = [(i, j) for i in range(n) for j in range(n) if overlap[i][j]]

    def succ2(node):
        i, j = node
        for a in nxt[i]:
            for b in nxt[j]:
                if overlap[a][b]:
                    yield (a, b)
    for comp in _sccs(pairs, succ2):
        cs = set(comp)
        cyclic = len(comp) > 1 or any(comp[0] in set(succ2(comp[0])) for _ in (0,))
        if not cyclic:
            continue
        diag = [x for x in comp if x[0] == x[1]]
        off = [x for x in comp if x[0] != x[1]]
        if diag and off:
            i = diag[0][0]
            return {"verdict": "exponential", "transitions": n, "notes": nfa.notes,
                    "detail": "the part matching '%s' can be repeated in two different ways over the same text (nested or overlapping "
                              "repetition): a subject that finally does not match is tried in exponentially many ways" % show(i)}
        for (i, _) in diag:
            for a in nxt[i]:
                if (a, a) in cs and _two_eps_paths(nfa, T[i][2], T[a][0]):
                    return {"verdict": "exponential", "transitions": n, "notes": nfa.notes,
                            "detail": "a repetition whose body can match the empty string is itself repeated (around '%s'): "
                                      "exponentially many ways to fail" % show(i)}
    # ---- polynomial --------------------------------------------------------
    if n > 48:
        return {"verdict": "linear", "transitions": n, "notes": nfa.notes + ["polynomial ambiguity not decided (more than 48 transitions)"],
                "detail": "no exponential ambiguity"}
    # transitions lying on a cycle
    cyc = set()
    for comp in _sccs(list(range(n)), lambda i: nxt[i]):
        if len(comp) > 1 or comp[0] in nxt[comp[0]]:
            cyc.update(comp)
    budget = [400000]
    for p in sorted(cyc):
        for q in sorted(cyc):
            if p == q or not (overlap[p][q]):
                continue
            start, goal = (p, p, q), (p, q, q)
            seen = {start}
            stack = [start]
            while stack:
                a, b, c = stack.pop()
                for a2 in nxt[a]:
                    for b2 in nxt[b]:
                        if not overlap[a2][b2]:
                            continue
                        for c2 in nxt[c]:
                            if not (T[a2][1] & T[b2][1] & T[c2][1]):
                                continue
                            node = (a2, b2, c2)
                            if node == goal:
                                return {"verdict": "polynomial", "transitions": n, "notes": nfa.notes,
                                        "detail": "the repetitions at '%s' and at '%s' can share the same text in a number of ways "
                                                  "that grows with its length: rejecting a subject takes super-linear work"
                                                  % (show(p), show(q))}
                            if node not in seen:
                                seen.add(node)
                                stack.append(node)
                                budget[0] -= 1
                                if budget[0] < 0:
                                    return {"verdict": "linear", "transitions": n,
                                            "notes": nfa.notes + ["polynomial ambiguity not decided (search budget)"],
                                            "detail": "no exponential ambiguity"}
    return {"verdict": "linear", "transitions": n, "notes": nfa.notes, "detail": "no ambiguity that grows with the subject"}


FIXTURES = [
    (r"(a+)+$", "exponential"),
    (r"((?:[^.,]+\.?)+),i,0x([0-9A-Fa-f]+)$", "exponential"),
    (r"(a|a)*b", "exponential"),
    (r"(a*)*b", "exponential"),
    (r"(a?b?)*c", "exponential"),
    (r"(\w+\s?)*:", "exponential"),
    (r"a*a*b", "polynomial"),
    (r"(.*),(.*)x", "polynomial"),
    (r"\s*\s*=", "polynomial"),
    (r"^[0-9a-f]+,i,0x[0-9A-Fa-f]+$", "linear"),
    (r"((?:[^.,]+\.)*[^.,]+),i,0x([0-9A-Fa-f]+)$", "linear"),
    (r"(\d+)\.(\d+)\.(\d+)", "linear"),
    (r"[A-Z]{2,8}-\d{1,4}", "linear"),
    (r"(?:ab|cd)+e", "linear"),
    (r"iqn\.\d{4}-\d{2}\.[^:,]+(?::[^,]+)?", "linear"),
]


def self_check():
    bad = []
    for pat, want in FIXTURES:
        got = analyse(pat)["verdict"]
        if got != want:
            bad.append("%r: %s (expected %s)" % (pat, got, want))
    return bad


if __name__ == "__main__":
    import sys
    for pat in sys.argv[1:]:
        print(pat, analyse(pat))
    print(self_check() or "fixtures ok")
