"""Run-time-model objects of the abstract interpreter (modules, classes,
functions, instances).  Pure data; the semantics live in interp.py."""
from __future__ import annotations


class ModuleVal:
    def __init__(self, name, path=None, tree=None, external=False, source=""):
        self.name = name
        self.path = path
        self.tree = tree
        self.env = {}
        self.external = external
        self.state = "new"  # new | running | done
        self.source = source

    def __repr__(self):
        return "<module %s>" % self.name


ABSENT = object()            # the one marker for "no value" (journal entries, defaults): shared by every module


class ClassVal:
    def __init__(self, name, module=None, bases=(), node=None, builtin=False, metaclass=None):
        self.name = name
        self.module = module
        self.bases = list(bases)
        self.attrs = {}
        self.node = node
        self.builtin = builtin
        self.metaclass = metaclass
        self.injected = {}
        self.qualname = "%s:%s" % (module.name if module else "builtins", name)

    def mro(self):
        bases = [b for b in self.bases if isinstance(b, ClassVal)]
        if len(bases) == 1:
            return [self] + bases[0].mro()
        if len(bases) > 1:
            # C3 linearisation (python's own rule)
            seqs = [b.mro() for b in bases] + [list(bases)]
            out = [self]
            while any(seqs):
                for s in seqs:
                    if s and not any(s[0] in t[1:] for t in seqs):
                        head = s[0]
                        break
                else:
                    break                   # inconsistent hierarchy (python refuses it): fall back to first-come order
                out.append(head)
                seqs = [[c for c in t if c is not head] for t in seqs]
            if not any(seqs):
                return out
        out = [self]
        for b in self.bases:
            if isinstance(b, ClassVal):
                for c in b.mro():
                    if c not in out:
                        out.append(c)
        return out

    def is_subclass(self, other):
        return other in self.mro()

    def lookup(self, name):
        for c in self.mro():
            if name in c.attrs:
                return c.attrs[name], c
            if name in c.injected:
                return c.injected[name], c
        return None, None

    def __repr__(self):
        return "<class %s>" % self.qualname


class FuncVal:
    def __init__(self, name, node, module, kind="function", cls=None, closure=None):
        self.name = name
        self.node = node
        self.module = module
        self.kind = kind  # function | classmethod | staticmethod
        self.cls = cls
        self.closure = closure
        if cls is not None:
            self.qualname = "%s:%s.%s" % (module.name, cls.name, name)
        else:
            self.qualname = "%s:%s" % (module.name, name)

    def __repr__(self):
        return "<function %s>" % self.qualname


class PropertyVal:
    def __init__(self, fget=None, fset=None):
        self.fget = fget
        self.fset = fset


class BoundMethod:
    def __init__(self, func, self_val):
        self.func = func
        self.self_val = self_val

    def __repr__(self):
        return "<bound %r of %r>" % (self.func, self.self_val)


class Instance:
    def __init__(self, cls, args=()):
        self.cls = cls
        self.attrs = {}
        self.args = args

    def __repr__(self):
        return "<%s instance>" % self.cls.name


class EnumVal:
    """``Enum(<mapping>)`` -- a name->value table (pyscsi.utils.enum.Enum)."""

    def __init__(self, members, cls=None):
        self.members = dict(members)
        self.cls = cls
        self.origin = None

    def __repr__(self):
        return "<Enum %s>" % (self.origin or list(self.members)[:3])


class External:
    """Something from outside the repository (sgio, iscsi, os, socket...)."""

    def __init__(self, name):
        self.name = name

    def __repr__(self):
        return "<external %s>" % self.name


class Builtin:
    def __init__(self, name, fn):
        self.name = name
        self.fn = fn

    def __repr__(self):
        return "<builtin %s>" % self.name


class CtxGen:
    """what a @contextlib.contextmanager function returns when called: the generator, not yet started"""

    def __init__(self, func, locs):
        self.func = func
        self.locs = locs


class ExitStackVal:
    """contextlib.ExitStack(): callbacks run in reverse order when the with block (or close()) ends"""

    def __init__(self):
        self.callbacks = []


class GenVal:
    """a one-shot iterator over already computed items"""

    def __init__(self, items=(), thunk=None):
        self._items = list(items) if thunk is None else None
        self.thunk = thunk
        self.pos = 0

    @property
    def items(self):
        # a generator expression computes its items when they are first asked for, with the variables of the enclosing
        # scope as they are *then* (python's late binding); only its outermost iterable is evaluated where it is written
        if self._items is None:
            t, self.thunk = self.thunk, None
            self._items = []
            self._items = list(t())
        return self._items

    @items.setter
    def items(self, v):
        self._items = list(v)

    def take_all(self):
        r = self.items[self.pos:]
        self.pos = len(self.items)
        return r


class TypeOf:
    def __init__(self, name):
        self.name = name


class SymAny:
    """A caller-supplied value of statically unknown type, named by its access
    path, e.g. ``data['mode_pages'][*]['spf']``."""

    def __init__(self, path):
        self.path = path

    def __repr__(self):
        return "SymAny(%s)" % (self.path,)


class _Return(Exception):
    def __init__(self, value):
        self.value = value


class _Break(Exception):
    pass


class _Continue(Exception):
    pass


class PyRaise(Exception):
    """the analysed code raises"""

    def __init__(self, exc, node=None, where=None):
        super().__init__(repr(exc))
        self.exc = exc
        self.node = node
        self.where = where

    def exc_class(self):
        e = self.exc
        if isinstance(e, Instance):
            return e.cls
        if isinstance(e, ClassVal):
            return e
        return None

    def describe(self):
        c = self.exc_class()
        n = c.name if c else repr(self.exc)
        a = ""
        if isinstance(self.exc, Instance) and self.exc.args:
            a = "(%s)" % ", ".join(repr(x)[:80] for x in self.exc.args)
        return "%s%s at %s" % (n, a, self.where)


# ----------------------------------------------------------------------
# values of the standard-library models (stdlib_model.py)
# ----------------------------------------------------------------------
class TruncList(list):
    """the first items of an iterator that never ends (itertools.count, repeat): a consumer that reaches the end of
    these has left what the model covers -- it refuses (AnalysisError) rather than pretend the iterator stopped"""


class CountVal:
    def __init__(self, start=0, step=1):
        self.start = start
        self.step = step


class NTuple(tuple):
    """an instance of a typing.NamedTuple / collections.namedtuple class: a tuple that also answers to field names"""

    def __new__(cls, items, ntcls):
        t = super().__new__(cls, items)
        t.ntcls = ntcls
        return t


class IntEnumMember(int):
    """a member of an enum.IntEnum class: an int that carries its name and class"""

    def __new__(cls, value, name, ecls):
        m = super().__new__(cls, value)
        m.ename = name
        m.ecls = ecls
        return m

    def __repr__(self):
        return "<%s.%s: %d>" % (self.ecls.name, self.ename, int(self))

    def __str__(self):
        return int.__repr__(self)           # python 3.11+: str() of an IntEnum member is the number


class EnumMember:
    """a member of a plain enum.Enum class: equal to itself only"""

    def __init__(self, value, name, ecls):
        self.evalue = value
        self.ename = name
        self.ecls = ecls

    def __repr__(self):
        return "<%s.%s: %r>" % (self.ecls.name, self.ename, self.evalue)


class PartialVal:
    def __init__(self, fn, args, kwargs):
        self.fn = fn
        self.args = list(args)
        self.kwargs = dict(kwargs)


class AutoVal:
    """enum.auto()"""


class DequeVal(list):
    """collections.deque: a list that can also be worked from the left"""


class DefaultDictVal(dict):
    """collections.defaultdict(factory)"""
    factory = None


class SuppressVal:
    """contextlib.suppress(*classes)"""

    def __init__(self, classes):
        self.classes = list(classes)


class ChainMapVal:
    """collections.ChainMap(*maps): lookups go through the maps in order, stores into the first"""

    def __init__(self, maps):
        self.maps = list(maps) or [{}]
