"""Specialisation of python-scsi's generic codec (utils/converter.py) to one
static table entry: the value / buffer stay symbolic, so the result is, per
bit, where it comes from -- for all values at once (DESIGN 2.5)."""
from __future__ import annotations

from .rt import *
from .values import *

CONV = "pyscsi.utils.converter"


def entry_kind(entry):
    if len(entry) == 2:
        return "mask"
    return entry[0]


def mask_width(mask):
    m = mask
    if m <= 0:
        return 0
    while not m & 1:
        m >>= 1
    return m.bit_length()


def single_path(I, thunk, what):
    res = I.explore(thunk, max_paths=8)
    if len(res) != 1:
        raise AnalysisError("codec-forked", "%s: %d paths (codec must branch on the table entry only)" % (what, len(res)))
    return res[0]


def decode_entry(prog, entry, root="buf"):
    """specialise decode_bits to one entry.  Returns
    ('bits', [(byte, bit) MSB first])  |  ('blob', off, nbytes)  |  ('error', text)"""
    I = prog.I
    dec = prog.func(CONV, None, "decode_bits")

    def thunk():
        res = {}
        I.call_function(dec, [View(root), {"f": entry}, res], {}, None, None)
        return res

    try:
        p = single_path(I, thunk, "decode %r" % (entry,))
    except AnalysisError as e:
        if e.reason in ("static-loop-does-not-terminate",):
            return ("error", "decode_bits does not terminate for entry %r" % (entry,))
        raise
    if not p.returned:
        return ("error", p.raised.describe())
    if "f" not in p.value:
        return ("error", "decode_bits stored nothing for entry %r" % (entry,))
    v = norm_int(p.value["f"])
    if isinstance(v, View):
        if v.lo[0] is not None or v.length is None:
            return ("error", "blob with dynamic bounds")
        return ("blob", v.lo[1], v.length)
    if isinstance(v, int):
        return ("bits", [])
    if isinstance(v, Sym) and v.bits is not None:
        out = []
        for b in reversed(v.bits):
            if b == 0:
                out.append(None)
                continue
            if b == 1 or len(b) != 1:
                return ("error", "decoded bit is not a single buffer bit: %r" % (b,))
            (a,) = tuple(b)
            if a is True or a[0] != "m" or a[1] != root or a[2][0] is not None:
                return ("error", "decoded bit has foreign provenance %r" % (a,))
            out.append((a[2][1], a[3]))
        return ("bits", out)
    return ("error", "decode_bits result is not bit-precise: %r" % (v,))


def encode_entry(prog, entry, width, buflen, value=None):
    """specialise encode_dict to one entry over a buffer of ``buflen`` symbolic
    prior bytes.  Returns ('bits', {(byte,bit): j}, touched_ok) where j is the
    index of the value bit XORed into that buffer bit, or ('blob', off, n) or
    ('error', text)"""
    I = prog.I
    enc = prog.func(CONV, None, "encode_dict")
    holder = {}

    def thunk():
        buf = Buf(cells=[Sym(bits=[frozenset([("p", ("prior", i), j)]) for j in range(8)]) for i in range(buflen)])
        if entry_kind(entry) == "mask":
            val = Sym.param("v", width) if value is None else value
        else:
            val = SymBytes("v")
            val.length = {"b": 1, "w": 2, "dw": 4}.get(entry[0], 1) * entry[2]
        I.call_function(enc, [{"f": val}, {"f": entry}, buf], {}, None, None)
        holder["events"] = list(I.events)
        return buf

    try:
        p = single_path(I, thunk, "encode %r" % (entry,))
    except AnalysisError as e:
        if e.reason in ("static-loop-does-not-terminate",):
            return ("error", "encode_dict does not terminate for entry %r" % (entry,))
        raise
    if not p.returned:
        return ("error", p.raised.describe())
    buf = p.value
    if buf.cells is None or len(buf.cells) != buflen:
        return ("error", "encode_dict changed the buffer length (%r)" % (buf.length,))
    if entry_kind(entry) != "mask":
        span = []
        for i, c in enumerate(buf.cells):
            prior = tuple(frozenset([("p", ("prior", i), j)]) for j in range(8))
            if not (isinstance(c, Sym) and c.bits == prior):
                span.append(i)
        if not span:
            return ("blob", entry[1], 0)
        if span != list(range(span[0], span[-1] + 1)):
            return ("error", "blob store is not contiguous")
        return ("blob", span[0], len(span))
    out = {}
    for i, c in enumerate(buf.cells):
        c = norm_int(c)
        if not isinstance(c, Sym) or c.bits is None:
            return ("error", "buffer byte %d is not bit-precise after encode: %r" % (i, c))
        bits = tuple(c.bits) + (0,) * (8 - len(c.bits))
        if len(bits) > 8:
            if any(b != 0 for b in bits[8:]):
                return ("error", "byte %d overflows 8 bits" % i)
        for b in range(8):
            x = bits[b]
            prior = ("p", ("prior", i), b)
            if x == 0 or x == 1 or prior not in x:
                return ("error", "encode overwrote (did not XOR into) byte %d bit %d: %r" % (i, b, x))
            rest = x - {prior}
            if not rest:
                continue
            if len(rest) != 1:
                return ("error", "byte %d bit %d receives %d value bits" % (i, b, len(rest)))
            (a,) = tuple(rest)
            if a is True or a[0] != "p" or a[1] != "v":
                return ("error", "byte %d bit %d receives foreign bit %r" % (i, b, a))
            out[(i, b)] = a[2]
    return ("bits", out)


def spec_positions(f):
    """reference field -> [(byte, bit)] MSB first.
    f = (byte, msb, lsb)  or  (first_byte, msb, last_byte, lsb)  or  ("bits", positions)"""
    if f[0] == "bits":
        return [tuple(p) for p in f[1]]
    if len(f) == 3:
        byte, msb, lsb = f
        return [(byte, b) for b in range(msb, lsb - 1, -1)]
    fb, msb, lb, lsb = f
    out = [(fb, b) for b in range(msb, -1, -1)]
    for byte in range(fb + 1, lb):
        out.extend((byte, b) for b in range(7, -1, -1))
    if lb > fb:
        out.extend((lb, b) for b in range(7, lsb - 1, -1))
    else:
        out = [(fb, b) for b in range(msb, lsb - 1, -1)]
    return out


def pos_text(positions):
    if not positions:
        return "(no bits)"
    ps = [p for p in positions if p is not None]
    if not ps:
        return "(zeros)"
    return "b%d.%d..b%d.%d(%d bits)" % (ps[0][0], ps[0][1], ps[-1][0], ps[-1][1], len(ps))
