"""Sensitivity battery: registered scratch-copy variants of /repo/pyscsi must
make the check fire (and name the rule), behaviour-preserving twins must stay
silent.  Scratch copies live under $TMPDIR, outside /repo and /verif, and are
removed as each variant finishes."""
from __future__ import annotations

import importlib.util
import json
import os
import shutil
import sys
import tempfile
import time
from concurrent.futures import ProcessPoolExecutor

from .report import VERIF


def load_variants():
    path = os.path.join(VERIF, "selftest", "variants.py")
    spec = importlib.util.spec_from_file_location("verif_variants", path)
    mod = importlib.util.module_from_spec(spec)
    spec.loader.exec_module(mod)
    out = list(mod.VARIANTS)
    # the changes written by independent sub-agents (confirmed and filed under /verif/seeded) are regression variants too
    sdir = os.path.join(VERIF, "seeded")
    if os.path.isdir(sdir):
        for name in sorted(os.listdir(sdir)):
            mp = os.path.join(sdir, name, "meta.json")
            pp = os.path.join(sdir, name, "patch.diff")
            if os.path.isfile(mp) and os.path.isfile(pp):
                try:
                    meta = json.load(open(mp))
                except ValueError:
                    continue
                props = [p for p in meta.get("caught_by", []) if p]
                if meta.get("valid") and props:
                    out.append({"id": "seeded-" + name, "props": props, "patch": pp, "expect": "fire", "rule": None, "edits": []})
    # behaviour-preserving refactorings written by independent sub-agents (confirmed and filed under /verif/twins): every
    # check must stay silent on each of them
    tdir = os.path.join(VERIF, "twins")
    accepted = {}
    if os.path.isfile(os.path.join(tdir, "ACCEPTED.json")):
        accepted = json.load(open(os.path.join(tdir, "ACCEPTED.json")))
    if os.path.isdir(tdir):
        for name in sorted(os.listdir(tdir)):
            mp = os.path.join(tdir, name, "meta.json")
            pp = os.path.join(tdir, name, "patch.diff")
            if os.path.isfile(mp) and os.path.isfile(pp):
                try:
                    meta = json.load(open(mp))
                except ValueError:
                    continue
                if meta.get("valid"):
                    out.append({"id": "twin-" + name, "props": twin_props(meta, pp), "patch": pp, "expect": "silent", "rule": None, "edits": [],
                                "relocated": {pid: a["rules"] for pid, a in accepted.get(name, {}).items()},
                                "undecided": [pid for pid, c in meta.get("checks", {}).items() if c.get("exit") == 2]})
    return out


ALL_PIDS = "C01 C02 C03 C04 C05 C06 C07 C08 C09 C10 C11 C13 C14 C15 C16 C17 C18 C19".split()


def twin_props(meta, patch):
    """a twin is re-run for its own property and for every property whose check reported anything on it when it was filed
    (so that a false alarm, once corrected, stays corrected)"""
    props = [meta.get("property")] if meta.get("property") in ALL_PIDS else []
    for pid in meta.get("false_alarms_at_first", []) + meta.get("false_alarms", []):
        if pid in ALL_PIDS and pid not in props:
            props.append(pid)
    return props


def has_variants(pid):
    return any(pid in v["props"] for v in load_variants())


def apply_variant(repo, v, dest):
    """copy repo/pyscsi (+tools, examples) to dest and apply the edit; returns
    None if ok else a reason string"""
    for sub in ("pyscsi", "tools", "examples"):
        src = os.path.join(repo, sub)
        if os.path.isdir(src):
            shutil.copytree(src, os.path.join(dest, sub), ignore=shutil.ignore_patterns("__pycache__", "*.pyc"))
    if v.get("patch"):
        import subprocess
        r = subprocess.run(["git", "apply", "--unsafe-paths", v["patch"]], cwd=dest, capture_output=True, text=True)
        if r.returncode != 0:
            return "patch does not apply: %s" % r.stderr.strip()[:200]
        for root, dirs, files in os.walk(os.path.join(dest, "pyscsi")):
            for f in files:
                if f.endswith(".py"):
                    try:
                        compile(open(os.path.join(root, f)).read(), f, "exec")
                    except SyntaxError as e:
                        return "variant does not compile: %s" % e
    for edit in v["edits"]:
        path = os.path.join(dest, edit["file"])
        if not os.path.isfile(path):
            return "file missing: %s" % edit["file"]
        with open(path) as f:
            s = f.read()
        n = s.count(edit["old"])
        want = edit.get("count", 1)
        if n < 1 or (want != "all" and n != want):
            return "anchor text occurs %d times (expected %s) in %s" % (n, want, edit["file"])
        s = s.replace(edit["old"], edit["new"])
        try:
            compile(s, path, "exec")
        except SyntaxError as e:
            return "variant does not compile: %s" % e
        with open(path, "w") as f:
            f.write(s)
    return None


def run_one(args):
    repo, v, pid = args
    sys.setrecursionlimit(10000)
    os.environ["PYSCSI_SA_TIME_LIMIT"] = "600"          # a variant is decided at the quick tier, within the quick tier's budget
    base = tempfile.mkdtemp(prefix="pyscsi_sa_var_")
    t0 = time.time()
    try:
        why = apply_variant(repo, v, base)
        if why:
            return {"id": v["id"], "pid": pid, "status": "stale", "detail": why}
        from .cli import run_property
        code, run = run_property(pid, "quick", base, quiet=True, evidence=False)
        rules = sorted(set(x["rule"] for x in run.new_violations))
        return {"id": v["id"], "pid": pid, "status": "ran", "code": code, "rules": rules,
                "lines": [l.replace("VIOLATION", "violation-line").replace("ANALYSIS-ERROR", "analysis-error") for l in run.lines if not l.startswith("  ")][:3],
                "msgs": [x["construct"] + ": " + x["message"][:160] for x in run.new_violations[:3]],
                "wall": round(time.time() - t0, 2)}
    finally:
        shutil.rmtree(base, ignore_errors=True)


def main(pid, repo="/repo", run=None, verbose=True):
    variants = [v for v in load_variants() if pid in v["props"]]
    if not variants:
        print("selftest: no variants registered for %s" % pid)
        return 0
    jobs = [(repo, v, pid) for v in variants]
    workers = min(16, len(jobs), os.cpu_count() or 4)
    with ProcessPoolExecutor(max_workers=workers) as ex:
        results = list(ex.map(run_one, jobs))
    bad = 0
    stale = 0
    tally = {"fire_ok": 0, "silent_ok": 0, "missed": 0, "false_alarm": 0, "stale": 0, "error": 0}
    byid = {v["id"]: v for v in variants}
    for r in results:
        v = byid[r["id"]]
        expect = v.get("expect_by", {}).get(pid, v.get("expect", "fire"))
        if r["status"] == "stale":
            tally["stale"] += 1
            verdict = "STALE (%s)" % r["detail"]
        elif r["code"] == 2:
            if expect == "silent" and pid in v.get("undecided", ()):
                # a refactoring the analysis is known not to follow: "cannot decide" is the recorded, accepted answer --
                # what must never happen is a violation
                tally["silent_ok"] += 1
                tally["undecided"] = tally.get("undecided", 0) + 1
                verdict = "ok (undecided: exit 2, as recorded)"
            elif expect == "fire" and v.get("allow_error"):
                tally["fire_ok"] += 1
                verdict = "ok (analysis refuses: exit 2)"
            else:
                tally["error"] += 1
                bad += 1
                verdict = "ANALYSIS-ERROR %s" % r["lines"]
        elif expect == "fire":
            want_rule = v.get("rule") if pid == v["props"][0] else None
            hit = r["code"] == 1 and (not want_rule or any(want_rule in x for x in r["rules"]))
            if hit:
                tally["fire_ok"] += 1
                verdict = "ok fired %s" % r["rules"]
            else:
                tally["missed"] += 1
                bad += 1
                verdict = "MISSED (exit %d rules %s)" % (r["code"], r["rules"])
        else:
            if r["code"] == 0:
                tally["silent_ok"] += 1
                verdict = "ok silent"
            elif r["code"] == 1 and pid in v.get("relocated", {}) and r["rules"] and all(any(a in x for a in v["relocated"][pid]) for x in r["rules"]):
                # the refactoring moves code that carries a *known finding* of this property to another function: the finding is
                # keyed by its construct, so the check reports it at its new home -- as designed (twins/ACCEPTED.json says why)
                tally["silent_ok"] += 1
                tally["relocated"] = tally.get("relocated", 0) + 1
                verdict = "ok (a known finding reported at its new site: %s)" % r["rules"]
            else:
                tally["false_alarm"] += 1
                bad += 1
                verdict = "FALSE ALARM %s %s" % (r["rules"], r.get("msgs"))
        if verbose:
            print("selftest %s %-44s %s" % (pid, r["id"], verdict))
    ran = len(results) - tally["stale"]
    if verbose:
        print("selftest %s: %s" % (pid, tally))
    if run is not None:
        run.extra["selftest"] = dict(tally, variants=[{"id": r["id"], "status": r["status"], "exit": r.get("code"), "rules": r.get("rules")} for r in results])
    if bad:
        print("ANALYSIS-ERROR property=%s reason=selftest-failed detail=%s" % (pid, tally))
        return 2
    if ran * 2 < len(results):
        print("ANALYSIS-ERROR property=%s reason=selftest-stale detail=%s" % (pid, tally))
        return 2
    return 0
