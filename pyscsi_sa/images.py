"""Reference byte images: what a structure must look like on the wire, built
from the reference tables (spec/tables.py) and symbolic leaf values; compared
cell by cell with the buffer the library builds (C05 / C06)."""
from __future__ import annotations

from .cmdeval import cell_bits, value_bits
from .codec import spec_positions
from .values import *
from spec import tables as reft


class Image:
    def __init__(self, n):
        self.bits = [[0] * 8 for _ in range(n)]

    def __len__(self):
        return len(self.bits)

    def grow(self, n):
        while len(self.bits) < n:
            self.bits.append([0] * 8)

    def put(self, spec, value, base=0):
        """spec in standard coordinates (byte,msb,lsb)|(fb,msb,lb,lsb); value int|Sym"""
        pos = spec_positions(spec)
        vb = value_bits(value, len(pos))
        if vb is None:
            raise AnalysisError("image-value", "value %r has no bit view" % (value,))
        vb = tuple(vb) + (0,) * (len(pos) - len(vb))
        for i, (byte, bit) in enumerate(pos):
            self.grow(base + byte + 1)
            self.bits[base + byte][bit] = vb[len(pos) - 1 - i]

    def put_int(self, first, nbytes, value, base=0):
        self.put((first, 7, first + nbytes - 1, 0), value, base)

    def put_bytes(self, first, cells, base=0):
        for i, c in enumerate(cells):
            cb = cell_bits(c)
            if cb is None:
                raise AnalysisError("image-value", "byte %r has no bit view" % (c,))
            self.grow(base + first + i + 1)
            self.bits[base + first + i] = list(cb)

    def put_table(self, origin, values, base=0, skip=()):
        """place every value whose key the reference table knows"""
        ref = reft.TABLES[origin]
        for k, v in values.items():
            if k in skip:
                continue
            spec = ref["fields"].get(k) if ref["fields"] else None
            if spec is None:
                continue
            if spec[0] == "blob":
                self.put_bytes(spec[1], blob_cells(v), base)
            else:
                self.put(spec, v, base)

    def to_buf(self):
        return Buf(cells=[norm_int(Sym(bits=list(b))) for b in self.bits])

    def append(self, other):
        self.bits.extend([list(b) for b in other.bits])

    def diff(self, buf):
        """[(byte, expected bits, got bits)] ; buf is a Buf with static cells"""
        out = []
        if not isinstance(buf, Buf) or buf.cells is None:
            return [("length", len(self.bits), repr(buf))]
        if len(buf.cells) != len(self.bits):
            out.append(("length", len(self.bits), len(buf.cells)))
        for i in range(min(len(self.bits), len(buf.cells))):
            cb = cell_bits(buf.cells[i])
            if cb is None or list(cb) != self.bits[i]:
                out.append((i, show_byte(self.bits[i]), show_byte(cb) if cb is not None else repr(buf.cells[i])))
        return out


def blob_cells(v):
    if isinstance(v, Buf) and v.cells is not None:
        return list(v.cells)
    if isinstance(v, (bytes, bytearray)):
        return list(v)
    raise AnalysisError("image-value", "blob %r" % (v,))


def sym_blob(name, n):
    return Buf(cells=[Sym.param((name, i), 8) for i in range(n)])


def show_byte(bits):
    out = []
    for b in reversed(list(bits)):
        if b in (0, 1):
            out.append(str(b))
        else:
            out.append("^".join(sorted(atom_str(a) for a in b)))
    return "[" + " ".join(out) + "]"


def same_value(a, b):
    """structural equality of abstract values (dict / list / Sym / Buf / int / bytes)"""
    a, b = norm_int(a), norm_int(b)
    if isinstance(a, Sym) or isinstance(b, Sym):
        ab, bb = value_bits(a), value_bits(b)
        if ab is None or bb is None:
            return False
        n = max(len(ab), len(bb))
        return tuple(ab) + (0,) * (n - len(ab)) == tuple(bb) + (0,) * (n - len(bb))
    if isinstance(a, dict) and isinstance(b, dict):
        return set(a) == set(b) and all(same_value(a[k], b[k]) for k in a)
    if isinstance(a, (list, tuple)) and isinstance(b, (list, tuple)):
        return len(a) == len(b) and all(same_value(x, y) for x, y in zip(a, b))
    if isinstance(a, (Buf, bytes, bytearray)) and isinstance(b, (Buf, bytes, bytearray)):
        ca = a.cells if isinstance(a, Buf) else list(a)
        cb = b.cells if isinstance(b, Buf) else list(b)
        if ca is None or cb is None or len(ca) != len(cb):
            return False
        return all(cell_bits(x) == cell_bits(y) for x, y in zip(ca, cb))
    return a == b


def first_difference(a, b, path=""):
    a, b = norm_int(a), norm_int(b)
    if isinstance(a, dict) and isinstance(b, dict):
        for k in a:
            if k not in b:
                return "%s[%r] missing after the round trip" % (path, k)
        for k in b:
            if k not in a:
                return "%s[%r] appears after the round trip" % (path, k)
        for k in a:
            d = first_difference(a[k], b[k], "%s[%r]" % (path, k))
            if d:
                return d
        return None
    if isinstance(a, (list, tuple)) and isinstance(b, (list, tuple)):
        if len(a) != len(b):
            return "%s has %d elements, %d after the round trip" % (path, len(a), len(b))
        for i, (x, y) in enumerate(zip(a, b)):
            d = first_difference(x, y, "%s[%d]" % (path, i))
            if d:
                return d
        return None
    if same_value(a, b):
        return None
    return "%s: %r became %r" % (path, a, b)
