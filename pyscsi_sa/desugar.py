"""Structural pattern matching rewritten into the statements the engine interprets.

`match subject: case P1 if g1: B1 ...` becomes

    __match_N = subject
    if <test of P1 on __match_N> and g1: B1
    elif ...: ...

with the test of a pattern written out as python's own semantics give it (PEP 634): value patterns compare with ==,
singletons with `is`, captures bind through `[name := part]` (a one-element list, always true), sequence patterns test
the type (list / tuple -- never str, bytes or bytearray), the length and the parts, mapping patterns test the type and
the keys, class patterns test isinstance and the named attributes; positional sub-patterns are followed for the
built-in types that match the subject itself (`int(x)`, `str(x)` ...) and through a literal `__match_args__` only.
Anything outside that is left as a Match node, which the interpreter refuses (`unsupported-syntax`).
Every generated node carries the position of the case it came from, so reports keep pointing at the source.
"""
import ast

SELF_MATCH = ("bool", "bytearray", "bytes", "dict", "float", "frozenset", "int", "list", "set", "str", "tuple")


class Unsupported(Exception):
    pass


def _name(n, ctx=None):
    return ast.Name(id=n, ctx=ctx or ast.Load())


def _call(fn, *args):
    return ast.Call(func=_name(fn), args=list(args), keywords=[])


def _and(parts):
    parts = [p for p in parts if not (isinstance(p, ast.Constant) and p.value is True)]
    if not parts:
        return ast.Constant(value=True)
    if len(parts) == 1:
        return parts[0]
    return ast.BoolOp(op=ast.And(), values=parts)


def _bind(name, expr):
    return ast.List(elts=[ast.NamedExpr(target=_name(name, ast.Store()), value=expr)], ctx=ast.Load())


def pattern_test(p, subj):
    """an expression that is true exactly when pattern p matches the value of expression subj (binding its captures)"""
    if isinstance(p, ast.MatchValue):
        return ast.Compare(left=subj, ops=[ast.Eq()], comparators=[p.value])
    if isinstance(p, ast.MatchSingleton):
        return ast.Compare(left=subj, ops=[ast.Is()], comparators=[ast.Constant(value=p.value)])
    if isinstance(p, ast.MatchAs):
        parts = []
        if p.pattern is not None:
            parts.append(pattern_test(p.pattern, subj))
        if p.name is not None:
            parts.append(_bind(p.name, subj))
        return _and(parts)
    if isinstance(p, ast.MatchOr):
        return ast.BoolOp(op=ast.Or(), values=[pattern_test(q, subj) for q in p.patterns])
    if isinstance(p, ast.MatchSequence):
        stars = [i for i, q in enumerate(p.patterns) if isinstance(q, ast.MatchStar)]
        n = len(p.patterns)
        parts = [_call("isinstance", subj, ast.Tuple(elts=[_name("list"), _name("tuple")], ctx=ast.Load()))]
        ln = _call("len", subj)
        if not stars:
            parts.append(ast.Compare(left=ln, ops=[ast.Eq()], comparators=[ast.Constant(value=n)]))
            for i, q in enumerate(p.patterns):
                parts.append(pattern_test(q, ast.Subscript(value=subj, slice=ast.Constant(value=i), ctx=ast.Load())))
            return _and(parts)
        if len(stars) > 1:
            raise Unsupported("two starred sub-patterns")
        s = stars[0]
        after = n - s - 1
        parts.append(ast.Compare(left=ln, ops=[ast.GtE()], comparators=[ast.Constant(value=n - 1)]))
        for i, q in enumerate(p.patterns[:s]):
            parts.append(pattern_test(q, ast.Subscript(value=subj, slice=ast.Constant(value=i), ctx=ast.Load())))
        for j, q in enumerate(p.patterns[s + 1:]):
            parts.append(pattern_test(q, ast.Subscript(value=subj, slice=ast.Constant(value=-(after - j)), ctx=ast.Load())))
        star = p.patterns[s]
        if star.name is not None:
            sl = ast.Slice(lower=ast.Constant(value=s), upper=ast.Constant(value=-after) if after else None)
            parts.append(_bind(star.name, _call("list", ast.Subscript(value=subj, slice=sl, ctx=ast.Load()))))
        return _and(parts)
    if isinstance(p, ast.MatchMapping):
        parts = [_call("isinstance", subj, _name("dict"))]
        for k, q in zip(p.keys, p.patterns):
            parts.append(ast.Compare(left=k, ops=[ast.In()], comparators=[subj]))
            parts.append(pattern_test(q, ast.Subscript(value=subj, slice=k, ctx=ast.Load())))
        if p.rest is not None:
            raise Unsupported("**rest in a mapping pattern")
        return _and(parts)
    if isinstance(p, ast.MatchClass):
        parts = [_call("isinstance", subj, p.cls)]
        if p.patterns:
            if isinstance(p.cls, ast.Name) and p.cls.id in SELF_MATCH and len(p.patterns) == 1:
                parts.append(pattern_test(p.patterns[0], subj))
            else:
                raise Unsupported("positional sub-patterns of class %s" % ast.unparse(p.cls))
        for a, q in zip(p.kwd_attrs, p.kwd_patterns):
            parts.append(_call("hasattr", subj, ast.Constant(value=a)))
            parts.append(pattern_test(q, ast.Attribute(value=subj, attr=a, ctx=ast.Load())))
        return _and(parts)
    raise Unsupported(type(p).__name__)


class MatchRewriter(ast.NodeTransformer):
    def __init__(self):
        self.n = 0

    def visit_Match(self, node):
        self.generic_visit(node)
        self.n += 1
        tmp = "_match_subject_%d" % self.n
        try:
            tests = []
            for c in node.cases:
                t = pattern_test(c.pattern, _name(tmp))
                if c.guard is not None:
                    t = _and([t, c.guard])
                tests.append(t)
        except Unsupported:
            return node
        assign = ast.Assign(targets=[_name(tmp, ast.Store())], value=node.subject)
        ast.copy_location(assign, node)
        chain = None
        for c, t in reversed(list(zip(node.cases, tests))):
            stmt = ast.If(test=t, body=c.body, orelse=[chain] if chain is not None else [])
            ast.copy_location(stmt, c.pattern)
            for sub in ast.walk(t):
                if not hasattr(sub, "lineno"):
                    ast.copy_location(sub, c.pattern)
            chain = stmt
        out = [assign] + ([chain] if chain is not None else [])
        for st in out:
            ast.fix_missing_locations(st)
        return out


def rewrite(tree):
    r = MatchRewriter()
    tree = r.visit(tree)
    return tree
