#!/venv/bin/python
"""Refresh the generated tables of DESIGN.md (between <!-- BEGIN:x --> / <!-- END:x --> markers) from
known_findings.json and seeded/*/meta.json."""
import os, re, subprocess, sys
V = os.path.dirname(os.path.dirname(os.path.abspath(__file__)))
p = os.path.join(V, "DESIGN.md")
s = open(p).read()
for name, tool in (("findings", "gen_findings_table.py"), ("seeds", "gen_seed_table.py"), ("twins", "gen_twin_table.py")):
    out = subprocess.run([sys.executable, os.path.join(V, "tools", tool)], capture_output=True, text=True, check=True).stdout
    pat = re.compile(r"(<!-- BEGIN:%s -->\n).*?(<!-- END:%s -->)" % (name, name), re.S)
    if not pat.search(s):
        sys.exit("marker %s missing" % name)
    s = pat.sub(lambda m: m.group(1) + out + m.group(2), s)
open(p, "w").write(s)
