"""Write /verif/floors.json from the quick-tier evidence of the clean tree: per property and rule, the number of obligations a
run must at least generate (75 % of today's count; half for rules with fewer than 8).  A run that generates fewer and reports
nothing is not a pass: the analysis lost sight of its instances (ANALYSIS-ERROR reason=rule-coverage-floor)."""
import json, os, sys
V = os.path.join(os.path.dirname(os.path.abspath(__file__)), "..")
out = {}
for f in sorted(os.listdir(os.path.join(V, "evidence"))):
    d = json.load(open(os.path.join(V, "evidence", f)))
    pid = d["property_id"]
    if d.get("tier") != "quick":
        sys.exit("evidence/%s is from a %s run: floors are generated from quick-tier evidence only (run ./check <ID> for all first)" % (f, d.get("tier")))
    rules = d["coverage"].get("rules", {})
    out[pid] = {r: (max(1, n // 2) if n < 8 else (n * 3) // 4) for r, n in sorted(rules.items())}
json.dump(out, open(os.path.join(V, "floors.json"), "w"), indent=1, sort_keys=True)
print("floors for", len(out), "properties,", sum(len(v) for v in out.values()), "rules")
