"""make a scratch copy of /repo's HEAD (not its working tree) with one patch applied, for debugging a check against it:
tools/twin_copy.py <patch> <dest>"""
import os, shutil, subprocess, sys
dest = sys.argv[2]
shutil.rmtree(dest, ignore_errors=True)
os.makedirs(dest)
subprocess.run("git -C /repo archive HEAD pyscsi tools examples | tar -x -C %s" % dest, shell=True, check=True)
r = subprocess.run(["git", "apply", "--unsafe-paths", os.path.abspath(sys.argv[1])], cwd=dest, capture_output=True, text=True)
print("ok" if r.returncode == 0 else r.stderr)
