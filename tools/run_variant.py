"""run one battery variant against the checks it is registered for (or the ones named): tools/run_variant.py <id> [C01 ...]"""
import os, sys
sys.path.insert(0, os.path.join(os.path.dirname(os.path.abspath(__file__)), ".."))
from concurrent.futures import ProcessPoolExecutor
from pyscsi_sa import selftest

if __name__ == "__main__":
    vid = sys.argv[1]
    v = [x for x in selftest.load_variants() if x["id"] == vid]
    if not v:
        sys.exit("no such variant")
    v = v[0]
    props = sys.argv[2:] or v["props"]
    with ProcessPoolExecutor(max_workers=min(16, len(props))) as ex:
        for r in ex.map(selftest.run_one, [("/repo", v, p) for p in props]):
            print(r["pid"], r.get("status"), r.get("code"), r.get("rules"), (r.get("msgs") or r.get("lines") or [r.get("detail")])[:2])
