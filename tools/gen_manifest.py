#!/venv/bin/python
"""Regenerates /verif/MANIFEST.json from the table below (keeps it valid at all times)."""
import json, os, sys
HERE = os.path.dirname(os.path.dirname(os.path.abspath(__file__)))

IMPLEMENTED = sys.argv[1:] if len(sys.argv) > 1 else None

P = {
 "C01": ("abstract interpretation of every constructor with symbolic arguments through SCSICommand.__init__/build_cdb/encode_dict (bit provenance), compared with a reference in the standards' coordinates",
         "Decides, for all in-range argument values at once, which CDB bit carries which argument bit for every command class x command set; reference tables are hand transcriptions (spec/cdb.py). Out-of-range arguments are not decided.",
         "trusted: spec/cdb.py and spec/opcodes.py transcriptions; python int/bytearray semantics as modelled in pyscsi_sa/values.py"),
 "C02": ("bit-provenance composition of specialised encode_dict and decode_bits per _cdb_bits table",
         "Decides decode(encode(v)) = v and encode(decode(b)) = b on defined bits for every CDB table, all field values jointly, by composing the codec specialised to each static table entry.",
         "trusted: python int semantics as modelled; interference between command objects is C09"),
 "C03": ("affine/polynomial dataflow of buffer-size expressions and CDB length fields through constructors; pass-through of buffers in both transports",
         "Decides that the expression sizing datain/dataout is the same value that reaches the CDB's length field (or blocks x blocksize, or the SAT rule table), that buffers are never None, and that both transports hand cmd.cdb/dataout/datain to the binding in order.",
         "trusted: binding call signatures (sgio.execute, iscsi.Task, Context.command) are assumptions; caller-supplied data length is not decided"),
 "C04": ("specialised decoder per response table compared with reference layouts; parse windows, strides and dispatch read off the abstract interpretation of each unmarshall_datain",
         "Structural: decides that every response table reads the standard's bits, that each parser's window/stride/dispatch equals the reference, and that no decoder path fails with certainty on well-formed input. READ CD per-sector layout and T10 texts are not decided.",
         "trusted: spec/responses.py transcription; responses are assumed at least as long as their fixed part"),
 "C05": ("specialised encoder per parameter-list table compared with reference; embedded-length expressions as polynomial forms; constructor closures evaluated for constructibility",
         "Structural: decides table layouts, every embedded length = bytes that follow, CDB parameter list length = len(dataout), and that each data-out command can be constructed on every supported dispatch arm.",
         "trusted: spec/paramlists.py transcription; dictionaries the library does not claim to support are not decided"),
 "C06": ("sibling agreement between marshall_*/unmarshall_* pairs: same tables, keys produced = keys consumed, length constants, stride = descriptor size",
         "Structural: a necessary condition of round trip (the value equality itself follows from C10 plus these agreements).",
         "trusted: the reference for symmetric errors; block descriptors are not decided"),
 "C07": ("CFG path rules over both transports' execute and the facade: handler paths end in raise, status dispatch table, exception constructed-not-raised, execute dominates unmarshall",
         "Decides the error discipline on every path of SCSIDevice.execute, ISCSIDevice.execute, SCSI.execute and the 38 facade methods.",
         "trusted: what the external bindings raise/return (cython-sgio raises CheckConditionError; libiscsi Task.status)"),
 "C08": ("definite-assignment and lookup-totality analysis of SCSICheckCondition over all response codes / sense keys / ASC-ASCQ by interval partition",
         "Decides that construction and str() cannot raise for any sense buffer and that key/ASC/ASCQ positions equal SPC's. T10 texts are not decided.",
         "trusted: spec/sense.py positions; python %-format semantics as modelled"),
 "C09": ("ownership/effect inventory: stores to class objects, module globals, class-level containers and mutable default arguments in the closure of every constructor/marshaller",
         "Decides absence of shared mutable state (sound for all histories and interleavings: threads that share nothing cannot interfere); any write is reported with its readers.",
         "trusted: python object model as modelled (class attribute store vs instance store)"),
 "C10": ("specialisation of the four converter functions to each static mask shape with symbolic value/buffer/prior contents (bit provenance), over an enumerated shape family",
         "Decides the codec laws for all values and offsets per shape, for widths 1..72 x 8 alignments, sizes 0..16(64), blob kinds; shapes outside the family are not decided.",
         "trusted: python int shift/mask/xor semantics as modelled in values.py"),
 "C11": ("loop-variant analysis: every decoder while-loop rebinding its view with a stride whose interval lower bound is >= 1 on every path; static masks non-zero; acyclic decoder call graph",
         "Decides termination/progress of every response and sense decoder for any byte content.",
         "trusted: slicing semantics; constant factors are not decided"),
 "C13": ("per facade method: opcode lookup resolution on all five command-set tables, exactly-one-execute on every path, identity of the executed/unmarshalled/returned object, argument forwarding, hidden required kwargs",
         "Decides the facade discipline for 38 methods x 5 command sets.",
         "trusted: spec/facade.py method->(opcode name, class) pairing"),
 "C14": ("exhaustive comparison of every literal opcode/service-action/status constant with a T10 transcription; constant propagation of init_cdb over all 256 opcode values",
         "Exhaustive over the finite space: 249+ entries, service actions, 8 status codes, 256 opcode values.",
         "trusted: spec/opcodes.py (hand transcription of T10 op-num, SAM status codes and CDB length groups)"),
 "C15": ("typestate/ordering rules on SCSIDevice.execute/open/close/__exit__: close..finally open before sgio.execute, file argument read after the block, no OSError handler, close exactly once",
         "Decides the handle discipline on every CFG path; OS semantics are not decided.",
         "trusted: open()/os.stat semantics"),
 "C16": ("decision partition of SCSI.__init_opcode over all 32 device-type values; primary commands present in every selectable table; selection state stored on the device only",
         "Decides device-type -> command-set mapping for all 32 values and re-attach behaviour structurally.",
         "trusted: spec/facade.py device-type table (SPC-4 table of peripheral device types)"),
 "C17": ("dominance of refusal guards over effects: MissingBlocksize before SCSICommand.__init__, init_cdb refuse set, PR IN else-raise, XCOPY validators, TransportID consistency checks",
         "Decides that each refusal happens on every path before the protected effect.",
         "trusted: accepted refusal idioms enumerated in the rule"),
 "C18": ("ownership of Enum's stores, guard dominance in add/remove, truth table of the keys filter evaluated on the AST",
         "Structural part only: equivalence with a dict model over operation histories is not decided.",
         "trusted: python `type` namespace contents (__module__, __dict__, __weakref__, __doc__)"),
 "C19": ("who-may-import rule for sgio/iscsi, try/except ImportError flag discipline, constructor guard precedes open, init_device dispatch, import resolvability of every module",
         "Decides import/guard discipline for all modules; the real bindings are not decided.",
         "trusted: python import semantics"),
}
NA = {
 "C12": "quantifies over command histories against a conformant block target that exists nowhere in the repository; read-after-write equality is a run-time relation between buffers across calls. Its static content (CDB bits C01, buffer sizing/pass-through C03/C13, READ CAPACITY/INQUIRY parsing C04) is decided under those properties and it has no structural clause of its own left.",
}

def main():
    impl = IMPLEMENTED
    if impl is None:
        impl = [l.strip() for l in open(os.path.join(HERE, "tools", "implemented.txt")) if l.strip()]
    checks = []
    na = []
    for pid in sorted(set(P) | set(NA)):
        if pid in NA:
            na.append({"property_id": pid, "reason": NA[pid]})
            continue
        if pid not in impl:
            na.append({"property_id": pid, "reason": "check not yet built in this snapshot (static rule designed in DESIGN.md section 5; under construction)"})
            continue
        tech, text, note = P[pid]
        checks.append({
            "property_id": pid,
            "quick_cmd": "./check %s --tier quick" % pid,
            "thorough_cmd": "./check %s --tier thorough" % pid,
            "evidence_file": "/verif/evidence/%s.json" % pid,
            "replay_cmd_template": "./check %s --replay {path}" % pid,
            "engine": "pyscsi_sa",
            "level_claimed": {"category": "other", "text": "static analysis: " + text, "design_ref": "DESIGN.md section 5, " + pid},
            "level_note": note,
            "technique": "static analysis: " + tech,
        })
    m = {
        "version": 1,
        "setup_cmd": "/venv/bin/python -m compileall -q pyscsi_sa spec >/dev/null 2>&1; /venv/bin/python -c \"import ast\"",
        "hooks": {"guard": "PYSCSI_VERIF", "enable": "none needed: the checks read /repo's source text and never import or run it",
                  "baseline_off_cmd": "cd /repo && /venv/bin/python -m pytest -ra -q -p no:cacheprovider --timeout=900 --continue-on-collection-errors",
                  "source_commits": [], "add_only": True},
        "engines": [{"name": "pyscsi_sa", "path": "/verif/pyscsi_sa", "serves_properties": [c["property_id"] for c in checks],
                     "kind_free_text": "repository-specific static analyser: abstract interpreter over ast (bit provenance, polynomial lengths, intervals, path forking with refinement, loop summaries), CFG/dominators, reference tables in /verif/spec"}],
        "checks": checks,
        "not_applicable": na,
        "notes": "All checks are static analysis of /repo's working tree (ast only; nothing from python-scsi is imported or executed). Exit 0 held / 1 VIOLATION / 2 ANALYSIS-ERROR. Known findings: /verif/known_findings.json.",
    }
    with open(os.path.join(HERE, "MANIFEST.json"), "w") as f:
        json.dump(m, f, indent=1)
    print("claimed:", [c["property_id"] for c in checks])

main()
